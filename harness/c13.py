"""C13 \u2014 text extraction. Real get_text/.text/.strings/.stripped_strings/._all_strings/.string on every element and
string of generated, parsed and API-edited trees, against (a) an independent recursive evaluator over `.contents`
(the property statement) and (b) the Lean code-mirror and the Lean recursive evaluator (driver ops `run`/`spec`)."""
import copy
import json

from .common import Ctx, Driver

MANIFEST = dict(
    text=("Lean theorems, for all trees (own inductive tree type, every string class incl. arbitrary subclasses), all receivers, "
          "all separator/strip/types arguments and every interesting_string_types value: the code-mirror of Tag._all_strings (worklist "
          "walk over descendants + exact-class filter + strip) equals the recursive evaluator (allStrings_eq_spec, walk_is_preorder, "
          "allStrings_filter_of_document_order, allStrings_str_eq_spec for string receivers); default selection = NavigableString+CData "
          "for ordinary elements, own class for string containers, over the generated MAIN_CONTENT_STRING_TYPES / DEFAULT_STRING_CONTAINERS "
          "tables (default_types_*, main_types_table, containers_table, whitespace_table); special strings never seen from ordinary "
          "elements whatever the nesting (outside_never_sees_special, outside_mem, only_special_yields_nothing); explicit types select "
          "by exact class (types_arg_exact/one/none/mem/str); get_text = intercalate (getText_join, getText_length, text_concat); strip "
          "trims by the generated isspace table and drops empties, existence and uniqueness of the trim (strip_spec, strip_unique_trim, "
          "strip_drops_empties(_str), strip_fixed_point), only the truth value of strip matters (strip_truthiness); .string = the string "
          "at the end of a chain of only children (string_sole_chain, sole_chain_unique, string_none_iff). ON THE POINTER HEAP "
          "(Model/TextHeap.lean: _all_strings/get_text over the next_element chase of Tag.descendants, .string as the loop over contents): "
          "on every consistent heap they never fail and equal the tree-level mirror on the tree read off the children lists "
          "(heap_allStrings_eq_tree/eq_spec/document_order, heap_getText, heap_string_sole_chain, heap_string_eq_tree, toNode_is_the_tree), "
          "and by C01's theorems every parsed document edited by any finite history of the fourteen editing calls is such a heap "
          "(parsed_then_edited_text, built_then_edited_text) - the pre-order of the chain is derived, not assumed; the generator "
          "protocol (successor read before the yield): extracting the string just handed out never ends or derails the iteration "
          "(iteration_survives_extract, from C01's cut witness), for the other editing calls only under a frame hypothesis "
          "(iteration_survives_framed_edits_partial; run differentially). CONFIGURATION: a Tag subclass's own "
          "MAIN_CONTENT_STRING_TYPES (subclass_main), pickling (pickle_keeps_config, unpickle_builder_truth_value), falsy builder objects "
          "(falsy_builder_is_a_builder), refused parse attempts (rejected_attempts_leave_no_container_open), "
          "TreeBuilder's string_containers option (omitted / dict incl. empty / None), Tag.__init__ with and without a builder, new_tag, "
          "Tag.copy_self, BeautifulSoup.copy_self, copies of trees, nested containers (config_option, tag_init_cases, "
          "empty_config_all_ordinary, builderless_tag_counts_main, copy_same_text, soup_copy_root_from_builder, "
          "nested_containers_innermost, no_container_open, string_container_rule), and the parser: C03's builder machine instantiated "
          "with a string_containers table gives pending text the class of the innermost open container in every state "
          "(parsed_text_class), hence the contents of the default containers are invisible from ordinary elements and visible from "
          "the container (container_contents_invisible, parsed_container_text_invisible). Tie: differential runs of the real code on "
          "parsed (html.parser, malformed markup included) and API-built/edited trees with every string class under every kind of "
          "parent, every element and string as receiver, the argument grid (strip as bool/int/None/str, types as class/None/tuple/list/"
          "set/frozenset/dict/one-shot iterator), custom string_containers (incl. builder tables in which one name is both a string container and "
          "whitespace-preserving, and void elements as containers: text before, inside and after such elements, nested and re-opened, "
          "against the nearest-open-container rule and against C03's machine run with builderCfg) and hand-set "
          "interesting_string_types, Tag/BeautifulSoup subclasses overriding MAIN_CONTENT_STRING_TYPES (element_classes), copies, "
          "builder OBJECTS of the harness (falsy ones defining __len__/__bool__; ones whose prepare_markup offers candidates that are "
          "refused after their events were sent, with string containers still open - BeautifulSoup.__init__'s retry loop, against "
          "C03's parseLoop run with builderCfg), pickle round trips under every configuration, ask-edit-ask sequences, real edit histories against the pointer-heap model, "
          "iterations of .strings/_all_strings in which the consumer edits each string as it is handed out (extract, decompose, "
          "replace_with, insert_before/after, wrap) against the generator-protocol mirror and the snapshot oracle; against the Lean mirrors, the Lean evaluator "
          "and an independent Python evaluator over .contents (object identity of the yielded strings included)."),
    design="7/C13",
    note=("Known finding C13-unpickle-falsy-builder (re-observed each run, witness theorem unpickle_falsy_builder_witness, repair "
          "fixes/C13-unpickle-falsy-builder.diff): __setstate__ swaps a falsy builder object for a default one. "
          "Edits in the tree streams are single-argument API calls; the heap stream uses heapsim's histories (all fourteen calls, "
          "multi-argument included). types=() is the default sentinel itself (CPython's empty tuple is a singleton) and is read as "
          "'default'. Recorded behaviours, modelled but outside the property's quantifier: NavigableString._all_strings yields "
          "nothing for an empty string even without strip; a string receiver's default selection is NavigableString+CData whatever "
          "its parent; a one-shot iterator passed as types is consumed by the `in` test (iter_types_sublist; the check accepts the "
          "tuple reading as well); string_containers=None makes Tag construction raise TypeError; copying a BeautifulSoup object "
          "re-derives the root's interesting_string_types from the builder; element_classes={NavigableString: Sub} hides all parsed "
          "text from ordinary elements (only string_container() itself is compared with the model under element_classes). The heap "
          "model carries string classes and interesting_string_types as a labelling beside Model/Heap.lean's heap (no editing call "
          "writes them); library-allocated strings are NavigableString (Comment for a preformatted `.string=`)."),
    technique="Lean 4 refinement proofs (code-mirror = recursive evaluator on trees; pointer-heap mirror = tree mirror via C01's invariant; C03's parser machine instantiated) + generated tables + differential correspondence + direct Python oracle",
)

# numbering of the classes the model knows by name = position in Gen.c13KnownStringClasses (translate/parts_c13.py KNOWN)
KNOWN = ["NavigableString", "PreformattedString", "CData", "ProcessingInstruction", "XMLProcessingInstruction",
         "Comment", "Declaration", "Doctype", "Stylesheet", "Script", "TemplateString", "RubyTextString",
         "RubyParenthesisString"]

# the property statement, hard-coded (NOT read from the live tables)
PROP_MAIN = ("NavigableString", "CData")
PROP_CONTAINERS = {"script": "Script", "style": "Stylesheet", "template": "TemplateString", "rt": "RubyTextString",
                   "rp": "RubyParenthesisString"}

SEPS = ["", " ", "|", "--", "\n ", "\u00e9\u2603", "\U0001f600"]
WS = [" ", "\n", "\t", "\r", "\x0c", "\x0b", "\x1c", "\x1f", "\x85", "\xa0", "\u1680", "\u2003", "\u200a", "\u2028",
      "\u2029", "\u202f", "\u205f", "\u3000"]
NOT_WS = ["\u200b", "\ufeff", "\u180e", "\x00", "\x08"]

_E = {}


def E():
    """lazy bs4 namespace + the harness' own subclasses"""
    if _E:
        return _E
    import bs4
    import bs4.element as el
    from bs4.builder import HTMLTreeBuilder
    _E["bs4"] = bs4
    _E["el"] = el
    _E["BeautifulSoup"] = bs4.BeautifulSoup
    cls = {n: getattr(el, n) for n in KNOWN}

    class SubNS(el.NavigableString):
        pass

    class SubComment(el.Comment):
        pass

    class SubScript(el.Script):
        pass

    class SubCData(el.CData):
        pass
    subs = [SubNS, SubComment, SubScript, SubCData]

    # Tag / BeautifulSoup subclasses with their own MAIN_CONTENT_STRING_TYPES (an interesting-type configuration installed
    # through element_classes={Tag: …} or by constructing the subclass); `_verif_main` is the harness' own record of it
    class TagCountingComments(el.Tag):
        MAIN_CONTENT_STRING_TYPES = {el.NavigableString, el.CData, el.Comment}
        _verif_main = ("NavigableString", "CData", "Comment")

    class TagOnlyComments(el.Tag):
        MAIN_CONTENT_STRING_TYPES = frozenset([el.Comment])
        _verif_main = ("Comment",)

    class SoupCountingDoctypes(bs4.BeautifulSoup):
        MAIN_CONTENT_STRING_TYPES = {el.NavigableString, el.Doctype}
        _verif_main = ("NavigableString", "Doctype")
    from bs4.builder import HTMLParserTreeBuilder, ParserRejectedMarkup
    REJECT = "\x00VERIF-REFUSE"

    class HarnessBuilder(HTMLParserTreeBuilder):
        """a user's builder object: `retry` = extra candidates prepare_markup() offers BEFORE the real document, each a prefix of
        it that the parser then refuses — html.parser itself on an unknown marked section ("marked"), or this builder's feed()
        after sending the prefix's events ("feed") — so BeautifulSoup.__init__'s retry loop abandons attempts with whatever
        elements still open. Subclasses below are legal but FALSY objects."""
        def __init__(self, *a, retry=(), **kw):
            super().__init__(*a, **kw)
            self.retry = [tuple(x) for x in retry]
            self.docs = 0
            self.refused = 0
            self.accepted_text = None

        def prepare_markup(self, markup, *a, **kw):
            for cand in super().prepare_markup(markup, *a, **kw):
                text = cand[0]
                for cut, mech in self.retry:
                    prefix = text[:cut]
                    yield (prefix + ("<![verif[ x ]]>" if mech == "marked" else REJECT),) + tuple(cand[1:])
                yield cand

        def feed(self, markup):
            if isinstance(markup, str) and markup.endswith(REJECT):
                super().feed(markup[:-len(REJECT)])
                self.refused += 1
                raise ParserRejectedMarkup("harness builder: candidate refused after its events were sent")
            try:
                super().feed(markup)
            except ParserRejectedMarkup:
                self.refused += 1
                raise
            self.accepted_text = markup
            self.docs += 1

    class FalsyBoolBuilder(HarnessBuilder):
        def __bool__(self):
            return False

    class EmptyLenBuilder(HarnessBuilder):
        def __len__(self):
            return 0

    class CountingLenBuilder(HarnessBuilder):
        """len() = documents built so far: falsy exactly while its first document is parsed"""
        def __len__(self):
            return self.docs
    builders = [HarnessBuilder, FalsyBoolBuilder, EmptyLenBuilder, CountingLenBuilder]
    _E["builders"] = {"retry": HarnessBuilder, "bool": FalsyBoolBuilder, "len0": EmptyLenBuilder, "lencount": CountingLenBuilder}
    tagsubs = [TagCountingComments, TagOnlyComments, SoupCountingDoctypes]
    # make every harness class picklable by reference (pickle round trips of documents are part of the check)
    for k in subs + tagsubs + builders:
        k.__module__ = __name__
        k.__qualname__ = k.__name__
        globals()[k.__name__] = k
    _E["tagsubs"] = {k.__name__: k for k in tagsubs}
    for s in subs:
        cls[s.__name__] = s
    _E["cls"] = cls
    _E["code"] = {cls[n]: i for i, n in enumerate(KNOWN)} | {s: 100 + i for i, s in enumerate(subs)}
    _E["names"] = KNOWN + [s.__name__ for s in subs]
    _E["live_containers"] = dict(HTMLTreeBuilder.DEFAULT_STRING_CONTAINERS)
    return _E


def cls_code(c):
    e = E()
    if c in e["code"]:
        return e["code"][c]
    return 100 + 899  # any class the harness did not create (e.g. Tag in a types list)


def ptok(s: str) -> str:
    return ",".join(str(ord(c)) for c in s) if s else "e"


def arg_tok(s: str) -> str:
    return ",".join(str(ord(c)) for c in s) if s else "-"


def show_pieces(l) -> str:
    return "[" + ";".join(ptok(str.__str__(p)) for p in l) + "]"


# --------------------------------------------------------------------------------------
# configurations (string_containers passed to the builder)
# --------------------------------------------------------------------------------------
CONFIGS = ["default", "default", "default", "empty", "b-sub", "default+", "script-plain", "overlap-pre", "overlap-script",
           "overlap-void", "tagsub", "tagsub-only+b", "soupsub"]
DEFAULT_PRESERVE = ("pre", "textarea")
VOID = ("br", "hr")


def config_preserve(name):
    """the preserve_whitespace_tags in force (the property says nothing about them; they matter because the parser keeps
    a second context stack for them beside the string-container stack)"""
    if name == "overlap-script":
        return ("pre", "textarea", "script", "rt", "template")
    if name == "overlap-void":
        return ("pre", "textarea", "br")
    return DEFAULT_PRESERVE


def config_containers(name):
    """-> (kwargs for BeautifulSoup, expected {tag name: class name}) - expectation from the property statement.
    The overlap-* configurations put one name into BOTH builder tables (string_containers and preserve_whitespace_tags; the
    stock tables are disjoint), overlap-void also makes void elements (br, hr) string containers."""
    c = E()["cls"]
    if name == "default":
        return {}, dict(PROP_CONTAINERS)
    if name == "empty":
        return {"string_containers": {}}, {}
    if name == "b-sub":
        return {"string_containers": {"b": c["SubNS"]}}, {"b": "SubNS"}
    if name == "default+":
        d = dict(PROP_CONTAINERS) | {"b": "SubComment", "p": "Comment", "i": "CData"}
        return {"string_containers": {k: c[v] for k, v in d.items()}}, d
    if name == "script-plain":
        d = {"script": "NavigableString", "style": "Stylesheet", "span": "Doctype"}
        return {"string_containers": {k: c[v] for k, v in d.items()}}, d
    if name == "tagsub":
        return {"element_classes": {E()["el"].Tag: E()["tagsubs"]["TagCountingComments"]}}, dict(PROP_CONTAINERS)
    if name == "tagsub-only+b":
        return {"element_classes": {E()["el"].Tag: E()["tagsubs"]["TagOnlyComments"]}, "string_containers": {"b": c["SubNS"]}}, {"b": "SubNS"}
    if name == "soupsub":
        return {"element_classes": {E()["el"].Tag: E()["tagsubs"]["TagCountingComments"]}}, dict(PROP_CONTAINERS)
    if name == "overlap-pre":
        d = dict(PROP_CONTAINERS) | {"pre": "SubNS"}
        return {"string_containers": {k: c[v] for k, v in d.items()}}, d
    if name == "overlap-script":
        return {"preserve_whitespace_tags": set(config_preserve(name))}, dict(PROP_CONTAINERS)
    if name == "overlap-void":
        d = dict(PROP_CONTAINERS) | {"br": "SubNS", "hr": "SubScript", "pre": "Stylesheet"}
        return {"string_containers": {k: c[v] for k, v in d.items()}, "preserve_whitespace_tags": set(config_preserve(name))}, d
    raise KeyError(name)


def config_ctor(name):
    """the class the document is constructed with"""
    return E()["tagsubs"]["SoupCountingDoctypes"] if name == "soupsub" else E()["BeautifulSoup"]


def class_main(tag_or_class):
    """what the element's CLASS counts as main content: NavigableString + CData for stock Tag/BeautifulSoup (the property
    statement), the harness' own record for the harness' subclasses"""
    k = tag_or_class if isinstance(tag_or_class, type) else type(tag_or_class)
    return getattr(k, "_verif_main", PROP_MAIN)


def expected_interesting(sc: dict, name: str, main=PROP_MAIN):
    """property statement: the element's own special class when it is a string container, else what its class counts as main
    content (text + CDATA unless a Tag subclass says otherwise)"""
    if name in sc:
        return ("many", (sc[name],))
    return ("many", tuple(main))


def exp_for(tag, sc):
    return expected_interesting(sc, tag.name, class_main(tag))


# --------------------------------------------------------------------------------------
# markup generation (html.parser) with the expected class of every parsed string
# --------------------------------------------------------------------------------------
ORD_TAGS = ["div", "p", "b", "i", "span", "ruby", "section", "a", "pre"]


def rand_text(r, label, allow_empty=False, parsed=False):
    """mostly unique text with random (Unicode) whitespace around it; sometimes whitespace only / empty"""
    k = r.random()
    pool = [" ", "\n", "\t", "\xa0", "\u3000", "\u2028"] if parsed else WS
    def ws():
        return "".join(r.choice(pool) for _ in range(r.choice((0, 0, 1, 1, 2))))
    if allow_empty and k < 0.06:
        return ""
    if k < 0.16:
        return "".join(r.choice(pool) for _ in range(r.randint(1, 3)))
    core = f"s{label}"
    if k > 0.85:
        core += r.choice([" ", "\xa0", "-"]) + r.choice(["x", "\u00e9", "\u4e2d"] + ([] if parsed else NOT_WS + ["\U0001f600", "\ud800"]))
    if not parsed and k > 0.95:
        core = r.choice(NOT_WS) + core
    return ws() + core + ws()


def gen_markup(r, sc: dict, live_names):
    """-> markup, expected [(class name, stripped text)] in document order"""
    counter = [0]
    exp = []
    names = ORD_TAGS + list(PROP_CONTAINERS) + [n for n in live_names if n not in PROP_CONTAINERS] + list(VOID) + ["pre"]

    def text(container):
        counter[0] += 1
        t = rand_text(r, counter[0], parsed=True)
        exp.append((container or "NavigableString", t))
        return t

    def special():
        counter[0] += 1
        k = r.randrange(5)
        body = f"{r.choice(['', ' '])}k{counter[0]}{r.choice(['', ' '])}"
        if k == 0:
            exp.append(("Comment", body)); return f"<!--{body}-->"
        if k == 1:
            exp.append(("CData", body)); return f"<![CDATA[{body}]]>"
        if k == 2:
            exp.append(("ProcessingInstruction", f"pi{counter[0]} {body}?")); return f"<?pi{counter[0]} {body}?>"
        if k == 3:
            exp.append(("Doctype", f"d{counter[0]}")); return f"<!DOCTYPE d{counter[0]}>"
        exp.append(("Declaration", f"if {body.strip()}")); return f"<![if {body.strip()}]>"

    def items(depth, container, budget):
        out = []
        last_text = False
        n = r.choice((0, 1, 2, 2, 3, 4)) if depth else r.randint(3, 7)
        for _ in range(n):
            if budget[0] <= 0:
                break
            budget[0] -= 1
            k = r.random()
            if k < 0.30 and not last_text:
                out.append(text(container)); last_text = True
            elif k < 0.45:
                out.append(special()); last_text = False
            elif depth < 4:
                nm = r.choice(names)
                inner = sc.get(nm, container) if nm in sc else container
                if nm in VOID:
                    out.append(f"<{nm}>" if r.random() < 0.6 else f"<{nm}/>")
                    last_text = False
                    continue
                if nm in ("script", "style"):
                    # CDATA content model of html.parser: raw text only
                    body = ""
                    if r.random() < 0.8:
                        counter[0] += 1
                        body = rand_text(r, counter[0], parsed=True)
                        exp.append((inner or "NavigableString", body))
                    out.append(f"<{nm}>{body}</{nm}>")
                else:
                    out.append(f"<{nm}>{items(depth + 1, inner, budget)}</{nm}>")
                last_text = False
        return "".join(out)

    m = items(0, None, [r.randint(6, 30)])
    return m, exp


# --------------------------------------------------------------------------------------
# trees: build from a recipe (markup + config + replayable edit operations)
# --------------------------------------------------------------------------------------
def all_nodes(soup):
    """the forest by recursion over .contents (never the next_element chain)"""
    out = []

    def rec(n):
        out.append(n)
        if hasattr(n, "contents"):
            for k in n.contents:
                rec(k)
    rec(soup)
    return out


def is_tag(n):
    return isinstance(n, E()["el"].Tag)


def get_exp(tag):
    return tag.__dict__.get("_verif_exp")


def set_exp(tag, exp):
    tag.__dict__["_verif_exp"] = exp


def interesting_value(spec):
    """harness description -> Python value for tag.interesting_string_types"""
    c = E()["cls"]
    if spec is None:
        return None
    kind, names = spec[0], spec[1]
    if kind == "one":
        return c[names[0]]
    ctor = {"set": set, "tuple": tuple, "list": list, "frozenset": frozenset}[spec[2] if len(spec) > 2 else "set"]
    return ctor(c[n] for n in names)


def apply_op(soup, sc, op):
    """apply one replayable edit; node references are indices into all_nodes(soup). Returns False when skipped."""
    e = E()
    c = e["cls"]
    nodes = all_nodes(soup)
    kind = op[0]

    def node(i):
        return nodes[i] if 0 <= i < len(nodes) else None

    def mkstr(clsname, text, via):
        if via == "soup":
            return soup.new_string(text, c[clsname])
        return c[clsname](text)

    def mktag(name, via):
        if via == "bare":
            # no builder: interesting_string_types None -> what the tag's class counts as main content
            k = soup.element_classes.get(e["el"].Tag, e["el"].Tag) if getattr(soup, "element_classes", None) else e["el"].Tag
            t = k(name=name)
            set_exp(t, None if class_main(t) == PROP_MAIN else ("noneOf", class_main(t)))
        else:
            t = soup.new_tag(name)
            set_exp(t, exp_for(t, sc))
        return t

    def place(new, parent, pos, how):
        if not is_tag(parent):
            return False
        if how == "append":
            parent.append(new)
        else:
            parent.insert(min(pos, len(parent.contents)), new)
        return True

    if kind == "newstr":
        _, clsname, text, via, pi, pos, how = op
        return place(mkstr(clsname, text, via), node(pi), pos, how)
    if kind == "plain":
        _, text, pi = op
        p = node(pi)
        if not is_tag(p):
            return False
        p.append(text)
        return True
    if kind == "newtag":
        _, name, via, pi, pos, how = op
        return place(mktag(name, via), node(pi), pos, how)
    if kind == "move":
        _, ni, pi, pos = op
        n, p = node(ni), node(pi)
        if n is None or n is soup or not is_tag(p):
            return False
        q = p
        while q is not None:
            if q is n:
                return False
            q = q.parent
        n.extract()
        p.insert(min(pos, len(p.contents)), n)
        return True
    if kind == "extract":
        n = node(op[1])
        if n is None or n is soup:
            return False
        n.extract()
        return True
    if kind == "replace_str":
        _, ni, clsname, text = op
        n = node(ni)
        if n is None or n is soup or n.parent is None:
            return False
        n.replace_with(c[clsname](text))
        return True
    if kind == "replace_tag":
        _, ni, name = op
        n = node(ni)
        if n is None or n is soup or n.parent is None:
            return False
        n.replace_with(mktag(name, "soup"))
        return True
    if kind == "setstring":
        _, ti, clsname, text = op
        t = node(ti)
        if not is_tag(t):
            return False
        t.string = text if clsname is None else c[clsname](text)
        return True
    if kind == "sibling":
        _, ni, where, clsname, text = op
        n = node(ni)
        if n is None or n is soup or n.parent is None:
            return False
        s = c[clsname](text)
        (n.insert_before if where == "before" else n.insert_after)(s)
        return True
    if kind == "copy":
        _, ni, pi, pos = op
        n, p = node(ni), node(pi)
        if n is None or n is soup or not is_tag(p):
            return False
        cl = copy.copy(n)
        if is_tag(n):
            # the copy keeps the configuration of the original, element by element
            for a, b in zip(all_nodes(n), all_nodes(cl)):
                if is_tag(a):
                    set_exp(b, get_exp(a))
        p.insert(min(pos, len(p.contents)), cl)
        return True
    if kind == "interesting":
        _, ti, spec = op
        t = node(ti)
        if not is_tag(t):
            return False
        spec = None if spec is None else tuple(spec)
        t.interesting_string_types = interesting_value(spec)
        if spec is None:
            # None: _all_strings falls back to what the tag's CLASS counts as main content
            set_exp(t, None if class_main(t) == PROP_MAIN else ("noneOf", class_main(t)))
        else:
            set_exp(t, (spec[0], tuple(spec[1])))
        return True
    if kind == "wrap":
        _, ni, name = op
        n = node(ni)
        if n is None or n is soup or n.parent is None:
            return False
        n.wrap(mktag(name, "soup"))
        return True
    if kind == "unwrap":
        t = node(op[1])
        if not is_tag(t) or t is soup or t.parent is None:
            return False
        t.unwrap()
        return True
    if kind == "clear":
        t = node(op[1])
        if not is_tag(t):
            return False
        t.clear()
        return True
    if kind == "smooth":
        soup.smooth()
        return True
    if kind == "rename":
        t = node(op[1])
        if not is_tag(t) or t is soup:
            return False
        t.name = op[2]      # what the element counts as text was fixed when it was constructed: unchanged
        return True
    raise ValueError(f"unknown op {op!r}")


def gen_op(r, soup, label):
    e = E()
    nodes = all_nodes(soup)
    n = len(nodes)
    tags = [i for i, x in enumerate(nodes) if is_tag(x)]
    names = e["names"]
    tagnames = ORD_TAGS + list(PROP_CONTAINERS)
    k = r.random()
    ti = r.choice(tags)
    ni = r.randrange(n)
    pos = r.randint(0, 4)
    txt = rand_text(r, label, allow_empty=True)
    if k < 0.34:
        return ("newstr", r.choice(names), txt, r.choice(("direct", "direct", "soup")), ti, pos, r.choice(("append", "insert")))
    if k < 0.38:
        return ("plain", txt, ti)
    if k < 0.52:
        return ("newtag", r.choice(tagnames), r.choice(("soup", "soup", "bare")), ti, pos, r.choice(("append", "insert")))
    if k < 0.66:
        return ("move", ni, ti, pos)
    if k < 0.69:
        return ("extract", ni)
    if k < 0.74:
        return ("replace_str", ni, r.choice(names), txt)
    if k < 0.77:
        return ("replace_tag", ni, r.choice(tagnames))
    if k < 0.81:
        return ("setstring", ti, r.choice([None, None] + names), txt)
    if k < 0.86:
        return ("sibling", ni, r.choice(("before", "after")), r.choice(names), txt)
    if k < 0.91:
        return ("copy", ni, ti, pos)
    if k < 0.96:
        j = r.random()
        if j < 0.2:
            spec = None
        elif j < 0.4:
            spec = ("one", (r.choice(names),))
        else:
            spec = ("many", tuple(r.sample(names, r.randint(0, 3))), r.choice(("set", "tuple", "list", "frozenset")))
        return ("interesting", ti, spec)
    if k < 0.975:
        return ("wrap", ni, r.choice(tagnames))
    if k < 0.99:
        return ("unwrap", ti)
    if k < 0.992:
        return ("clear", ti)
    if k < 0.997:
        return ("rename", ti, r.choice(tagnames))
    return ("smooth",)


BUILDER_OPTIONS = ("string_containers", "preserve_whitespace_tags")


def make_soup(recipe, kwargs, markup=None):
    """construct the document: through the feature string, or — recipe["builder"] = {"kind": retry|bool|len0|lencount,
    "retry": [[cut, mech], …]} — through a builder OBJECT of the harness (extra refused candidates, falsy truth value)"""
    e = E()
    ctor = config_ctor(recipe["config"])
    markup = recipe["markup"] if markup is None else markup
    b = recipe.get("builder")
    if not b:
        return ctor(markup, "html.parser", **kwargs)
    bopts = {k: v for k, v in kwargs.items() if k in BUILDER_OPTIONS}
    rest = {k: v for k, v in kwargs.items() if k not in BUILDER_OPTIONS}
    builder = e["builders"][b["kind"]](retry=b.get("retry", ()), **bopts)
    for _ in range(b.get("warm_docs", 0)):      # a reusable builder that has already built documents
        ctor("<p>earlier</p>", builder=builder, **rest)
    soup = ctor(markup, builder=builder, **rest)
    if builder.accepted_text != markup:
        raise PoisonedAccepted()
    return soup


class PoisonedAccepted(Exception):
    """the parser did not refuse a candidate the harness meant to be refused (e.g. the cut fell inside <script> text): the tree
    is not the document's; the case is skipped, not judged"""


def after_parse_failures(soup, sc):
    """once a document has been built, plain new strings are plain again (nothing of the parse — not even of refused
    attempts — is remembered): soup.new_string() gives a NavigableString"""
    c = E()["cls"]
    got = type(soup.new_string("x"))
    return [] if got is c["NavigableString"] else [("new_string", got.__name__, "NavigableString")]


def build(recipe):
    """recipe -> soup with the expected interesting types recorded on every tag"""
    e = E()
    kwargs, sc = config_containers(recipe["config"])
    soup = make_soup(recipe, kwargs)
    for t in all_nodes(soup):
        if is_tag(t):
            set_exp(t, exp_for(t, sc))
    warm = recipe.get("warm")
    for i, op in enumerate(recipe.get("ops", [])):
        if warm is not None and i == warm:
            warm_up(soup)
        apply_op(soup, sc, tuple(op))
    post = recipe.get("post")
    if post:
        soup = apply_post(soup, post, sc)
    return soup, sc


def copied_soup_config_failures(cl, sc):
    """a copy of a BeautifulSoup object shares its builder: new_tag() on the copy follows the same string_containers"""
    c = E()["cls"]
    bad = []
    for nm in sorted(set(list(sc) + list(PROP_CONTAINERS) + ["p", "b"])):
        t = cl.new_tag(nm)
        got = int_tok_of_value(t.interesting_string_types)
        want = int_tok_of_value({c[n] for n in exp_for(t, sc)[1]})
        if got != want:
            bad.append((nm, got, want))
    return bad


TREE_EDITS = ["extract", "decompose", "replace_str", "replace_plain", "replace_comment", "replace_tag", "wrap", "insert_after",
              "insert_before", "insert_after_tag", "nothing"]


def node_at(soup, path):
    n = soup
    for i in path:
        n = n.contents[i]
    return n


def tree_iter_run(soup, path, tspec, edits):
    """for s in el.strings / el._all_strings(False, types): <edit s> -> (texts handed out, texts demanded, ok by identity).
    Demanded: exactly the interesting strings that were beneath the element when the iteration started, in document order —
    the edits only touch the string just handed out (and add new nodes next to it), so none is removed before it is reached."""
    e = E()
    c = e["cls"]
    el_ = node_at(soup, path)
    root = el_
    while root.parent is not None:
        root = root.parent
    maker = root if hasattr(root, "new_tag") else e["BeautifulSoup"]("", "html.parser")
    sel = o_selector(el_, norm_tspec(tspec))
    want = [x for x in o_strings_below(el_) if sel(type(x))]
    want_txt = [str.__str__(x) for x in want]
    kw = {} if tspec[0] == "d" else {"types": e["el"].PageElement.default if tspec[0] == "D" else types_value(tspec)}
    it = el_.strings if tspec[0] == "d" else el_._all_strings(False, **kw)
    got, got_txt = [], []
    k = 0
    try:
        for x in it:
            got.append(x)
            got_txt.append(str.__str__(x))
            ed = edits[k % len(edits)]
            k += 1
            if k > 500:
                got_txt.append("<unbounded>")
                break
            if x.parent is None:
                continue
            if ed == "extract":
                x.extract()
            elif ed == "decompose":
                x.decompose()
            elif ed == "replace_str":
                x.replace_with(c["NavigableString"](f"new{k}"))
            elif ed == "replace_plain":
                x.replace_with(f"plain{k}")
            elif ed == "replace_comment":
                x.replace_with(c["Comment"](f"newc{k}"))
            elif ed == "replace_tag":
                t = maker.new_tag("b")
                t.string = f"inb{k}"
                x.replace_with(t)
            elif ed == "wrap":
                x.wrap(maker.new_tag("i"))
            elif ed == "insert_after":
                x.insert_after(c["NavigableString"](f"after{k}"))
            elif ed == "insert_before":
                x.insert_before(c["NavigableString"](f"before{k}"))
            elif ed == "insert_after_tag":
                t = maker.new_tag("b")
                t.string = f"inb{k}"
                x.insert_after(t)
    except RecursionError:
        raise
    except Exception as ex:   # the iteration itself raised after an edit
        got_txt.append(f"<raised {type(ex).__name__}>")
    ok = len(got) == len(want) and all(a is b for a, b in zip(got, want)) and len(got_txt) == len(got)
    return got_txt, want_txt, ok


def warm_up(soup):
    """every observable on every node BEFORE further edits: whatever an implementation remembers from these calls must not
    show in the answers after the edits"""
    for n in all_nodes(soup):
        try:
            n.text, list(n.strings), list(n.stripped_strings), n.string
            n.get_text("|"), n.get_text("|", True), n.get_text("", False, None), n.get_text(" ", True, None)
        except Exception:
            pass


def apply_post(soup, post, sc):
    """a copy of the whole document or of one element becomes the tree under test; the copy must keep the configuration
    (interesting_string_types of every tag, class of every string) of the original, element by element"""
    kind = post[0]
    if kind == "pickle":
        # __getstate__ stores the rendered markup and (html.parser: picklable) the builder WITH its configuration; __setstate__
        # parses the markup again with it: the result is a freshly parsed document under the same configuration
        import pickle
        cl = pickle.loads(pickle.dumps(soup, post[1] if len(post) > 1 else pickle.DEFAULT_PROTOCOL))
        for t in all_nodes(cl):
            if is_tag(t):
                set_exp(t, exp_for(t, sc))
        return cl
    if kind == "copy_soup":
        cl = copy.copy(soup)
        src = soup
    elif kind == "deepcopy_soup":
        cl = copy.deepcopy(soup)
        src = soup
    else:
        src = soup
        for i in post[1]:
            src = src.contents[i]
        cl = copy.deepcopy(src) if kind == "deepcopy" else copy.copy(src)
    for a, b in zip(all_nodes(src), all_nodes(cl)):
        if is_tag(a):
            set_exp(b, get_exp(a))
    if kind in ("copy_soup", "deepcopy_soup"):
        # BeautifulSoup.copy_self() makes a new BeautifulSoup object from the same builder: the root's own
        # interesting_string_types is the builder's again (a value set by hand on the original root is not carried over)
        set_exp(cl, exp_for(cl, sc))
    return cl


# --------------------------------------------------------------------------------------
# the oracle: recursive evaluator over .contents
# --------------------------------------------------------------------------------------
def o_isspace_strip(s: str) -> str:
    i, j = 0, len(s)
    while i < j and s[i].isspace():
        i += 1
    while j > i and s[j - 1].isspace():
        j -= 1
    return str.__str__(s)[i:j]


def o_selector(receiver, tspec):
    """tspec: ('d',) default | ('n',) None | ('one', cls) | ('many', kind, [classes]) -> predicate on a class"""
    c = E()["cls"]
    if tspec[0] == "n":
        return lambda k: True
    if tspec[0] == "one":
        return lambda k: k is tspec[1]
    if tspec[0] == "many":
        sel = list(tspec[2])
        return lambda k: any(k is x for x in sel)
    # default
    if is_tag(receiver):
        exp = get_exp(receiver)
        if exp is None:
            sel = [c[n] for n in PROP_MAIN]
        else:
            sel = [c[n] for n in exp[1]]
        return lambda k: any(k is x for x in sel)
    sel = [c[n] for n in PROP_MAIN]
    return lambda k: any(k is x for x in sel)


def o_strings_below(tag):
    NS = E()["el"].NavigableString
    for k in tag.contents:
        if isinstance(k, NS):
            yield k
        else:
            yield from o_strings_below(k)


def o_all_strings(receiver, strip, tspec):
    """-> list of (source node, yielded text)"""
    sel = o_selector(receiver, tspec)
    out = []
    if is_tag(receiver):
        for s in o_strings_below(receiver):
            if not sel(type(s)):
                continue
            if strip:
                t = o_isspace_strip(s)
                if t:
                    out.append((s, t))
            else:
                out.append((s, s))
    else:
        if sel(type(receiver)):
            t = o_isspace_strip(receiver) if strip else receiver
            if len(t) > 0:  # quirk of the string branch: an empty result yields nothing, strip or not
                out.append((receiver, t))
    return out


def o_string(receiver):
    n = receiver
    while is_tag(n):
        if len(n.contents) != 1:
            return None
        n = n.contents[0]
    return n


# --------------------------------------------------------------------------------------
# queries
# --------------------------------------------------------------------------------------
def types_value(tspec):
    e = E()
    if tspec[0] == "n":
        return None
    if tspec[0] == "one":
        return tspec[1]
    if tspec[0] == "iter":
        return iter(list(tspec[2])) if tspec[1] == "iter" else (x for x in list(tspec[2]))
    ctor = {"set": set, "tuple": tuple, "list": list, "frozenset": frozenset, "dict": dict.fromkeys}[tspec[1]]
    return ctor(tspec[2])


def types_tok(tspec):
    if tspec[0] == "iter":
        return "i" + (".".join(str(cls_code(k)) for k in tspec[2]) if tspec[2] else "-")
    if tspec[0] in ("d", "D"):
        return "d"
    if tspec[0] == "n":
        return "n"
    if tspec[0] == "one":
        return f"o{cls_code(tspec[1])}"
    if not tspec[2]:
        return "m-"
    return "m" + ".".join(str(cls_code(k)) for k in tspec[2])


def types_desc(tspec):
    if tspec[0] == "iter":
        return ["iter", tspec[1], [k.__name__ for k in tspec[2]]]
    if tspec[0] == "one":
        return ["one", tspec[1].__name__]
    if tspec[0] == "many":
        return ["many", tspec[1], [k.__name__ for k in tspec[2]]]
    return [tspec[0]]


def types_from_desc(d):
    c = E()["cls"]
    look = lambda n: c.get(n, E()["el"].Tag)
    if d[0] == "one":
        return ("one", look(d[1]))
    if d[0] in ("many", "iter"):
        return (d[0], d[1], [look(n) for n in d[2]])
    return (d[0],)


def norm_tspec(tspec):
    """`types=()` IS `PageElement.default` (CPython's empty tuple is a singleton): treat as default"""
    if tspec[0] == "many" and tspec[1] == "tuple" and not tspec[2]:
        return ("d",)
    if tspec[0] == "D":
        return ("d",)
    return tspec


STRIPS = [False, True, False, True, 0, 1, None, "", "x", 2, -1]


def strip_tok(v) -> str:
    if v is True:
        return "1"
    if v is False:
        return "0"
    if v is None:
        return "n"
    if isinstance(v, int):
        return f"i{v}"
    return "s" + arg_tok(v)


def o_iter_strings(receiver, strip, classes):
    """one-shot iterator as `types` (recorded behaviour, not the documented tuple): `in` consumes the iterator"""
    left = list(classes)

    def isin(k):
        while left:
            x = left.pop(0)
            if x is k:
                return True
        return False
    out = []
    if is_tag(receiver):
        for s in o_strings_below(receiver):
            if not isin(type(s)):
                continue
            if strip:
                t = o_isspace_strip(s)
                if t:
                    out.append((s, t))
            else:
                out.append((s, s))
    elif isin(type(receiver)):
        t = o_isspace_strip(receiver) if strip else receiver
        if len(t) > 0:
            out.append((receiver, t))
    return out


def rand_tspec(r, present):
    e = E()
    allc = [e["cls"][n] for n in e["names"]]
    k = r.random()
    pick = (lambda: r.choice(present)) if present and r.random() < 0.7 else (lambda: r.choice(allc))
    if k < 0.2:
        return ("d",)
    if k < 0.25:
        return ("D",)
    if k < 0.35:
        return ("n",)
    if k < 0.6:
        return ("one", pick())
    kind = r.choice(("tuple", "tuple", "list", "set", "frozenset", "dict"))
    m = r.choice((0, 1, 2, 2, 3, 4))
    cl = [pick() for _ in range(m)]
    if k > 0.93:
        return ("iter", r.choice(("iter", "gen")), cl)
    if r.random() < 0.05:
        cl.append(e["el"].Tag)
    if kind in ("set", "frozenset", "dict"):
        cl = list(dict.fromkeys(cl))
    return ("many", kind, cl)


class IterAsTuple(Exception):
    """a one-shot iterator passed as `types` was honoured like a tuple: the documented meaning, not today's behaviour
    (which consumes the iterator) — either is accepted; such a query is not compared with the model"""


def run_query(receiver, q):
    """-> (canonical reply of the real code, canonical reply of the oracle, identity_ok)"""
    e = E()
    op = q[0]
    ident = True
    if op == "ST":
        got = list(receiver.strings)
        want = o_all_strings(receiver, False, ("d",))
        ident = len(got) == len(want) and all(a is b[0] for a, b in zip(got, want))
        return show_pieces(got), show_pieces([w[1] for w in want]), ident
    if op == "SS":
        got = list(receiver.stripped_strings)
        want = o_all_strings(receiver, True, ("d",))
        return show_pieces(got), show_pieces([w[1] for w in want]), True
    if op == "TX":
        got = receiver.text
        want = "".join(str.__str__(w[1]) for w in o_all_strings(receiver, False, ("d",)))
        return ptok(got), ptok(want), True
    if op == "SP":
        got = receiver.string
        want = o_string(receiver)
        ident = got is want
        f = lambda s: "none" if s is None else f"{cls_code(type(s))}:{ptok(str.__str__(s))}"
        return f(got), f(want), ident
    if op == "A":
        _, strip, tspec = q
        kw = {}
        if tspec[0] == "D":
            kw["types"] = e["el"].PageElement.default
        elif tspec[0] != "d":
            kw["types"] = types_value(tspec)
        got = list(receiver._all_strings(strip, **kw))
        if tspec[0] == "iter":
            want = o_iter_strings(receiver, bool(strip), tspec[2])
            alt = o_all_strings(receiver, bool(strip), ("many", "tuple", tspec[2]))
            if show_pieces(got) != show_pieces([w[1] for w in want]) and show_pieces(got) == show_pieces([w[1] for w in alt]):
                raise IterAsTuple()
        else:
            want = o_all_strings(receiver, bool(strip), norm_tspec(tspec))
        if not strip:
            ident = len(got) == len(want) and all(a is b[0] for a, b in zip(got, want))
        return show_pieces(got), show_pieces([w[1] for w in want]), ident
    if op == "G":
        _, strip, tspec, sep, style = q
        kw = {}
        if tspec[0] == "D":
            kw["types"] = e["el"].PageElement.default
        elif tspec[0] != "d":
            kw["types"] = types_value(tspec)
        if style == "kw":
            got = receiver.get_text(separator=sep, strip=strip, **kw)
        elif style == "alias":
            got = receiver.getText(sep, strip, **kw)
        else:
            got = receiver.get_text(sep, strip, **kw)
        if tspec[0] == "iter":
            pieces_ = o_iter_strings(receiver, bool(strip), tspec[2])
            alt = sep.join(str.__str__(w[1]) for w in o_all_strings(receiver, bool(strip), ("many", "tuple", tspec[2])))
            if got != sep.join(str.__str__(w[1]) for w in pieces_) and got == alt:
                raise IterAsTuple()
        else:
            pieces_ = o_all_strings(receiver, bool(strip), norm_tspec(tspec))
        want = sep.join(str.__str__(w[1]) for w in pieces_)
        return ptok(got), ptok(want), True
    raise ValueError(q)


def query_tok(path, q):
    p = "r" if not path else ".".join(map(str, path))
    op = q[0]
    if op in ("ST", "SS", "TX", "SP"):
        return f"{p}/{op}"
    if op == "A":
        return f"{p}/A/{strip_tok(q[1])}/{types_tok(norm_tspec(q[2]))}"
    return f"{p}/G/{strip_tok(q[1])}/{types_tok(norm_tspec(q[2]))}/{arg_tok(q[3])}"


def query_desc(q):
    if q[0] == "A":
        return ["A", q[1], types_desc(q[2])]
    if q[0] == "G":
        return ["G", q[1], types_desc(q[2]), q[3], q[4]]
    return [q[0]]


def query_from_desc(d):
    if d[0] == "A":
        return ("A", d[1], types_from_desc(d[2]))
    if d[0] == "G":
        return ("G", d[1], types_from_desc(d[2]), d[3], d[4])
    return (d[0],)


def interesting_tok(exp):
    e = E()
    if exp is None:
        return "N"
    codes = [str(cls_code(e["cls"][n])) for n in exp[1]]
    if exp[0] == "noneOf":
        return "n" + (".".join(codes) if codes else "-")
    if exp[0] == "one":
        return "o" + codes[0]
    return "m" + (".".join(codes) if codes else "-")


def tree_tokens(soup):
    e = E()
    out = []

    def rec(n):
        if is_tag(n):
            out.append(f"T {arg_tok(n.name)} {interesting_tok(get_exp(n))} {len(n.contents)}")
            for k in n.contents:
                rec(k)
        else:
            out.append(f"S {cls_code(type(n))} {arg_tok(str.__str__(n))}")
    rec(soup)
    return " ".join(out)


def paths(soup):
    out = []

    def rec(n, p):
        out.append((n, p))
        if is_tag(n):
            for i, k in enumerate(n.contents):
                rec(k, p + (i,))
    rec(soup, ())
    return out


def parent_kind(tag, sc):
    if tag.name == "[document]":
        return "root"
    exp = get_exp(tag)
    if exp is None:
        return "bare"
    if exp[0] == "noneOf":
        return "bare"
    if exp == exp_for(tag, sc):
        return "container" if tag.name in sc else "ordinary"
    return "custom"


# --------------------------------------------------------------------------------------
# checking one tree
# --------------------------------------------------------------------------------------
class Batch:
    def __init__(self, ctx):
        self.ctx = ctx
        self.lines = []      # protocol lines (without the op)
        self.meta = []       # per line: (recipe, [(path, qdesc, real, stream)])
        self.reported = 0

    def flush(self):
        if not self.lines:
            return
        ctx = self.ctx
        drv = Driver()
        for mode in ("run", "spec"):
            rep = drv.ask([f"c13 {mode} {l}" for l in self.lines])
            for (recipe, qs), ans in zip(self.meta, rep):
                parts = ans.split(" | ") if qs else []
                if len(parts) != len(qs):
                    parts = [ans] * len(qs)
                for (path, qd, real, want, stream), a in zip(qs, parts):
                    if a != real:
                        ctx.corr_disagreements += 1
                        ctx.count(f"{stream}:model-{mode}-disagrees")
                        if self.reported < 8:
                            self.reported += 1
                            already = any(v["case"].get("recipe") == recipe and v["case"].get("path") == list(path)
                                          and v["case"].get("query") == qd and not v.get("no_failing_input_found") for v in ctx.violations)
                            if not already:
                                ctx.violation(f"Lean {'code-mirror' if mode == 'run' else 'evaluator'} and implementation disagree",
                                              case={"op": "query", "recipe": recipe, "path": list(path), "query": qd},
                                              observed=real, expected=want, model=a, stream=stream + "-correspondence",
                                              no_failing_input=(real == want), kf=classify(recipe, qd) if real != want else None)
        self.lines, self.meta = [], []


def check_tree(ctx, batch, recipe, soup, sc, stream, plan, tree_id):
    """plan(receiver, present_classes) -> list of queries. Runs real + oracle now, queues the model questions."""
    e = E()
    NS = e["el"].NavigableString
    pl = paths(soup)
    qs = []
    qtoks = []
    for ri, (n, path) in enumerate(pl):
        if is_tag(n):
            below = list(o_strings_below(n))
            present = list(dict.fromkeys(type(s) for s in below))
            kind = "tag-" + parent_kind(n, sc)
        else:
            below = [n]
            present = [type(n)]
            kind = "str"
            p = n.parent
            ctx.count(f"pos:{type(n).__name__}-under-{parent_kind(p, sc) if p is not None else 'none'}")
        ctx.count("receiver:" + kind)
        nontrivial = False
        for q in plan(n, present):
            try:
                real, want, ident = run_query(n, q)
            except IterAsTuple:
                ctx.count("iter-types:honoured-like-a-tuple")
                continue
            except RecursionError:
                raise
            except Exception as ex:  # the real code (or the oracle) raised: report as a violation of the property
                real, want, ident = f"raised {type(ex).__name__}: {ex}", "<no exception>", True
            qd = query_desc(q)
            ctx.count("q:" + q[0])
            if q[0] in ("A", "G"):
                ctx.count("types:" + (q[2][0] if q[2][0] != "many" else "many-" + q[2][1] + ("-empty" if not q[2][2] else "")))
                ctx.count(f"strip:{q[1]!r}")
            if q[0] == "SP":
                ctx.count("string:" + ("none" if real == "none" else ("self" if not is_tag(n) else "found")))
                nt = is_tag(n) and real != "none" and bool(n.contents) and is_tag(n.contents[0])
            else:
                sel = o_selector(n, (("many", "list", q[2][2]) if q[2][0] == "iter" else norm_tspec(q[2])) if q[0] in ("A", "G") else ("d",))
                inc = sum(1 for s in below if sel(type(s)))
                nt = is_tag(n) and inc >= 1 and inc < len(below)
                ctx.count("result:" + ("empty" if inc == 0 else "all" if inc == len(below) else "some"))
            nontrivial = nontrivial or nt
            sample = None
            if nt and stream == "random-trees" and len(ctx.samples) < 10 and q[0] == "G" and len(below) >= 4:
                sample = {"markup": recipe["markup"], "ops": len(recipe.get("ops", [])), "receiver": getattr(n, "name", None),
                          "query": qd, "result": real}
            ctx.case(None, sample)
            if real != want or not ident:
                ctx.count(f"{stream}:oracle-differs")
                if sum(1 for v in ctx.violations if v["stream"] == stream) < 6:
                    ctx.violation("text extraction differs from the recursive evaluator" if real != want else
                                  "the yielded object is not the string node of the tree (identity)",
                                  case={"op": "query", "recipe": recipe, "path": list(path), "query": qd},
                                  expected=want, observed=real, stream=stream, kf=classify(recipe, qd))
            qs.append((path, qd, real, want, stream))
            qtoks.append(query_tok(path, q))
        if nontrivial:
            ctx.nontrivial.add(tree_id * 4096 + ri)
    batch.lines.append(f"{len(qtoks)} {' '.join(qtoks)} {tree_tokens(soup)}")
    batch.meta.append((recipe, qs))
    if len(batch.lines) >= 400:
        batch.flush()


FALSY_WHEN_PICKLED = ("bool", "len0")   # lencount has built a document by then: truthy


def classify(recipe, qd=None):
    """known-finding classifier, from the case itself.
    C13-unpickle-falsy-builder: the document was built with a builder OBJECT that is falsy at pickling time and the tree under
    test is the result of a pickle round trip (__setstate__ swaps a falsy builder for a default one)."""
    b = (recipe or {}).get("builder")
    post = (recipe or {}).get("post")
    if b and b.get("kind") in FALSY_WHEN_PICKLED and post and post[0] == "pickle":
        return "C13-unpickle-falsy-builder"
    return None


def random_plan(r, quick_k):
    def plan(n, present):
        qs = [("ST",), ("SS",), ("TX",), ("SP",)]
        for _ in range(quick_k):
            qs.append(("G", r.choice(STRIPS), rand_tspec(r, present), r.choice(SEPS), r.choice(("pos", "pos", "kw", "alias"))))
        for _ in range(2):
            qs.append(("A", r.choice(STRIPS), rand_tspec(r, present)))
        return qs
    return plan


# --------------------------------------------------------------------------------------
# streams
# --------------------------------------------------------------------------------------
def check_parse_classes(ctx, recipe, soup, exp):
    """'the contents of script/style/template [are special strings]': every parsed string has the class the property
    demands \u2014 that of the innermost enclosing string-container element, else NavigableString; builder-classified data keeps
    its class."""
    NS = E()["el"].NavigableString
    got = [(type(s).__name__, o_isspace_strip(s)) for s in all_nodes(soup) if isinstance(s, NS)]
    want = [(c, o_isspace_strip(t)) for c, t in exp]
    ctx.case(None)
    ctx.count("parse-classes:docs")
    if got != want:
        ctx.count("parse-classes:differs")
        if sum(1 for v in ctx.violations if v["stream"] == "parse-classes") < 4:
            ctx.violation("a parsed string does not get the class of its innermost string-container element",
                          case={"op": "parse-classes", "recipe": recipe, "expected_classes": want},
                          expected=want, observed=got, stream="parse-classes")
        return False
    return True


def ancestor_rule_failures(soup, sc):
    """For a freshly parsed tree (any markup, malformed included): a string whose class is NavigableString or a container
    class must have the class of its nearest ancestor that is a string container, else NavigableString."""
    e = E()
    c = e["cls"]
    NS = e["el"].NavigableString
    free = {c["NavigableString"]} | {c[v] for v in sc.values()}
    bad = []
    for n, path in paths(soup):
        if isinstance(n, NS) and type(n) in free:
            a = n.parent
            while a is not None and a.name not in sc:
                a = a.parent
            want = sc[a.name] if a is not None else "NavigableString"
            if type(n) is not c[want]:
                bad.append((list(path), type(n).__name__, want))
    return bad


RULE_CONFIGS = ("default", "empty", "b-sub", "overlap-pre", "overlap-script", "overlap-void", "tagsub", "tagsub-only+b", "soupsub")  # container classes disjoint from the classes the builder assigns itself


def check_ancestor_rule(ctx, recipe, soup, sc, stream):
    if recipe["config"] not in RULE_CONFIGS:
        return
    ctx.case(None)
    ctx.count("ancestor-rule:docs")
    bad = ancestor_rule_failures(soup, sc)
    if bad:
        ctx.count("ancestor-rule:differs")
        if sum(1 for v in ctx.violations if v["stream"] == stream + "-ancestor-rule") < 4:
            ctx.violation("a parsed string does not have the class of its nearest string-container ancestor",
                          case={"op": "ancestor-rule", "recipe": recipe}, expected=[b[2] for b in bad],
                          observed=[b[:2] for b in bad], stream=stream + "-ancestor-rule", kf=classify(recipe))


MAL_TOKENS = ["<pre>", "</pre>", "<pre>", "</pre>", "<br>", "<br/>", "<hr>", "<p>", "</p>", "<b>", "</b>", "<i a='1'>", "</i>", "<script>", "</script>", "<style>", "</style>", "<template>",
              "</template>", "<rt>", "</rt>", "<rp>", "</rp>", "<ruby>", "</ruby>", "<!--", "-->", "<![CDATA[", "]]>",
              "<!DOCTYPE x>", "<?pi", "?>", ">", "<", "&amp;", "&#x41;", "&lt;", "<p", "</", "<![if x]>", "<![endif]>", " ", "\n",
              "t", "u ", " \xa0", "<div>", "</div>", "<textarea>", "</textarea>", "<SCRIPT>", "</Script >", "<b/>", "<script/>"]


def stream_malformed(ctx, batch, n_docs):
    e = E()
    skipped = 0
    for di in range(n_docs):
        r = ctx.rng("malformed", di)
        cfg = r.choice(RULE_CONFIGS + ("default", "default+"))
        markup = "".join(r.choice(MAL_TOKENS) + (str(k) if r.random() < 0.4 else "") for k in range(r.randint(2, 18)))
        recipe = {"markup": markup, "config": cfg, "ops": []}
        try:
            soup, sc = build(recipe)
        except RecursionError:
            raise
        except Exception as ex:
            # the parser refusing the document is C06's business, not a text-extraction outcome
            ctx.count("malformed:rejected-" + type(ex).__name__)
            skipped += 1
            continue
        ctx.count("malformed:docs")
        check_ancestor_rule(ctx, recipe, soup, sc, "malformed")
        nops = r.choice((0, 0, 2, 5))
        for k in range(nops):
            op = gen_op(r, soup, 5000 + k)
            if apply_op(soup, sc, op):
                recipe["ops"].append(list(op))
        if len(all_nodes(soup)) > 120:
            continue
        check_tree(ctx, batch, recipe, soup, sc, "malformed", random_plan(r, 2), 3_000_000 + di)


def rand_builder_flavour(r, markup, sc):
    """a builder object instead of the feature string: falsy ones, and ones that offer refused candidates first — cut where a
    string container (or any element) is open"""
    kind = r.choice(("retry", "retry", "bool", "len0", "lencount", "lencount"))
    b = {"kind": kind}
    if kind == "lencount" and r.random() < 0.4:
        b["warm_docs"] = r.choice((1, 2))
    if markup and (kind == "retry" or r.random() < 0.4):
        cuts = []
        opens = [m.end() for nm in sc for m in __import__("re").finditer(f"<{nm}>", markup)]
        for _ in range(r.choice((1, 1, 2, 3))):
            if opens and r.random() < 0.7:
                cut = r.choice(opens)
                cut = min(len(markup), cut + r.choice((0, 0, 1, 3)))
            else:
                cut = r.randrange(len(markup) + 1)
            cuts.append([cut, r.choice(("feed", "feed", "marked"))])
        b["retry"] = cuts
    return b


def stream_random(ctx, batch, n_trees):
    e = E()
    live_names = list(e["live_containers"])
    for ti in range(n_trees):
        r = ctx.rng("tree", ti)
        cfg = r.choice(CONFIGS)
        kwargs, sc = config_containers(cfg)
        style = r.random()
        if style < 0.15:
            markup, exp = "", []
        else:
            markup, exp = gen_markup(r, sc, live_names)
        recipe = {"markup": markup, "config": cfg, "ops": []}
        if r.random() < 0.3:
            recipe["builder"] = rand_builder_flavour(r, markup, sc)
        try:
            soup, sc = build(recipe)
        except PoisonedAccepted:
            ctx.count("builder:poisoned-candidate-not-refused")
            del recipe["builder"]
            soup, sc = build(recipe)
        ctx.count("tree:config-" + cfg)
        if "builder" in recipe:
            ctx.count("builder:" + recipe["builder"]["kind"] + ("+retry" if recipe["builder"].get("retry") else ""))
            for _cut, mech in recipe["builder"].get("retry", ()):
                ctx.count("builder:refused-by-" + mech)
            bad = after_parse_failures(soup, sc)
            ctx.case(None)
            if bad and sum(1 for v in ctx.violations if v["stream"] == "after-parse") < 4:
                ctx.violation("after the document was built, soup.new_string() does not make a plain NavigableString (something of the "
                              "parse, or of a refused attempt, is still open)", case={"op": "after-parse", "recipe": dict(recipe)},
                              expected="NavigableString", observed=bad[0][1], stream="after-parse")
        if markup:
            check_parse_classes(ctx, dict(recipe), soup, exp)
            check_ancestor_rule(ctx, dict(recipe), soup, sc, "random-trees")
        nops = 0 if (markup and style < 0.45) else r.choice((1, 2, 3, 5, 8, 12))
        if not markup:
            nops = r.choice((4, 8, 12, 16))
        for k in range(nops):
            op = gen_op(r, soup, 1000 + k)
            if apply_op(soup, sc, op):
                recipe["ops"].append(list(op))
                ctx.count("edit:" + op[0])
        ctx.count("tree:" + ("parsed" if not recipe["ops"] else "parsed+edited" if markup else "api-built"))
        if len(all_nodes(soup)) > 120:
            ctx.count("tree:skipped-large")
            continue
        check_tree(ctx, batch, recipe, soup, sc, "random-trees", random_plan(r, 4), ti)
        if r.random() < 0.3:
            # ask, edit, ask again: the answers after the edits must not remember the answers before them
            recipe3 = dict(recipe, ops=list(recipe["ops"]), warm=len(recipe["ops"]))
            soup3, sc3 = build(dict(recipe3, warm=None))
            warm_up(soup3)
            for k in range(r.choice((1, 2, 3))):
                op = gen_op(r, soup3, 3000 + k)
                if apply_op(soup3, sc3, op):
                    recipe3["ops"].append(list(op))
            if len(recipe3["ops"]) > recipe3["warm"] and len(all_nodes(soup3)) <= 120:
                ctx.count("tree:asked-edited-asked")
                check_tree(ctx, batch, recipe3, soup3, sc3, "ask-edit-ask", random_plan(r, 2), 7_000_000 + ti)
        if r.random() < 0.35:
            cands = [p for n, p in paths(soup) if is_tag(n) and sum(1 for _ in o_strings_below(n)) >= 2]
            if cands:
                target = r.choice(cands)
                below = [x for x in o_strings_below(node_at(soup, target))]
                tspec = r.choice([("d",), ("d",), ("n",), rand_tspec_noiter(r, list(dict.fromkeys(type(x) for x in below)))])
                edits = [r.choice(TREE_EDITS) for _ in range(r.randint(1, 4))]
                recipe4 = dict(recipe, iter={"path": list(target), "types": types_desc(tspec), "edits": edits})
                soup4, sc4 = build(recipe)
                got, want, ok = tree_iter_run(soup4, target, tspec, edits)
                ctx.case(("TITER", ti))
                ctx.count("tree-iter:runs")
                for ed in edits:
                    ctx.count("tree-iter:edit-" + ed)
                if not ok and sum(1 for v in ctx.violations if v["stream"] == "tree-iter") < 6:
                    ctx.violation("iterating the strings of an element while editing each string as it is handed out does not yield exactly "
                                  "the interesting strings that were beneath the element, in document order", case={"op": "tree-iter", "recipe": recipe4},
                                  expected=want, observed=got, stream="tree-iter")
        if r.random() < 0.2:
            tags = [p for n, p in paths(soup) if is_tag(n) and p]
            k = r.random()
            post = ["pickle", r.choice((2, 4, 5))] if k < 0.3 else ["copy_soup"] if k < 0.45 else ["deepcopy_soup"] if k < 0.55 else \
                ([r.choice(("deepcopy", "copy")), list(r.choice(tags))] if tags else ["copy_soup"])
            recipe2 = dict(recipe, post=post)
            try:
                cl = apply_post(soup, post, sc)
            except RecursionError:
                raise
            except Exception as ex:
                if post[0] != "pickle":
                    raise
                # a document that cannot be pickled / re-parsed at all is not a text-extraction outcome (C05/C11/C06)
                ctx.count("pickle:failed-" + type(ex).__name__)
                continue
            ctx.count("tree:copy-" + post[0])
            if len(all_nodes(cl)) > 150:
                continue
            check_tree(ctx, batch, recipe2, cl, sc, "copies", random_plan(r, 2), 6_000_000 + ti)
            if post[0] == "pickle":
                check_ancestor_rule(ctx, recipe2, cl, sc, "pickle")
            if post[0] in ("copy_soup", "deepcopy_soup", "pickle"):
                bad = copied_soup_config_failures(cl, sc)
                ctx.case(None)
                if bad and sum(1 for v in ctx.violations if v["stream"] == "copies-config") < 4:
                    ctx.violation("a copied BeautifulSoup object does not keep the string_containers configuration (new_tag on the copy)",
                                  case={"op": "copy-config", "recipe": recipe2}, expected=[b[2] for b in bad], observed=[b[:2] for b in bad],
                                  stream="copies-config", kf=classify(recipe2))


def stream_positions(ctx, batch):
    """every string class at every kind of position, every receiver, every single-class types argument, both strip
    values: <div>pre<P> C <b> C </b></P><!--z--></div> for every class C and every kind of parent P."""
    e = E()
    names = e["names"]
    allc = [e["cls"][n] for n in names]
    parents = [("soup", n) for n in ["p"] + list(PROP_CONTAINERS) + [x for x in e["live_containers"] if x not in PROP_CONTAINERS]]
    parents += [("bare", "p"), ("bare", "script"), ("custom", "p")]
    tid = 1_000_000

    def plan(n, present):
        qs = [("ST",), ("SS",), ("TX",), ("SP",)]
        for strip in (False, True):
            for ts in [("d",), ("D",), ("n",), ("many", "tuple", []), ("many", "list", []),
                       ("many", "set", [e["cls"]["NavigableString"], e["cls"]["CData"]])] + [("one", k) for k in allc] + \
                      [("many", "tuple", [k]) for k in allc]:
                qs.append(("A", strip, ts))
            qs.append(("G", strip, ("d",), "|", "pos"))
            qs.append(("G", strip, ("n",), "", "kw"))
        return qs

    for via, pname in parents:
        for cn in names:
            ops = [["newtag", "div", "soup", 0, 0, "append"],
                   ["newstr", "NavigableString", " pre ", "direct", 1, 0, "append"],
                   ["newtag", pname, "soup" if via != "bare" else "bare", 1, 0, "append"],
                   ["newstr", cn, " c1\u3000", "direct", 3, 0, "append"],
                   ["newtag", "b", "soup", 3, 0, "append"],
                   ["newstr", cn, "\xa0c2 ", "direct", 5, 0, "append"],
                   ["newstr", cn, " \n", "direct", 3, 0, "append"],
                   ["newstr", "Comment", "z", "direct", 1, 0, "append"]]
            if via == "custom":
                ops.append(["interesting", 3, ["many", [cn, "Comment"], "tuple"]])
            recipe = {"markup": "", "config": "default", "ops": ops}
            soup, sc = build(recipe)
            tid += 1
            check_tree(ctx, batch, recipe, soup, sc, "positions", plan, tid)
    ctx.exhaustive_parts.append(f"positions: {len(names)} string classes x {len(parents)} kinds of parent x every receiver x "
                                f"every single-class types argument x strip")


def stream_string_container(ctx):
    """BeautifulSoup.string_container() against the Lean mirror, over element_classes x containers x stack top x base"""
    e = E()
    c = e["cls"]
    ecs = [{}, {"NavigableString": "SubNS"}, {"Comment": "SubComment"}, {"NavigableString": "Comment", "Comment": "CData"}]
    lines, real, cases = [], [], []
    for cfg in ["default", "empty", "b-sub", "default+", "script-plain"]:
        kwargs, sc = config_containers(cfg)
        for ec in ecs:
            soup = e["BeautifulSoup"]("", "html.parser", element_classes={c[a]: c[b] for a, b in ec.items()}, **kwargs)
            live_sc = soup.builder.string_containers
            for top in [None] + sorted(set(list(live_sc) + ["p", "b", "script", "rt"])):
                for base in [None] + e["names"]:
                    soup.string_container_stack = [soup.new_tag(top)] if top is not None else []
                    got = soup.string_container(None if base is None else c[base])
                    soup.string_container_stack = []
                    ectok = ";".join(f"{cls_code(c[a])}:{cls_code(c[b])}" for a, b in ec.items()) or "-"
                    sctok = ";".join(f"{arg_tok(k)}:{cls_code(v)}" for k, v in live_sc.items()) or "-"
                    lines.append(f"c13 sc {ectok} {sctok} {arg_tok(top) if top is not None else 'N'} {'N' if base is None else cls_code(c[base])}")
                    real.append(str(cls_code(got)))
                    cases.append({"op": "string_container", "config": cfg, "element_classes": ec, "top": top, "base": base})
                    ctx.case(("SC", cfg, tuple(ec.items()), top, base))
                    ctx.count("string_container:calls")
                    # the property's reading, where it applies (no element_classes override)
                    if not ec:
                        if base in (None, "NavigableString"):
                            want = sc.get(top, "NavigableString") if top is not None else "NavigableString"
                        else:
                            want = base
                        if got is not c[want]:
                            ctx.violation("string_container() does not give the class of the innermost string container",
                                          case=cases[-1], expected=want, observed=got.__name__, stream="string-container")
    rep = Driver().ask(lines)
    for l, a, b, cs in zip(lines, real, rep, cases):
        if a != b:
            ctx.corr_disagreements += 1
            if not any(v["case"] == cs for v in ctx.violations):
                ctx.violation("Lean mirror of string_container() and implementation disagree", case=cs | {"line": l},
                              observed=a, model=b, stream="string-container-correspondence", no_failing_input=True)
    # Tag.__init__'s interesting_string_types against the mirror and the property
    lines, real, cases = [], [], []
    for cfg in ["default", "empty", "b-sub", "default+", "script-plain"]:
        kwargs, sc = config_containers(cfg)
        soup = e["BeautifulSoup"]("", "html.parser", **kwargs)
        live_sc = soup.builder.string_containers
        for nm in sorted(set(ORD_TAGS + list(PROP_CONTAINERS) + list(live_sc) + ["[document]", "noscript"])):
            t = soup.new_tag(nm)
            val = t.interesting_string_types
            got = "m" + ".".join(str(x) for x in sorted(cls_code(k) for k in val))
            want = "m" + ".".join(str(x) for x in sorted(cls_code(c[n]) for n in expected_interesting(sc, nm)[1]))
            sctok = ";".join(f"{arg_tok(k)}:{cls_code(v)}" for k, v in live_sc.items()) or "-"
            lines.append(f"c13 interesting {sctok} {arg_tok(nm)}")
            real.append(got)
            cases.append({"op": "interesting", "config": cfg, "name": nm})
            ctx.case(("I", cfg, nm))
            if got != want:
                ctx.violation("a new tag's interesting_string_types is not what the property says",
                              case=cases[-1], expected=want, observed=got, stream="interesting")
    rep = Driver().ask(lines)
    for l, a, b, cs in zip(lines, real, rep, cases):
        b = "m" + ".".join(sorted(b[1:].split("."), key=int)) if b.startswith("m") and b != "m-" else b
        if a != b:
            ctx.corr_disagreements += 1
            if not any(v["case"] == cs for v in ctx.violations):
                ctx.violation("Lean mirror of Tag.__init__'s interesting_string_types and implementation disagree",
                              case=cs | {"line": l}, observed=a, model=b, stream="interesting-correspondence", no_failing_input=True)


def sc_tok(d):
    if d is None:
        return None
    return ";".join(f"{arg_tok(k)}:{cls_code(v)}" for k, v in d.items()) or "-"


def int_tok_of_value(val):
    """tag.interesting_string_types (live attribute) -> canonical token (collections as sorted sets)"""
    if val is None:
        return "N"
    if isinstance(val, type):
        return f"o{cls_code(val)}"
    codes = sorted(cls_code(k) for k in val)
    return "m" + (".".join(map(str, codes)) if codes else "-")


def canon_int_reply(rep: str) -> str:
    if rep.startswith("ok m") and rep != "ok m-":
        return "ok m" + ".".join(sorted(rep[4:].split("."), key=int))
    return rep


def stream_config(ctx):
    """the builder's string_containers option, Tag.__init__ with/without a builder, new_tag, copy_self, nested containers"""
    e = E()
    c = e["cls"]
    from bs4.builder import TreeBuilder, HTMLParserTreeBuilder
    Tag = e["el"].Tag
    drv = Driver()
    lines, real, cases = [], [], []
    custom = [{}, {"b": c["SubNS"]}, {"script": c["NavigableString"], "p": c["Comment"]},
              dict(e["live_containers"]) | {"i": c["CData"]}]
    params = [("omit", None), ("N", None), ("o5", c["Comment"]), ("m5", {c["Comment"]}), ("m-", ()), ("m0.9", [c["NavigableString"], c["Script"]])]
    names = sorted(set(ORD_TAGS + list(PROP_CONTAINERS) + list(e["live_containers"]) + ["[document]", "noscript", "SCRIPT", "Script",
                                                                                          "STYLE", "\u017fcript", "scr\u0131pt", ""]))
    for bcls, prop_dflt in ((HTMLParserTreeBuilder, PROP_CONTAINERS), (TreeBuilder, {}), (e["builders"]["bool"], PROP_CONTAINERS),
                            (e["builders"]["len0"], PROP_CONTAINERS), (e["builders"]["lencount"], PROP_CONTAINERS)):
        live_dflt = bcls.DEFAULT_STRING_CONTAINERS
        for argname, arg in [("U", "omit"), ("N", None)] + [("D", d) for d in custom]:
            try:
                b = bcls() if arg == "omit" else bcls(string_containers=arg)
            except Exception as ex:
                ctx.violation("constructing a builder with this string_containers value raises", case={"op": "config", "builder": bcls.__name__, "arg": argname},
                              observed=repr(ex), stream="config")
                continue
            got_sc = b.string_containers
            argtok = "U" if arg == "omit" else "N" if arg is None else "D:" + sc_tok(arg)
            lines.append(f"c13 scarg {sc_tok(live_dflt)} {argtok}")
            real.append("none" if got_sc is None else "some " + sc_tok(got_sc))
            cases.append({"op": "config", "what": "builder-option", "builder": bcls.__name__, "arg": argname})
            ctx.case(("CFG", bcls.__name__, argtok))
            # property-direct expectation of the table in force
            if arg == "omit":
                want_sc = {k: c[v] for k, v in prop_dflt.items()}
                if got_sc != want_sc:
                    ctx.violation("the default string_containers of this builder class are not the documented ones",
                                  case=cases[-1], expected=sorted(prop_dflt.items()), observed=sorted((k, v.__name__) for k, v in got_sc.items()), stream="config")
            elif arg is not None and got_sc != arg:
                ctx.violation("a string_containers dictionary passed to the builder is not used as given", case=cases[-1],
                              expected=sc_tok(arg), observed=sc_tok(got_sc), stream="config")
            btok = "BN" if got_sc is None else "B:" + sc_tok(got_sc)
            eff = None if got_sc is None else {k: v.__name__ for k, v in got_sc.items()}
            soup = None
            if issubclass(bcls, HTMLParserTreeBuilder):
                try:
                    soup = e["BeautifulSoup"]("", builder=b)
                    if got_sc is None:
                        ctx.notes.append("string_containers=None did not raise at BeautifulSoup construction")
                except TypeError:
                    ctx.count("config:soup-TypeError")
                    soup = None
            if soup is not None:
                # pickle round trip: the (picklable) builder travels with the document, configuration included
                import pickle
                try:
                    up = pickle.loads(pickle.dumps(soup))
                    got_up = up.builder.string_containers
                    truthy = bool(b)
                    lines.append(f"c13 pickledsc {1 if b.picklable else 0} {sc_tok(live_dflt)} {'N' if got_sc is None else 'D:' + sc_tok(got_sc)} "
                                 f"{1 if truthy else 0} {sc_tok(HTMLParserTreeBuilder.DEFAULT_STRING_CONTAINERS)}")
                    real.append("none" if got_up is None else "some " + sc_tok(got_up))
                    cases.append({"op": "config", "what": "pickle", "builder": bcls.__name__, "arg": argname})
                    ctx.case(("PICKLE", bcls.__name__, argtok))
                    if got_up != got_sc:
                        ctx.violation("a pickled and unpickled document lost its builder's string_containers configuration", case=cases[-1],
                                      expected=sc_tok(got_sc), observed=sc_tok(got_up), stream="config",
                                      kf="C13-unpickle-falsy-builder" if not truthy else None)
                except RecursionError:
                    raise
                except Exception as ex:
                    ctx.count("config:pickle-failed-" + type(ex).__name__)
            for nm in names:
                for ptok, pval in params:
                    for mode, K in (("builder", Tag), ("bare", Tag), ("builder", e["tagsubs"]["TagCountingComments"]),
                                    ("builder", e["tagsubs"]["TagOnlyComments"]), ("bare", e["tagsubs"]["TagOnlyComments"])):
                        kw = {} if ptok == "omit" else {"interesting_string_types": pval}
                        try:
                            t = K(builder=b, name=nm, **kw) if mode == "builder" else K(name=nm, **kw)
                            got = "ok " + int_tok_of_value(t.interesting_string_types)
                        except TypeError:
                            got = "TypeError"
                        cmtok = "" if K is Tag else " m" + ".".join(str(cls_code(c[n])) for n in class_main(K))
                        lines.append(f"c13 taginit {btok if mode == 'builder' else 'N'} {arg_tok(nm)} {'N' if ptok == 'omit' else ptok}{cmtok}")
                        real.append(got)
                        cases.append({"op": "config", "what": K.__name__ + "()", "builder": bcls.__name__ if mode == "builder" else None, "arg": argname,
                                      "name": nm, "param": ptok})
                        ctx.case(("TAG", bcls.__name__, argtok, nm, ptok, mode, K.__name__))
                        ctx.count("config:" + K.__name__ + "-" + mode)
                        # property: with a builder whose table is a dict, the table decides (own class for a container, else what the
                        # tag's CLASS counts as main content); without one, the argument is kept
                        if mode == "builder" and eff is not None:
                            want = "ok " + int_tok_of_value({c[n] for n in expected_interesting(eff, nm, class_main(K))[1]})
                        elif mode == "bare":
                            want = "ok " + int_tok_of_value(pval)
                        else:
                            want = None
                        if want is not None and got != want:
                            if sum(1 for v in ctx.violations if v["stream"] == "config") < 6:
                                ctx.violation("a new Tag's interesting_string_types is not what its builder's string_containers (or, without a "
                                              "builder, the argument) says", case=cases[-1], expected=want, observed=got, stream="config")
                        # copy_self keeps it
                        if got.startswith("ok"):
                            cp = t.copy_self()
                            gotc = "ok " + int_tok_of_value(cp.interesting_string_types)
                            lines.append(f"c13 copyself {arg_tok(nm)} {got[3:]}")
                            real.append(gotc)
                            cases.append({"op": "config", "what": "copy_self", "name": nm, "of": got})
                            ctx.case(None)
                            if gotc != got and sum(1 for v in ctx.violations if v["stream"] == "config") < 6:
                                ctx.violation("copy_self() does not keep interesting_string_types", case=cases[-1], expected=got, observed=gotc, stream="config")
                if soup is not None:
                    t = soup.new_tag(nm)
                    got = "ok " + int_tok_of_value(t.interesting_string_types)
                    lines.append(f"c13 newtag {btok} {arg_tok(nm)}")
                    real.append(got)
                    cases.append({"op": "config", "what": "new_tag", "arg": argname, "name": nm})
                    ctx.case(("NEWTAG", argtok, nm))
                    want = "ok " + int_tok_of_value({c[n] for n in expected_interesting(eff, nm)[1]})
                    if got != want and sum(1 for v in ctx.violations if v["stream"] == "config") < 6:
                        ctx.violation("new_tag()'s interesting_string_types is not what the builder's string_containers says", case=cases[-1],
                                      expected=want, observed=got, stream="config")
    rep = drv.ask(lines)
    for l, a, b_, cs in zip(lines, real, rep, cases):
        if a != canon_int_reply(b_):
            ctx.corr_disagreements += 1
            if not any(v["case"] == cs for v in ctx.violations) and sum(1 for v in ctx.violations if v["stream"] == "config-correspondence") < 6:
                ctx.violation("Lean mirror of the configuration handling and implementation disagree", case=cs | {"line": l},
                              observed=a, model=b_, stream="config-correspondence", no_failing_input=True)
    ctx.count("config:requests", len(lines))


def stream_nesting(ctx, n_docs):
    """nested, re-opened and closed string containers under configurations whose builder tables overlap: text before, inside and
    AFTER the elements. Oracles: (1) every marker text has the class of the innermost container OPEN when it was written,
    (2) the nearest-container-ancestor rule on the finished tree; model: C03's machine with `builderCfg` (both context stacks)."""
    e = E()
    c = e["cls"]
    NS = e["el"].NavigableString
    lines, real, cases = [], [], []
    for di in range(n_docs):
        r = ctx.rng("nesting", di)
        cfg = r.choice(["default", "default+", "b-sub", "empty", "overlap-pre", "overlap-pre", "overlap-script", "overlap-script",
                        "overlap-void", "overlap-void"])
        kwargs, sc = config_containers(cfg)
        pres = config_preserve(cfg)
        pool = ["b", "p", "i", "div", "template", "rt", "rp", "template", "rt", "pre", "pre", "br", "hr"]
        open_names, events, marks = [], [], []
        markup = ""
        last_text = False
        for k in range(r.randint(2, 12)):
            j = r.random()
            if j < 0.35 and not last_text:
                t = f"x{di}_{k}"
                markup += t
                events.append("d:" + arg_tok(t))
                inner = next((n for n in reversed(open_names) if n in sc), None)
                marks.append((t, sc[inner] if inner is not None else "NavigableString"))
                last_text = True
                continue
            last_text = False
            if open_names and j < 0.6:
                # close the innermost element, or (sometimes) one further out: _popToTag closes everything above it too
                idx = len(open_names) - 1 if r.random() < 0.8 else r.randrange(len(open_names))
                nm = open_names[idx]
                idx = len(open_names) - 1 - open_names[::-1].index(nm)
                del open_names[idx:]
                markup += f"</{nm}>"
                events.append("e:" + arg_tok(nm))
            else:
                nm = r.choice(pool)
                if nm in VOID:
                    markup += f"<{nm}>"
                    events += ["s:" + arg_tok(nm), "e:" + arg_tok(nm)]
                else:
                    open_names.append(nm)
                    markup += f"<{nm}>"
                    events.append("s:" + arg_tok(nm))
        # sometimes through a builder object that first offers prefixes of the document which are refused after their events
        # were sent (elements, string containers among them, still open): BeautifulSoup.__init__'s retry loop
        attempts = []
        nrecipe = {"markup": markup, "config": cfg, "ops": []}
        if r.random() < 0.45 and events:
            bounds = [0]
            for ev in events:       # markup offset after each event
                pass
            offs = []
            pos_ = 0
            for ev in events:
                kind_, val_ = ev.split(":", 1)
                txt = "".join(chr(int(x)) for x in val_.split(",")) if val_ != "-" else ""
                if kind_ == "d":
                    pos_ += len(txt)
                elif kind_ == "s":
                    pos_ += len(txt) + 2
                else:
                    pos_ += len(txt) + 3 if f"</{txt}>" == markup[pos_:pos_ + len(txt) + 3] else 0
                offs.append(pos_)
            cuts = []
            for _ in range(r.choice((1, 1, 2))):
                k_ = r.randrange(len(events))
                cuts.append((k_, offs[k_]))
            nrecipe["builder"] = {"kind": r.choice(("retry", "retry", "bool", "lencount")), "retry": [[c_, "feed"] for _, c_ in cuts]}
            attempts = [events[:k_ + 1] for k_, _ in cuts]
        try:
            soup = make_soup(nrecipe, kwargs)
        except PoisonedAccepted:
            nrecipe.pop("builder", None)
            attempts = []
            soup = make_soup(nrecipe, kwargs)
        if attempts:
            ctx.count("nesting:with-refused-attempts")
            if any(any(ev2.startswith("s:") and "".join(chr(int(x)) for x in ev2[2:].split(",")) in sc for ev2 in a_) for a_ in attempts):
                ctx.count("nesting:refused-attempt-opened-a-container")
            bad_ = after_parse_failures(soup, sc)
            if bad_ and sum(1 for v in ctx.violations if v["stream"] == "after-parse") < 4:
                ctx.violation("after the document was built, soup.new_string() does not make a plain NavigableString (something of the "
                              "parse, or of a refused attempt, is still open)", case={"op": "after-parse", "recipe": dict(nrecipe)},
                              expected="NavigableString", observed=bad_[0][1], stream="after-parse")
        strs = [x for x in all_nodes(soup) if isinstance(x, NS)]
        by_text = {str(x): type(x).__name__ for x in strs}
        got = [(t, by_text.get(t, "<missing>")) for t, _ in marks]
        both = [n for n in sc if n in pres]
        after_overlap = any(f"</{n}>" in markup or (n in VOID and f"<{n}>" in markup) for n in both)
        ctx.case(("NEST", markup, cfg) if (after_overlap and marks) or sum(1 for n in open_names if n in sc) >= 2 else None)
        ctx.count("nesting:config-" + cfg)
        if after_overlap and marks:
            ctx.count("nesting:text-with-a-closed-overlapping-element")
        case = {"op": "nesting", "markup": markup, "config": cfg, "marks": [list(m) for m in marks], "builder": nrecipe.get("builder")}
        if got != marks and sum(1 for v in ctx.violations if v["stream"] == "nesting") < 4:
            ctx.violation("parsed text does not get the class of the innermost string container open at that point", case=case,
                          expected=[m[1] for m in marks], observed=[g[1] for g in got], stream="nesting")
        recipe = nrecipe
        for t in all_nodes(soup):
            if is_tag(t):
                set_exp(t, exp_for(t, sc))
        check_ancestor_rule(ctx, recipe, soup, sc, "nesting")
        live_sc = soup.builder.string_containers
        live_pres = soup.builder.preserve_whitespace_tags
        if attempts:
            atts = "|".join(["R:" + (";".join(a_) or "-") for a_ in attempts] + ["A:" + (";".join(events) or "-")])
            lines.append(f"c13 parseloop {sc_tok(live_sc)} {';'.join(arg_tok(n) for n in sorted(live_pres)) or '-'} {atts}")
        else:
            lines.append(f"c13 parsecls {sc_tok(live_sc)} {';'.join(arg_tok(n) for n in sorted(live_pres)) or '-'} {';'.join(events) or '-'}")
        real.append(".".join(str(cls_code(type(x))) for x in strs) or "-")
        cases.append(case)
    rep = Driver().ask(lines)
    for l, a, b_, cs in zip(lines, real, rep, cases):
        if a != b_:
            ctx.corr_disagreements += 1
            if not any(v["case"] == cs for v in ctx.violations) and sum(1 for v in ctx.violations if v["stream"] == "nesting-correspondence") < 4:
                ctx.violation("C03's parser machine instantiated with this configuration and the implementation disagree on the string classes",
                              case=cs | {"line": l}, observed=a, model=b_, stream="nesting-correspondence", no_failing_input=True)


def stream_strip(ctx):
    """str.strip() (what _all_strings calls) against the Lean strip over the generated table: every whitespace code
    point and its neighbours, in every position."""
    import sys
    ws = [c for c in range(sys.maxunicode + 1) if chr(c).isspace()]
    cands = sorted(set(ws) | {c + d for c in ws for d in (-1, 1)} | {0, 0x200b, 0xfeff, 0x180e, 0xd800, 0x10ffff})
    lines, real = [], []
    for c in cands:
        for s in (chr(c), chr(c) + "x", "x" + chr(c), chr(c) + "x" + chr(c), "x" + chr(c) + "y", " " + chr(c) + "\n"):
            lines.append(f"c13 strip {arg_tok(s)}")
            real.append(ptok(s.strip()))
            ctx.case(None)
    rep = Driver().ask(lines)
    ctx.count("strip:table-cases", len(lines))
    for l, a, b in zip(lines, real, rep):
        if a != b:
            ctx.corr_disagreements += 1
            ctx.violation("Lean strip (generated isspace table) and str.strip disagree", case={"op": "strip", "line": l},
                          observed=a, model=b, stream="strip-table", no_failing_input=True)
    ctx.exhaustive_parts.append(f"strip: all {len(ws)} whitespace code points and their neighbours in 6 positions")


# --------------------------------------------------------------------------------------
# the pointer heap: real edit histories (harness/heapsim.py, shared with C01/C02) against Model/TextHeap.lean
# --------------------------------------------------------------------------------------
HEAP_STR = ["NavigableString", "NavigableString", "Script", "Stylesheet", "TemplateString", "RubyTextString",
            "RubyParenthesisString", "SubNS", "SubScript"]
HEAP_PRE = ["Comment", "Comment", "CData", "Doctype", "Declaration", "ProcessingInstruction", "XMLProcessingInstruction",
            "PreformattedString", "SubComment", "SubCData"]


def lab_tok(s) -> str:
    """heapsim texts are '.'-terminated label numbers: "7.1001." <-> model value [7, 1001]"""
    t = [x for x in str.__str__(s).split(".") if x != ""]
    return ",".join(t) if t else "e"


def make_heap_world(r):
    """fresh API objects of every string class (kind s = plain, c = preformatted), tags with hand-set interesting types"""
    from . import heapsim
    e = E()
    c = e["cls"]
    n_soup, n_tag, n_str, n_pre = r.choice([1, 1, 2]), r.randint(3, 8), r.randint(2, 6), r.randint(1, 4)
    kinds = "r" * n_soup + "t" * n_tag + "s" * n_str + "c" * n_pre
    w = heapsim.World.__new__(heapsim.World)
    w.call_forms, w.kinds, w.twin, w.twin_choices = {}, kinds, False, None
    w.base = e["BeautifulSoup"]("", "html.parser")
    w.objs, w.lab, w.keep, w.next_plain = {}, {}, [], 1000
    classes, interesting = [], []
    for i, k in enumerate(kinds):
        if k in "rt":
            o = e["BeautifulSoup"]("", "html.parser") if k == "r" else w.base.new_tag(f"t{i}")
            spec = ("many", PROP_MAIN)
            if k == "t" and r.random() < 0.35:
                j = r.random()
                names = e["names"]
                if j < 0.15:
                    spec = None
                elif j < 0.4:
                    spec = ("one", (r.choice(names),))
                else:
                    spec = ("many", tuple(r.sample(names, r.randint(0, 3))), r.choice(("set", "tuple", "list", "frozenset")))
                o.interesting_string_types = interesting_value(spec)
                spec = None if spec is None else (spec[0], tuple(spec[1]))
            set_exp(o, spec)
            classes.append("NavigableString")
            interesting.append(spec)
        else:
            cn = r.choice(HEAP_STR if k == "s" else HEAP_PRE)
            o = c[cn](f"{i}.")
            classes.append(cn)
            interesting.append(("many", PROP_MAIN))
        w.register(o, i)
    return w, kinds, classes, interesting


def rebuild_heap_world(kinds, classes, interesting):
    from . import heapsim
    e = E()
    c = e["cls"]
    w = heapsim.World.__new__(heapsim.World)
    w.call_forms, w.kinds, w.twin, w.twin_choices = {}, kinds, False, None
    w.base = e["BeautifulSoup"]("", "html.parser")
    w.objs, w.lab, w.keep, w.next_plain = {}, {}, [], 1000
    for i, k in enumerate(kinds):
        if k in "rt":
            o = e["BeautifulSoup"]("", "html.parser") if k == "r" else w.base.new_tag(f"t{i}")
            spec = interesting[i]
            spec = None if spec is None else tuple(spec)
            if spec != ("many", PROP_MAIN) and not (spec is not None and spec[0] == "many" and tuple(spec[1]) == PROP_MAIN and len(spec) == 2):
                o.interesting_string_types = interesting_value(spec)
            set_exp(o, None if spec is None else (spec[0], tuple(spec[1])))
        else:
            o = c[classes[i]](f"{i}.")
        w.register(o, i)
    return w


def heap_line(mode, kinds, ops, classes, interesting, qtoks):
    e = E()
    cls = ".".join(str(cls_code(e["cls"][n])) for n in classes)
    ints = ";".join("_" if (sp is not None and sp[0] == "many" and tuple(sp[1]) == PROP_MAIN) else interesting_tok(None if sp is None else (sp[0], tuple(sp[1])))
                    for sp in interesting)
    return f"c13 heap {mode} {kinds} {';'.join(ops) if ops else '-'} {cls} {ints} {len(qtoks)} {' '.join(qtoks)}"


def heap_query(w, label, o, q):
    """-> (model token, real reply, oracle reply, identity ok); texts canonicalised as label numbers"""
    e = E()
    op = q[0]
    if op == "ST":
        got = list(o.strings)
        want = o_all_strings(o, False, ("d",))
        ident = len(got) == len(want) and all(a is b[0] for a, b in zip(got, want))
        f = lambda l: "[" + ";".join(lab_tok(x) for x in l) + "]"
        return f"{label}/ST", f(got), f([x[1] for x in want]), ident
    if op == "TX":
        got = o.text
        want = "".join(str.__str__(x[1]) for x in o_all_strings(o, False, ("d",)))
        return f"{label}/TX", lab_tok(got), lab_tok(want), True
    if op == "SP":
        got, want = o.string, o_string(o)
        f = lambda x: "none" if x is None else f"{cls_code(type(x))}:{lab_tok(x)}@{w.label(x)}"
        return f"{label}/SP", f(got), f(want), got is want
    if op == "A":
        _, strip, tspec = q
        kw = {} if tspec[0] == "d" else {"types": e["el"].PageElement.default if tspec[0] == "D" else types_value(tspec)}
        got = list(o._all_strings(strip, **kw))
        want = o_all_strings(o, strip, norm_tspec(tspec))
        ident = len(got) == len(want) and all(a is b[0] for a, b in zip(got, want))
        f = lambda l: "[" + ";".join(lab_tok(x) for x in l) + "]"
        return f"{label}/A/0/{types_tok(norm_tspec(tspec))}", f(got), f([x[1] for x in want]), ident
    _, strip, tspec, sepnums = q
    sep = "".join(f"{n}." for n in sepnums)
    kw = {} if tspec[0] == "d" else {"types": e["el"].PageElement.default if tspec[0] == "D" else types_value(tspec)}
    got = o.get_text(sep, strip, **kw)
    want = sep.join(str.__str__(x[1]) for x in o_all_strings(o, strip, norm_tspec(tspec)))
    septok = ",".join(map(str, sepnums)) if sepnums else "-"
    return f"{label}/G/0/{types_tok(norm_tspec(tspec))}/{septok}", lab_tok(got), lab_tok(want), True


def rand_tspec_noiter(r, present):
    while True:
        t = rand_tspec(r, present)
        if t[0] != "iter":
            return t


def heap_queries_for(r, o):
    NS = E()["el"].NavigableString
    present = list(dict.fromkeys(type(x) for x in o_strings_below(o))) if is_tag(o) else [type(o)]
    qs = [("ST",), ("TX",), ("SP",)]
    for _ in range(2):
        qs.append(("A", False, rand_tspec_noiter(r, present)))
    for _ in range(2):
        qs.append(("G", False, rand_tspec_noiter(r, present), r.choice(([], [900], [900, 901], [32]))))
    return qs


def run_heap_case(ctx, case, stream="heap"):
    """case = {kinds, classes, interesting, ops (already known to succeed), seed} -> (lines, meta) for the driver"""
    from . import heapsim
    w = rebuild_heap_world(case["kinds"], case["classes"], case["interesting"])
    for op in case["ops"]:
        st = w.apply(op)
        if st != "ok":
            return None
    return w


def relabel(labels):
    """model labels of strings are `s<v.v>`; heapsim's are the same texts"""
    return list(labels)


def heap_iter_run(w, label, o, tspec, templates):
    """for s in o._all_strings(False, types): <edit s>  ->  (labels handed out, final contents of the live tags, oracle)"""
    e = E()
    sel = o_selector(o, norm_tspec(tspec))
    want = [w.label(x) for x in o_strings_below(o) if sel(type(x))]
    kw = {} if tspec[0] == "d" else {"types": e["el"].PageElement.default if tspec[0] == "D" else types_value(tspec)}
    got = []
    it = o.strings if tspec[0] == "d" else o._all_strings(False, **kw)
    k = 0
    try:
        for x in it:
            lab = w.label(x)
            got.append(lab)
            t = templates[k % len(templates)]
            k += 1
            if t != "_":
                st = w.apply(t.replace("$", lab))
                if st != "ok":
                    got.append(st)
                    break
            if k > 500:
                got.append("<unbounded>")
                break
    except RecursionError:
        raise
    except Exception as ex:   # the iteration itself raised after an edit
        got.append(f"<raised {type(ex).__name__}>")
    final = {l: w.labels(x.contents) for l, x in w.live() if is_tag(x)}
    return got, final, want


def heap_start(r):
    from . import heapsim
    if r.random() < 0.35:
        w, kinds, prefix = heapsim.make_world(r, True, string_subclasses=False)   # the classes are part of C13's mirror: see make_heap_world
        classes = ["Comment" if k == "c" else "NavigableString" for k in kinds]
        interesting = [("many", PROP_MAIN)] * len(kinds)
        for o in w.objs.values():
            if is_tag(o):
                set_exp(o, ("many", PROP_MAIN))
        return w, kinds, classes, interesting, list(prefix), True
    w, kinds, classes, interesting = make_heap_world(r)
    return w, kinds, classes, interesting, [], False


def stream_heap(ctx, n_hist):
    from . import heapsim
    from collections import Counter
    e = E()
    lines, metas = [], []
    iter_lines, iter_meta = [], []
    for hi in range(n_hist):
        r = ctx.rng("heap", hi)
        state = r.getstate()
        w, kinds, classes, interesting, prefix, parsed = heap_start(r)
        ops = list(prefix)
        stats = Counter()
        for s_ in range(r.choice((2, 4, 6, 9, 12))):
            op = heapsim.gen_op(r, w, stats, string_objects=False)   # C13's mirror tracks texts and classes; `se` copies them
            if op is None:
                break
            st = w.apply(op)
            if st != "ok":
                # a failed call may have half-happened: start again and replay the successful calls only
                ctx.count("heap:history-stopped-" + st)
                import random as _random
                r2 = _random.Random()
                r2.setstate(state)
                w, kinds, classes, interesting, prefix, parsed = heap_start(r2)
                for o2 in ops[len(prefix):]:
                    w.apply(o2)
                break
            ops.append(op)
            ctx.count("heap-op:" + op.split(":")[0])
        ctx.count("heap:" + ("parsed-start" if parsed else "api-start"))
        case = {"op": "heap", "kinds": kinds, "classes": classes, "interesting": [None if x is None else list(x) for x in interesting],
                "ops": ops, "parsed": parsed}
        qtoks, qs = [], []
        for label, o in w.live():
            if o.parent is None and not is_tag(o):
                pass
            for q in heap_queries_for(r, o):
                try:
                    tok, real, want, ident = heap_query(w, label, o, q)
                except RecursionError:
                    raise
                except Exception as ex:
                    tok, real, want, ident = f"{label}/ST", f"raised {type(ex).__name__}: {ex}", "<no exception>", True
                ctx.case(None)
                ctx.count("heap-q:" + q[0])
                qd = [q[0]] + ([q[1], types_desc(q[2])] if q[0] in ("A", "G") else []) + ([q[3]] if q[0] == "G" else [])
                if real != want or not ident:
                    ctx.count("heap:oracle-differs")
                    if sum(1 for v in ctx.violations if v["stream"] == "heap") < 6:
                        ctx.violation("after this edit history, text extraction (through the next_element chain) differs from the recursive "
                                      "evaluator over .contents" if real != want else "the yielded object is not the string node of the tree (identity)",
                                      case=case | {"receiver": label, "query": qd}, expected=want, observed=real, stream="heap")
                qtoks.append(tok)
                qs.append((label, qd, real, want))
        if any(is_tag(o) and o.parent is not None and o.contents for _, o in w.live()):
            ctx.nontrivial.add(5_000_000 + hi)
        lines.append((kinds, ops, classes, interesting, qtoks))
        metas.append((case, qs))
        # the consumer edits the string it was just handed while iterating (a history of (yield, edit) steps)
        cands = [(l, o) for l, o in w.live() if is_tag(o) and sum(1 for _ in o_strings_below(o)) >= 2]
        if cands:
            label, o = r.choice(cands)
            tspec = r.choice([("d",), ("n",), ("n",), rand_tspec_noiter(r, list(dict.fromkeys(type(x) for x in o_strings_below(o))))])
            templates = []
            for ti_ in range(24):
                k = r.choice(("ex", "de", "rw", "rw", "ia", "ib", "_"))
                templates.append("_" if k == "_" else f"{k}:$" if k in ("ex", "de") else f"{k}:$:p{5000 + ti_}")
            icase = case | {"op": "heap-iter", "receiver": label, "types": types_desc(tspec), "edits": templates}
            got, final, want = heap_iter_run(w, label, o, tspec, templates)
            ctx.case(("HITER", hi))
            ctx.count("heap-iter:runs")
            for t in templates[:len(got)]:
                ctx.count("heap-iter:edit-" + t.split(":")[0])
            if got != want:
                ctx.count("heap-iter:oracle-differs")
                if sum(1 for v in ctx.violations if v["stream"] == "heap-iter") < 6:
                    ctx.violation("iterating the strings of an element while editing each string as it is handed out does not yield exactly "
                                  "the interesting strings that were beneath the element, in document order", case=icase,
                                  expected=want, observed=got, stream="heap-iter")
            iter_lines.append(f"c13 iter {kinds} {';'.join(ops) if ops else '-'} " + heap_line("heap", kinds, ops, classes, interesting, []).split(" ")[5]
                              + " " + heap_line("heap", kinds, ops, classes, interesting, []).split(" ")[6]
                              + f" {label} {types_tok(norm_tspec(tspec))} {';'.join(templates)}")
            iter_meta.append((icase, got, final, want))
    drv = Driver()
    rep = drv.ask(iter_lines)
    for (icase, got, final, want), ans in zip(iter_meta, rep):
        parts = ans.split(" | ")
        mkids = dict(x.split(":", 1) for x in parts[1].split(",")) if len(parts) == 2 and parts[1] else {}
        ok = len(parts) == 2 and parts[0] == (".".join(got) if got else "-") and all(mkids.get(t) == ks for t, ks in final.items())
        if not ok:
            ctx.corr_disagreements += 1
            ctx.count("heap-iter:model-disagrees")
            if sum(1 for v in ctx.violations if v["stream"] == "heap-iter-correspondence") < 4 and \
                    not any(v["case"] == icase for v in ctx.violations):
                ctx.violation("Lean generator-protocol mirror (successor read before the yield) and implementation disagree", case=icase,
                              observed={"yielded": got, "contents": final}, expected=want, model=ans[:600],
                              stream="heap-iter-correspondence", no_failing_input=(got == want))
    reported = 0
    for mode in ("heap", "tree"):
        rep = drv.ask([heap_line(mode, *l) for l in lines])
        for (case, qs), ans in zip(metas, rep):
            parts = ans.split(" | ") if qs else []
            if len(parts) != len(qs):
                parts = [ans] * len(qs)
            for (label, qd, real, want), a in zip(qs, parts):
                if mode == "tree" and "@" in real:
                    real = real.split("@")[0]
                if a != real:
                    ctx.corr_disagreements += 1
                    ctx.count(f"heap:model-{mode}-disagrees")
                    if reported < 6:
                        reported += 1
                        ctx.violation(f"Lean {'pointer-heap mirror' if mode == 'heap' else 'tree mirror on toNode'} and implementation disagree",
                                      case=case | {"receiver": label, "query": qd}, observed=real, expected=want, model=a,
                                      stream="heap-correspondence", no_failing_input=(real == want))
    ctx.count("heap:histories", n_hist)


def stream_corpus(ctx, batch):
    from .common import CORPUS
    d = CORPUS / "C13"
    if not d.exists():
        return
    for i, f in enumerate(sorted(d.glob("*.json"))):
        v = json.loads(f.read_text())
        c = v.get("case", v)
        if c.get("op") != "query":
            continue
        recipe = c["recipe"]
        soup, sc = build(recipe)
        q = query_from_desc(c["query"])
        target = tuple(c["path"])

        def plan(n, present, q=q, target=target, soup=soup):
            return [q] if any(nn is n and p == target for nn, p in paths(soup)) else []
        check_tree(ctx, batch, recipe, soup, sc, "corpus", plan, 2_000_000 + i)
        ctx.count("corpus:cases")


def run(ctx: Ctx):
    import warnings
    warnings.simplefilter("ignore")
    ctx.rule = ("every element and every string of every tree is a receiver; per receiver: .strings, .stripped_strings, .text, .string, "
                "4 random get_text(sep, strip, types) and 2 _all_strings(strip, types); a receiver counts as non-trivial when some but "
                "not all strings beneath it are selected by one of its queries, or .string is found through at least one element; a heap "
                "history counts when some attached element has children after it")
    ctx.assumptions = [
        "types=() is the default sentinel itself (CPython empty-tuple singleton) and is read as 'default'",
        "string receivers: an empty result yields nothing even without strip (modelled behaviour of NavigableString._all_strings)",
        "a one-shot iterator as types: today's consuming behaviour is modelled; being honoured like a tuple is accepted too",
        "element_classes overrides are outside the quantifier; only string_container() itself is compared with the model under them",
        "str.strip() = trimming by str.isspace (checked for every code point when the table is generated)",
        "heap stream: string class and interesting_string_types travel beside the heap as a labelling (no editing call writes them)",
    ]
    E()
    batch = Batch(ctx)
    stream_corpus(ctx, batch)
    stream_strip(ctx)
    stream_string_container(ctx)
    stream_config(ctx)
    stream_nesting(ctx, ctx.n(400, 4000))
    stream_positions(ctx, batch)
    stream_heap(ctx, ctx.n(500, 5000))
    stream_malformed(ctx, batch, ctx.n(600, 6000))
    stream_random(ctx, batch, ctx.n(1500, 15000))
    batch.flush()
    if ctx.lean is not None and not ctx.lean.ok:
        ctx.notes.append("Lean obligations did not check: the positions stream (every class x every container name of the property and of "
                         "the live DEFAULT_STRING_CONTAINERS x every receiver) and the interesting/string_container streams are the "
                         "exhaustive search over the generated tables")
    ctx.notes.append("quirks observed and modelled: types=() behaves as the default; an empty NavigableString yields nothing from its own "
                     ".strings; element_classes={NavigableString: Sub} hides parsed text from ordinary elements (design-time note)")


def pretty(reply: str) -> str:
    """canonical reply (code points) -> readable ascii()"""
    def one(t):
        if t == "e":
            return "''"
        try:
            return ascii("".join(chr(int(x)) for x in t.split(",")))
        except ValueError:
            return t
    if reply.startswith("[") and reply.endswith("]"):
        return "[" + ", ".join(one(t) for t in reply[1:-1].split(";") if t) + "]"
    if ":" in reply and reply.split(":", 1)[0].isdigit():
        code, t = reply.split(":", 1)
        names = E()["names"]
        code = int(code)
        nm = names[code] if code < len(KNOWN) else (names[len(KNOWN) + code - 100] if 0 <= code - 100 < len(names) - len(KNOWN) else str(code))
        return f"{nm}({one(t)})"
    return one(reply) if reply and (reply[0].isdigit() or reply == "e") else reply


def replay(path):
    E()
    v = json.load(open(path))
    c = v["case"]
    if c.get("op") == "query":
        soup, sc = build(c["recipe"])
        target = tuple(c["path"])
        n = soup
        for i in target:
            n = n.contents[i]
        q = query_from_desc(c["query"])
        real, want, ident = run_query(n, q)
        print("tree:", ascii(soup.decode()))
        print("receiver path:", list(target), "query:", c["query"])
        print("implementation:", pretty(real))
        print("property demands:", pretty(want), "" if ident else "(and the very string objects of the tree)")
        return 0 if (real == want and ident) else 1
    if c.get("op") == "after-parse":
        soup, sc = build(c["recipe"])
        bad = after_parse_failures(soup, sc)
        print("markup:", ascii(c["recipe"]["markup"]), "config:", c["recipe"]["config"], "builder object:", c["recipe"].get("builder"))
        print("type(soup.new_string('x')) after the parse:", type(soup.new_string("x")).__name__, "- property demands NavigableString;",
              "string_container_stack:", [t.name for t in soup.string_container_stack])
        return 1 if bad else 0
    if c.get("op") == "parse-classes":
        soup, sc = build(c["recipe"])
        NS = E()["el"].NavigableString
        got = [(type(s).__name__, o_isspace_strip(s)) for s in all_nodes(soup) if isinstance(s, NS)]
        want = [tuple(x) for x in c["expected_classes"]]
        print("markup:", ascii(c["recipe"]["markup"]), "config:", c["recipe"]["config"], "builder object:", c["recipe"].get("builder"))
        print("implementation:", got)
        print("property demands:", want)
        return 0 if got == want else 1
    if c.get("op") == "nesting":
        e = E()
        kwargs, sc = config_containers(c["config"])
        soup = make_soup({"markup": c["markup"], "config": c["config"], "builder": c.get("builder")}, kwargs)
        by_text = {str(x): type(x).__name__ for x in all_nodes(soup) if isinstance(x, e["el"].NavigableString)}
        print("markup:", c["markup"], "config:", c["config"], "string_containers:", sc, "preserve_whitespace_tags:", config_preserve(c["config"]),
              "builder object:", c.get("builder"))
        bad = 0
        for t, want in c["marks"]:
            got = by_text.get(t, "<missing>")
            print(f"text {t!r}: implementation class {got}, property demands {want}" + ("" if got == want else "   <-- differs"))
            bad += got != want
        for t in all_nodes(soup):
            if is_tag(t):
                set_exp(t, exp_for(t, sc))
        ordinary = [t for t in all_nodes(soup) if is_tag(t) and t.name not in sc]
        for t in ordinary[:1]:
            want_txt = "".join(str.__str__(w[1]) for w in o_all_strings(t, False, ("d",)))
            print(f"{t.name}.get_text(): implementation {t.get_text()!r}; with the demanded classes it would be "
                  f"{''.join(x for x, k in c['marks'] if k in PROP_MAIN)!r} (marker texts only)")
        return 1 if bad else 0
    if c.get("op") == "copy-config":
        soup, sc = build(c["recipe"])
        bad = copied_soup_config_failures(soup, sc)
        for nm, got, want in bad:
            print(f"copy.new_tag({nm!r}).interesting_string_types: implementation {got}, property demands {want}")
        return 1 if bad else 0
    if c.get("op") in ("config", "interesting", "string_container"):
        # these streams are deterministic and order-dependent (state leaking between objects shows only in sequence): rerun them
        from .common import Ctx as _Ctx
        c2 = _Ctx("C13", "quick", 0)
        stream_string_container(c2)
        stream_config(c2)
        hits = [x for x in c2.violations if not x.get("no_failing_input_found")]
        same = [x for x in hits if {k: x["case"].get(k) for k in c if k != "line"} == {k: c.get(k) for k in c if k != "line"}]
        for x in (same or hits)[:3]:
            print(json.dumps(x["case"]), "| implementation:", x["observed"], "| property demands:", x["expected"])
        print(f"{len(hits)} failing case(s) in the configuration streams; the recorded case {'fails again' if same else 'does not fail in this run'}")
        return 1 if hits else 0
    if c.get("op") == "tree-iter":
        rc_ = c["recipe"]
        soup, sc = build({k: v for k, v in rc_.items() if k != "iter"})
        it = rc_["iter"]
        print("tree:", ascii(soup.decode()))
        got, want, ok = tree_iter_run(soup, tuple(it["path"]), types_from_desc(it["types"]), it["edits"])
        print(f"for s in <element at path {it['path']}>." + ("strings" if it["types"] == ["d"] else f"_all_strings(False, types={it['types']})")
              + f": edit s by {it['edits']} (in turn)")
        print("implementation handed out:", [ascii(x) for x in got])
        print("property demands:        ", [ascii(x) for x in want])
        return 0 if ok else 1
    if c.get("op") == "heap-iter":
        w = run_heap_case(None, c)
        if w is None or c["receiver"] not in w.objs:
            print("the recorded history no longer runs to the end on this tree")
            return 1
        o = w.objs[c["receiver"]]
        got, final, want = heap_iter_run(w, c["receiver"], o, types_from_desc(c["types"]), c["edits"])
        print("history:", c["kinds"], ";".join(c["ops"]), "classes:", c["classes"])
        print(f"for s in {c['receiver']}._all_strings(False, types={c['types']}): edit s by", c["edits"][:max(1, len(want))], "(in turn; $ = s)")
        print("implementation handed out:", got)
        print("property demands:        ", want)
        return 0 if got == want else 1
    if c.get("op") == "heap":
        w = run_heap_case(None, c)
        if w is None:
            print("the recorded history no longer runs to the end on this tree")
            return 1
        o = w.objs.get(c["receiver"])
        if o is None:
            print("receiver", c["receiver"], "does not exist after the history")
            return 1
        qd = c["query"]
        q = (qd[0],) if len(qd) == 1 else (("A", qd[1], types_from_desc(qd[2])) if qd[0] == "A" else ("G", qd[1], types_from_desc(qd[2]), qd[3]))
        tok, real, want, ident = heap_query(w, c["receiver"], o, q)
        print("history:", c["kinds"], ";".join(c["ops"]), "classes:", c["classes"])
        print("receiver:", c["receiver"], "query:", qd)
        print("implementation:", real)
        print("property demands:", want, "" if ident else "(and the very string objects of the tree)")
        return 0 if (real == want and ident) else 1
    if c.get("op") == "ancestor-rule":
        soup, sc = build(c["recipe"] if c["recipe"].get("post") else c["recipe"] | {"ops": []})
        bad = ancestor_rule_failures(soup, sc)
        print("markup:", ascii(c["recipe"]["markup"]), "config:", c["recipe"]["config"], "builder object:", c["recipe"].get("builder"),
              "post:", c["recipe"].get("post"))
        for path, got, want in bad:
            print(f"string at path {path}: implementation class {got}, property demands {want}")
        return 1 if bad else 0
    if c.get("op") == "interesting":
        e = E()
        kwargs, sc = config_containers(c["config"])
        soup = e["BeautifulSoup"]("", "html.parser", **kwargs)
        t = soup.new_tag(c["name"])
        got = sorted(k.__name__ for k in t.interesting_string_types)
        want = sorted(expected_interesting(sc, c["name"])[1])
        print(f"new_tag({c['name']!r}) with string_containers config {c['config']!r}")
        print("implementation: interesting_string_types =", got)
        print("property demands:", want)
        return 0 if got == want else 1
    if c.get("op") == "string_container":
        e = E()
        cl = e["cls"]
        kwargs, sc = config_containers(c["config"])
        ec = c["element_classes"]
        soup = e["BeautifulSoup"]("", "html.parser", element_classes={cl[a]: cl[b] for a, b in ec.items()}, **kwargs)
        soup.string_container_stack = [soup.new_tag(c["top"])] if c["top"] is not None else []
        got = soup.string_container(None if c["base"] is None else cl[c["base"]]).__name__
        print(f"string_container({c['base']}) inside <{c['top']}> with config {c['config']!r}, element_classes {ec}")
        print("implementation:", got)
        print("property demands / model:", v.get("expected") or v.get("model_reply"))
        return 0 if got == v.get("expected") else 1
    print(json.dumps(v, indent=1))
    return 1
