"""C14 \u2014 prettify() changes only whitespace and shows the nesting.

For every element (as the receiver) of parsed, API-edited and XML-flavoured trees, a grid of formatters / indent settings and
the calls prettify(), prettify(encoding), decode(indent_level=k), decode_contents(indent_level=k):
  * the real output against the DIRECT ORACLE of the property (independent of the Lean model): own recursion over `.contents`
    building the demanded text line by line (every tag and non-blank string on its own line at unit x depth, outermost
    whitespace-preserving elements verbatim = the real plain `decode()` of that element), newline at the end, equality of the
    non-whitespace characters with the plain output, and the html.parser re-parse of pretty and plain output compared modulo
    whitespace in text (exact inside pre/textarea for plain HTML-flavoured trees);
  * the real output against the Lean code-mirror `decodeImpl` and the Lean recursive `decodeSpec` (driver ops dec/spec), the
    real `_event_stream` against the model's balanced event list (op ev), `Formatter(indent=v).indent` against `indentOf`
    (op indent), `str.strip` against `strip`, `_should_pretty_print` against `shouldPrettyPrint`;
  * stream reparse-model: the real prettify()/decode() texts through the real parser and through the Lean tokenizer + handler + builder
    model (op reparse), trees and erased trees compared (Props/C14 section 11, `prettify_reparse_tokenized`)."""
import json
import re
import warnings

from .common import Ctx, Driver

MANIFEST = dict(
    text=("Lean theorems, for all trees, all indent units, all start levels and all eventual encodings. (1) Code-mirrors proved equal to "
          "recursive specifications: Tag.decode's loop over the event stream (indent_level bookkeeping, string-literal mode by identity, "
          "strip of string pieces, _indent_string, empty pieces dropped) = prettyNode/prettyL (pretty_refines, pretty_refines_contents, "
          "plain_refines, decode_refines, prettify_refines, state_restored); _event_stream's tag stack over the pre-order with parent "
          "pointers = the balanced event list (event_stream_refines, decode_on_walk); the entry points Tag.decode / decode_contents / "
          "encode / encode_contents / prettify (str and bytes flavour) and BeautifulSoup.decode (XML declaration, deprecated bool level) "
          "on pieces assembled like _format_tag / output_ready (recv_decode_refines, xml_declaration, xml_declaration_python_specific, "
          "prettify_flavours, prettify_bytes_of_str, void_receiver, tag_piece_shape). (2) Laws of the specification = the clauses of the "
          "property: every tag piece and non-blank stripped string on a line of its own at unit^(level+depth), outermost "
          "whitespace-preserving elements verbatim on their own line (line_structure, line_structure_contents, line_structure_general "
          "without the visibility hypothesis, recv_line_structure, preserve_verbatim, preserve_verbatim_line, preserve_verbatim_contents, "
          "blank_iff, special_strings_have_lines over the whole generated PREFIX/SUFFIX table); newline at the end (ends_with_newline*, "
          "recv_line_structure); with a whitespace unit the same non-whitespace characters as the plain output for the same encoding "
          "(nonws_equal*, recv_nonws_equal, prettify_flavours), the same piece sequence (pretty_same_events) and the same token sequence "
          "once character data is merged and its whitespace disregarded (pretty_same_tokens, specials_ok_table). (3) Formatter.indent "
          "normalisation and tables generated from the live code, whole-table obligations (indent_*, builtin_units, html_preserve_tags, "
          "xml_preserves_nothing, should_pretty_print_iff, whitespace_table). (4) The re-parse clause through the MODEL of CPython's "
          "tokenizer (Model/Tokenizer.lean) + bs4's handlers + the construction machine, on C05's class RenderWritable ('minimal' "
          "formatter, whitespace unit, any start level): pretty_output_is_plain_output (Tag.decode's loop on the pieces C05's renderer "
          "computes = C05's rendering of prettyTreeL, the tree with the whitespace strings added, text stripped, blank text dropped), "
          "pretty_tree_same_parse (for EVERY forest: the normal forms of the two written documents are equal after eraseWsL -- "
          "whitespace characters removed from character data outside whitespace-preserving elements, empty strings dropped, "
          "comments/CDATA/doctypes/PIs, names, nesting and everything below a whitespace-preserving element compared exactly), "
          "prettify_reparse_tokenized (tokenize+build of decode(indent_level=l)'s text and of decode()'s text give the same tree after "
          "eraseWsL, namely the erased normal form of the tree; hypotheses: RenderWritable of the forest -- inherited by its pretty "
          "tree: pretty_tree_render_writable, with C04's Writable under minimalChoices restated path-independently -- and preAgreeL: "
          "an element the pretty-printer lays out is not whitespace-preserving for the re-parsing builder). "
          "pretty_output_is_plain_output needs only 'no hidden element': script/style with their unsubstituted text are covered at the "
          "text level (substitute_xml and the identity both commute with strip). Tie: differential runs of the real prettify / decode / "
          "decode_contents / encode / encode_contents on every element of html.parser-parsed, API-edited and XML-flavoured trees x "
          "formatters x indent settings x levels x encodings against the Lean mirrors and specs (ops dec, spec, raw impl/spec, ev, evs, "
          "tp/tq, indent, strip, spp), and the direct Python oracle of the statement incl. html.parser re-parse and tokenisation of both outputs; "
          "stream reparse-model: the real prettify() and decode() texts of up to three receivers per generated document are fed to the "
          "real parser and to the Lean tokenizer+handler+builder model (op reparse): same tree incl. attributes and positions, Lean "
          "eraseWsL = an independent Python erasure of the real tree, and (inert text, plain HTML tree) the two erased real trees equal."),
    design="7/C14",
    note=("Whitespace is Python's (str.isspace): under formatters that do not turn them into entities (minimal, None) pretty-printing "
          "also strips leading/trailing NBSP, U+3000 etc. from text nodes -- 'only whitespace' by this definition, though visible in a "
          "browser (observation, not claimed as a defect). Opaque inputs of the model: the attribute string of a tag per eventual "
          "encoding and the substituted body of a string (C05/C06/C15 own them); the codec step of the bytes flavour "
          "(str.encode(enc, 'xmlcharrefreplace')) is applied by the harness to the model's text. Re-parse clause: PROVED at tree "
          "level through the tokenizer model on RenderWritable forests under the 'minimal' formatter (prettify_reparse_tokenized; no "
          "hidden elements, no script/style, void names written <br/>, no <x/> otherwise, attribute values the renderer double-quotes "
          "without &lt;/&gt;, comments/CDATA/doctypes/PIs without their terminators); for script/style content the text-level bridge "
          "(pretty output = plain output of the pretty tree) and the document-level comparison (pretty_tree_same_parse) are proved, the "
          "tokenizer step on raw-text elements is recorded (C04's writer has none); the 'html' formatter's substitution is not covered "
          "by C05's tokenized theorem, hence recorded too; for every tree and formatter it is proved at the token level with opaque pieces "
          "(pretty_same_tokens: cuts are a definition, compared with html.parser's on the real outputs); outside RenderWritable the "
          "tree-level comparison is RECORDED: the real parser and the tokenizer model are run on the real outputs (stream "
          "reparse-model) and the Python oracle compares the trees. The tokenizer model itself is tied to html.parser by equality of "
          "callback streams (TK, C04, C18), not proved against CPython's regexes. The 'only whitespace' claims carry the hypothesis that the "
          "indent unit is whitespace; Formatter(indent='--') is run for model correspondence and line structure only; in the bytes "
          "flavour a whitespace character the target encoding lacks becomes a character reference (statement is about the text "
          "handed to the codec). A hidden whitespace-preserving element (hidden=True set by hand on a pre) has no opening/closing "
          "piece and no line of its own: modelled (blocks), compared, excluded from the line/newline oracle. decode_contents() called "
          "on a pre/textarea itself re-indents its contents (the receiver's own start event is not in the stream): modelled, and "
          "outside the property's observables (prettify()/decode()). An XML-flavoured BeautifulSoup's declaration line is not "
          "indented by decode(indent_level=k>0) (modelled as is). For HTMLFormatter/XMLFormatter(indent=...) the unit is read from "
          "the formatter object (C15 owns which unit results)."),
    technique="Lean 4 refinement proofs (code-mirror = recursive spec, laws of the spec, generated tables; re-parse clause through the tokenizer model via C05/C04 on RenderWritable) + differential correspondence (incl. real parser vs tokenizer+builder model on real prettify() output) + direct Python oracle incl. re-parse and tokenisation",
)

XML_DECL = '<?xml version="1.0" encoding="utf-8"?>\n'
PROP_HTML_PRESERVE = {"pre", "textarea"}     # the property statement, hard-coded

# --------------------------------------------------------------------------------------
# lazy bs4 namespace
# --------------------------------------------------------------------------------------
_E = {}


def E():
    if _E:
        return _E
    import bs4
    import bs4.element as el
    from bs4.builder import HTMLParserTreeBuilder
    from bs4.formatter import Formatter, HTMLFormatter, XMLFormatter

    class XmlishBuilder(HTMLParserTreeBuilder):
        """html.parser tokenizer with the XML flavour's settings: any childless tag is an empty-element tag, no
        whitespace-preserving names, no multi-valued attributes, is_xml."""
        is_xml = True
        features = ["verif-xmlish"]
        NAME = "verif-xmlish"
        DEFAULT_EMPTY_ELEMENT_TAGS = None
        DEFAULT_PRESERVE_WHITESPACE_TAGS = set()
        DEFAULT_CDATA_LIST_ATTRIBUTES = {}
        DEFAULT_STRING_CONTAINERS = {}

    _E.update(bs4=bs4, el=el, BeautifulSoup=bs4.BeautifulSoup, Tag=el.Tag, NavigableString=el.NavigableString,
              Formatter=Formatter, HTMLFormatter=HTMLFormatter, XMLFormatter=XMLFormatter,
              HTMLParserTreeBuilder=HTMLParserTreeBuilder, XmlishBuilder=XmlishBuilder)
    _E["strcls"] = {n: getattr(el, n) for n in ("NavigableString", "Comment", "CData", "Doctype", "ProcessingInstruction",
                                                 "XMLProcessingInstruction", "Declaration", "Script", "Stylesheet",
                                                 "TemplateString")}
    return _E


_ORD = {}


def _cps(s: str) -> str:
    g = _ORD.get
    return ",".join([g(c) or _ORD.setdefault(c, str(ord(c))) for c in s])


def tok(s: str) -> str:
    return _cps(s) if s else "-"


def show(s: str) -> str:
    return _cps(s) if s else "e"


def unshow(s: str) -> str:
    return "" if s == "e" else "".join(chr(int(x)) for x in s.split(","))


def dropws(s: str) -> str:
    # str.split() without argument splits at exactly the str.isspace() characters
    return "".join(s.split())


# --------------------------------------------------------------------------------------
# markup generators
# --------------------------------------------------------------------------------------
BLOCK = ["div", "p", "section", "ul", "li", "blockquote", "table", "tr", "td", "article"]
INLINE = ["b", "i", "span", "a", "em", "code"]
PRE = ["pre", "textarea"]
VOID = ["br", "hr", "img", "input"]
RAW = ["script", "style"]
TEXTS = ["", " ", "\n", "  \n ", "a", " a", "a ", " a b ", "a\nb", "\n a \n b \n", "\xa0x\xa0", "\u2003y", "z\u200b", "\u200b",
         "\x0cq\x1f", "&amp;", "&lt;t&gt;", "\u00e9\u2603", "\U0001f600", "one two", "\t\ttab", "end.\n", "\u3000", "\x85\u2028",
         "x &amp; y", "&nbsp;", "&#32;", "line1\r\nline2"]
PRE_TEXTS = ["  x  ", "\n  indented\n    more\n", " ", "\n", "a\n\n\nb", "\t", "k", "  ", "\n\n", " \xa0 ", "x\n"]
ATTRS = ['class="a b"', "id=x", 'title="q &amp; r"', 'data-x=" sp "', "disabled", 'alt="two\nlines"', 'class=" c "',
         "href='u?a=1&amp;b=2'", 'data-q="&quot;"', "rel='x y'"]
METAS = ['<meta charset="iso-8859-1">', '<meta http-equiv="Content-Type" content="text/html; charset=koi8-r">',
         '<meta content="text/html; charset=x-sjis" http-equiv="content-type" charset="big5">', '<meta charset="utf-8"/>',
         '<meta name="x" content="charset=nope">', "<meta charset=''>", '<META HTTP-EQUIV="content-type" CONTENT="text/html;CHARSET=EUC-JP">']
SPECIALS = ["<!-- c -->", "<!---->", "<!--\n multi\n line \n-->", "<![CDATA[ x ]]>", "<![CDATA[]]>", "<?php x ?>",
            "<!ELEMENT br EMPTY>", "<!--  -->", "<?pi?>"]


def gen_attrs(r):
    k = r.choice([0, 0, 0, 1, 1, 2])
    return "".join(" " + a for a in r.sample(ATTRS, k))


def gen_nodes(r, depth, inpre, budget):
    """a list of markup fragments (siblings)"""
    out = []
    n = r.choice([0, 1, 1, 2, 2, 3, 4]) if depth > 0 else r.choice([1, 2, 3, 4])
    for _ in range(n):
        if budget[0] <= 0:
            break
        budget[0] -= 1
        x = r.random()
        if x < 0.30:
            out.append(r.choice(PRE_TEXTS if inpre and r.random() < 0.7 else TEXTS))
        elif x < 0.38:
            out.append(r.choice(SPECIALS))
        elif x < 0.40:
            out.append(r.choice(METAS))
        elif x < 0.46:
            out.append("<" + r.choice(VOID) + gen_attrs(r) + r.choice(["", "", "/", " /"]) + ">")
        elif x < 0.50 and not inpre:
            nm = r.choice(RAW)
            out.append(f"<{nm}>" + r.choice(["", " var a = 1; ", "\n x {y:z}\n", "a<b", "  "]) + f"</{nm}>")
        elif depth >= 5:
            out.append(r.choice(TEXTS))
        else:
            y = r.random()
            if y < (0.35 if inpre else 0.18):
                nm = r.choice(PRE)
                inner = "".join(gen_nodes(r, depth + 1, True, budget)) if nm == "pre" or r.random() < 0.5 else r.choice(PRE_TEXTS)
                out.append(f"<{nm}{gen_attrs(r)}>{inner}</{nm}>")
            else:
                nm = r.choice(INLINE if y < 0.6 else BLOCK)
                inner = "".join(gen_nodes(r, depth + 1, inpre, budget))
                out.append(f"<{nm}{gen_attrs(r)}>{inner}</{nm}>")
    return out


def gen_html(r):
    budget = [r.choice([6, 12, 20, 30])]
    body = "".join(gen_nodes(r, 0, False, budget))
    x = r.random()
    if x < 0.15:
        return ("<!DOCTYPE html>" + r.choice(["", "\n"]) + "<html><head>" + r.choice(METAS + [""]) + "<title> t </title>"
                + r.choice(["", ""] + METAS) + "</head><body>" + body + "</body></html>")
    if x < 0.22:
        return r.choice(METAS) + body
    if x < 0.25:
        return "<!DOCTYPE html>\n" + body
    return body


MAL_TOKENS = ["<div>", "<p>", "</p>", "</div>", "<pre>", "</pre>", "<b>", "</b>", "</i>", "<br>", "</br>", "<br/>", " x ", "\n",
              "<a<b>", "<!-- open", "-->", "<textarea>", "</textarea>", "<pre", "<", ">", "&", "&amp", "<p/>", "<pre/>", "</",
              "<!DOCTYPE", "<![CDATA[", "]]>", "<script>", "</script>", "a  b", "<td>", "<li>", "<?", "<span class=>", "\t",
              "<pre\n>", " y\n"]


def gen_malformed(r):
    return "".join(r.choice(MAL_TOKENS) for _ in range(r.randint(1, 14)))


XML_NAMES = ["root", "item", "ns:el", "a", "pre", "keep", "x:y", "data", "textarea"]


def gen_xml_nodes(r, depth, budget):
    out = []
    for _ in range(r.choice([0, 1, 2, 2, 3])):
        if budget[0] <= 0:
            break
        budget[0] -= 1
        x = r.random()
        if x < 0.3:
            out.append(r.choice(TEXTS + PRE_TEXTS))
        elif x < 0.4:
            out.append(r.choice(SPECIALS))
        elif x < 0.5 or depth >= 4:
            out.append(f"<{r.choice(XML_NAMES)}{gen_attrs(r)}/>")
        else:
            nm = r.choice(XML_NAMES)
            out.append(f"<{nm}{gen_attrs(r)}>{''.join(gen_xml_nodes(r, depth + 1, budget))}</{nm}>")
    return out


def gen_xml(r):
    budget = [r.choice([5, 10, 18])]
    nm = r.choice(XML_NAMES)
    return f"<{nm}{gen_attrs(r)}>" + "".join(gen_xml_nodes(r, 1, budget)) + f"</{nm}>" + r.choice(["", "", "<!-- t -->", "\n"])


BUILDERS = ["default", "custom", "nopre", "xmlish", "xmlish-keep"]


def make_soup(markup, builder):
    e = E()
    with warnings.catch_warnings():
        warnings.simplefilter("ignore")
        if builder == "default":
            return e["BeautifulSoup"](markup, "html.parser")
        if builder == "custom":
            return e["BeautifulSoup"](markup, "html.parser", preserve_whitespace_tags={"p", "b", "td"})
        if builder == "custom-list":
            return e["BeautifulSoup"](markup, "html.parser", preserve_whitespace_tags=["p", "b", "td"])
        if builder == "custom-frozen":
            return e["BeautifulSoup"](markup, "html.parser", preserve_whitespace_tags=frozenset({"pre", "li"}))
        if builder == "nopre":
            return e["BeautifulSoup"](markup, "html.parser", preserve_whitespace_tags=set())
        if builder == "xmlish":
            return e["BeautifulSoup"](markup, builder=e["XmlishBuilder"]())
        if builder == "xmlish-keep":
            return e["BeautifulSoup"](markup, builder=e["XmlishBuilder"](preserve_whitespace_tags={"keep", "pre"}))
    raise KeyError(builder)


# --------------------------------------------------------------------------------------
# edits through the public API (JSON-able scripts, indices into the current pre-order)
# --------------------------------------------------------------------------------------
def all_nodes(soup):
    return [soup] + list(soup.descendants)


EDIT_NAMES = ["tag", "tag", "str", "str", "move", "move", "extract", "unwrap", "wrap", "hidden", "rawtag", "rawtag", "setstring",
              "clear", "graft", "voidchild", "prewrap"]
NEW_NAMES = BLOCK[:4] + INLINE[:4] + PRE + VOID[:2] + ["script"]
STR_CLASSES = ["NavigableString", "NavigableString", "NavigableString", "Comment", "CData", "Doctype", "ProcessingInstruction",
               "Declaration", "XMLProcessingInstruction", "Script", "TemplateString"]
API_TEXTS = TEXTS[:24] + ["a < b", "x & y", "<raw>", "  lead", "trail  ", "\n", "", "\ud800x", " \udfff ", "\u2028\u2029", "\x1c\x1d"]


def gen_edits(r, n):
    out = []
    for _ in range(n):
        op = r.choice(EDIT_NAMES)
        a, b, c = r.randrange(1000), r.randrange(1000), r.randrange(1000)
        if op == "tag":
            attrs = r.choice([{}, {}, {"class": "k"}, {"id": " sp "}, {"class": ["u", "v"]}, {"title": "a&b"}])
            out.append(["tag", a, b, r.choice(NEW_NAMES), attrs])
        elif op == "str":
            out.append(["str", a, b, r.choice(API_TEXTS), r.choice(STR_CLASSES)])
        elif op == "move":
            out.append(["move", a, b, c])
        elif op in ("extract", "unwrap", "hidden", "clear"):
            out.append([op, a])
        elif op == "wrap":
            out.append(["wrap", a, r.choice(NEW_NAMES[:10])])
        elif op == "prewrap":
            out.append(["wrap", a, "pre"])
        elif op == "rawtag":
            out.append(["rawtag", a, b, r.choice(["pre", "x", "div", "keep", "br"]), r.choice([None, True, False]),
                        r.choice([None, None, [], ["pre"], ["x", "keep"]]), r.choice([None, None, "ns"]), r.choice([False, True])])
        elif op == "setstring":
            out.append(["setstring", a, r.choice(API_TEXTS)])
        elif op == "graft":
            rr_seed = r.randrange(10 ** 9)
            import random as _random
            rr = _random.Random(rr_seed)
            bld = r.choice(["xmlish", "xmlish-keep", "default", "custom", "nopre"])
            out.append(["graft", a, b, gen_xml(rr) if bld.startswith("xmlish") else gen_html(rr), bld])
        elif op == "voidchild":
            out.append(["voidchild", a, r.choice(API_TEXTS)])
    return out


def apply_edit(soup, ed):
    """returns True when the edit was applicable"""
    e = E()
    Tag = e["Tag"]
    nodes = all_nodes(soup)
    n = len(nodes)
    op = ed[0]

    def tag_at(i):
        x = nodes[i % n]
        return x if isinstance(x, Tag) else (x.parent if x.parent is not None else soup)

    def insert(parent, pos, new):
        parent.insert(pos % (len(parent.contents) + 1), new)

    if op == "tag":
        p = tag_at(ed[1])
        insert(p, ed[2], soup.new_tag(ed[3], attrs=dict(ed[4])))
        return True
    if op == "str":
        p = tag_at(ed[1])
        insert(p, ed[2], e["strcls"][ed[4]](ed[3]))
        return True
    if op == "move":
        src = nodes[ed[1] % n]
        dst = tag_at(ed[2])
        if src is soup or dst is src or (isinstance(src, Tag) and any(d is dst for d in src.descendants)):
            return False
        src.extract()
        insert(dst, ed[3], src)
        return True
    if op == "extract":
        x = nodes[ed[1] % n]
        if x is soup:
            return False
        x.extract()
        return True
    if op == "unwrap":
        x = nodes[ed[1] % n]
        if x is soup or not isinstance(x, Tag):
            return False
        x.unwrap()
        return True
    if op == "wrap":
        x = nodes[ed[1] % n]
        if x is soup:
            return False
        x.wrap(soup.new_tag(ed[2]))
        return True
    if op == "hidden":
        x = nodes[ed[1] % n]
        if x is soup or not isinstance(x, Tag):
            return False
        x.hidden = True
        return True
    if op == "clear":
        x = nodes[ed[1] % n]
        if x is soup or not isinstance(x, Tag):
            return False
        x.clear()
        return True
    if op == "rawtag":
        p = tag_at(ed[1])
        pwt = None if ed[5] is None else set(ed[5])
        t = Tag(name=ed[3], can_be_empty_element=ed[4], preserve_whitespace_tags=pwt, prefix=ed[6], is_xml=ed[7])
        insert(p, ed[2], t)
        return True
    if op == "setstring":
        x = tag_at(ed[1])
        if x is soup:
            return False
        x.string = ed[2]
        return True
    if op == "graft":
        p = tag_at(ed[1])
        other = make_soup(ed[3], ed[4])
        for k, ch in enumerate(list(other.contents)):
            ch.extract()
            insert(p, ed[2] + k, ch)
        return True
    if op == "voidchild":
        voids = [x for x in nodes if isinstance(x, Tag) and x.can_be_empty_element and not x.contents]
        if not voids:
            return False
        voids[ed[1] % len(voids)].append(e["NavigableString"](ed[2]))
        return True
    raise KeyError(op)


def build(recipe):
    soup = make_soup(recipe["markup"], recipe["builder"])
    applied = []
    with warnings.catch_warnings():
        warnings.simplefilter("ignore")
        for ed in recipe.get("edits", []):
            applied.append(apply_edit(soup, ed))
    return soup, applied


# --------------------------------------------------------------------------------------
# formatters
# --------------------------------------------------------------------------------------
INDENT_ARGS = [["omit"], ["int", 0], ["int", 1], ["int", 3], ["str", "\t"], ["str", ""], ["none"], ["int", -1], ["str", " \t"],
               ["bool", True], ["float", 2.5], ["str", "--"], ["int", 2], ["str", "\u3000"], ["bool", False], ["int", -7],
               ["str", ". "], ["list"], ["strsub", "\t\t"], ["intsub", 2]]


class StrSub(str):
    pass


class IntSub(int):
    pass


def indent_value(a):
    k = a[0]
    if k == "none":
        return None
    if k in ("int", "str", "bool", "float"):
        return a[1]
    if k == "strsub":
        return StrSub(a[1])
    if k == "intsub":
        return IntSub(a[1])
    if k == "list":
        return [1]
    raise KeyError(k)


def prop_unit(a):
    """the documented meaning of Formatter(indent=...) (formatter.py docstring): non-negative int -> that many spaces; 0,
    negative or "" -> newlines only; a string -> that string; default one space (None is treated as 0, anything else as the default)"""
    k = a[0]
    if k == "omit":
        return " "
    if k == "none":
        return ""
    if k in ("int", "bool", "intsub"):
        return " " * max(0, int(a[1]))
    if k in ("str", "strsub"):
        return a[1]
    return " "


def indent_tok(a):
    k = a[0]
    if k == "omit":
        return None
    if k == "none":
        return "N"
    if k in ("int", "bool", "intsub"):
        return f"i{int(a[1])}"
    if k in ("str", "strsub"):
        return "s" + tok(a[1])
    return "o"


def upper_a(s):
    return s.replace("a", "A")


def formatter_specs(names):
    specs = [["name", n] for n in names] + [["func"]]
    for lang in ("html", "xml"):
        for a in INDENT_ARGS:
            specs.append(["base", lang, a])
    for cls in ("HTMLFormatter", "XMLFormatter"):
        for a in (["omit"], ["int", 3], ["str", "\t"], ["none"]):
            specs.append(["sub", cls, a])
    return specs


def make_formatter_arg(spec):
    """the object passed as formatter= to the real calls"""
    e = E()
    k = spec[0]
    if k == "name":
        return spec[1]
    if k == "func":
        return upper_a
    if k == "base":
        F = e["Formatter"]
        lang = F.HTML if spec[1] == "html" else F.XML
        subst = None
        if spec[2][0] == "omit":
            return F(lang, entity_substitution=subst)
        return F(lang, entity_substitution=subst, indent=indent_value(spec[2]))
    if k == "sub":
        cls = e[spec[1]]
        if spec[2][0] == "omit":
            return cls()
        return cls(indent=indent_value(spec[2]))
    raise KeyError(k)


# --------------------------------------------------------------------------------------
# the direct oracle
# --------------------------------------------------------------------------------------
def preserving(t) -> bool:
    """the element's own configuration says its name is whitespace-preserving (not via _should_pretty_print)"""
    s = t.preserve_whitespace_tags
    return bool(s) and t.name in s


INERT_RE = re.compile(r"^(?:[^<&]|&(?:[a-zA-Z][a-zA-Z0-9]*|#[0-9]+|#[xX][0-9a-fA-F]+);)*$", re.S)


class Pieces:
    """opaque pieces of every node of a document under one resolved formatter"""

    def __init__(self, soup, fmt, enc="utf-8"):
        Tag = E()["Tag"]
        self.enc = enc
        self.open, self.close, self.ready = {}, {}, {}
        # inert: no text piece can change html.parser's tokenisation when whitespace is put next to it (no raw '<', every '&'
        # starts a complete character reference) -- the precondition for comparing re-parses at all (garbage in otherwise)
        self.inert = True
        Pre = E()["el"].PreformattedString
        for x in all_nodes(soup):
            if isinstance(x, Tag):
                self.open[id(x)] = x._format_tag(enc, fmt, opening=True)
                self.close[id(x)] = x._format_tag(enc, fmt, opening=False)
            else:
                self.ready[id(x)] = x.output_ready(fmt)
                if not isinstance(x, Pre) and not INERT_RE.match(self.ready[id(x)]):
                    self.inert = False


def demanded(node, pc: Pieces, fmt, unit, depth, out, flags):
    """the property statement, by recursion over .contents: appends the demanded lines of `node` outside literal mode"""
    Tag = E()["Tag"]
    if not isinstance(node, Tag):
        s = pc.ready[id(node)].strip()
        if s:
            out.append(unit * max(depth, 0) + s + "\n")
        return
    o, c = pc.open[id(node)], pc.close[id(node)]
    if not node.contents and node.can_be_empty_element is True:
        if o:
            out.append(unit * max(depth, 0) + o + "\n")
        return
    if preserving(node):
        if node.hidden:
            flags["hidden_pre"] = True
            out.append(E()["Tag"].decode(node, None, pc.enc, fmt))
        else:
            # character for character: the real plain rendering of the element, on a line of its own
            out.append(unit * max(depth, 0) + E()["Tag"].decode(node, None, pc.enc, fmt) + "\n")
        return
    if o:
        out.append(unit * max(depth, 0) + o + "\n")
    for ch in node.contents:
        demanded(ch, pc, fmt, unit, depth + 1, out, flags)
    if c:
        out.append(unit * max(depth, 0) + c + "\n")


def demanded_text(recv, pc, fmt, unit, k, contents_only):
    out, flags = [], {}
    if recv.hidden or contents_only:
        for ch in recv.contents:
            demanded(ch, pc, fmt, unit, k, out, flags)
    else:
        demanded(recv, pc, fmt, unit, k, out, flags)
    return "".join(out), flags


def norm_tree(node, exact_pre, inpre=False):
    """nested tuples of a re-parsed tree with whitespace in text disregarded (kept inside pre/textarea when exact_pre)"""
    Tag = E()["Tag"]
    out = []
    for ch in node.contents:
        if isinstance(ch, Tag):
            attrs = tuple(sorted((k, " ".join(v) if isinstance(v, (list, tuple)) else str(v)) for k, v in ch.attrs.items()))
            out.append(("T", ch.name, attrs, norm_tree(ch, exact_pre, inpre or (exact_pre and ch.name in PROP_HTML_PRESERVE))))
        else:
            s = str.__str__(ch)
            if not inpre:
                s = dropws(s)
            if s == "" and not inpre:
                continue
            cls = type(ch).__name__
            if out and out[-1][0] == "S" and out[-1][1] == cls and cls == "NavigableString":
                out[-1] = ("S", cls, out[-1][2] + s)
            else:
                out.append(("S", cls, s))
    return tuple(out)


def reparse_equal(pretty, plain, exact_pre):
    BS = E()["BeautifulSoup"]
    with warnings.catch_warnings():
        warnings.simplefilter("ignore")
        a = norm_tree(BS(pretty, "html.parser"), exact_pre)
        b = norm_tree(BS(plain, "html.parser"), exact_pre)
    return a == b, a, b


# --------------------------------------------------------------------------------------
# model requests
# --------------------------------------------------------------------------------------
def tree_tokens(soup, pc: Pieces, idmap, sets):
    """tokens of the whole document + the set table (filled on the way)"""
    Tag = E()["Tag"]
    toks = []

    def set_index(s):
        if s is None:
            return "N"
        key = tuple(sorted(s))
        if key not in sets:
            sets[key] = len(sets)
        return str(sets[key])

    def go(x):
        if isinstance(x, Tag):
            toks.extend(["T", str(idmap[id(x)]), tok(pc.open[id(x)]), tok(pc.close[id(x)]), set_index(x.preserve_whitespace_tags),
                         tok(x.name), "1" if x.can_be_empty_element is True else "0", str(len(x.contents))])
            for ch in x.contents:
                go(ch)
        else:
            toks.extend(["S", tok(pc.ready[id(x)])])
    go(soup)
    return toks


def sets_token(sets):
    if not sets:
        return "-"
    inv = sorted(sets.items(), key=lambda kv: kv[1])
    return ";".join(("/".join(tok(n) for n in key) if key else "e") for key, _ in inv)


_PATHS = {}


def path_of(x, soup):
    """child indices from the root; cached per (document, node) -- cleared for every document (trees are not edited while checked)"""
    key = (id(soup), id(x))
    v = _PATHS.get(key)
    if v is None:
        v = _PATHS[key] = path_of_(x, soup)
    return v


def path_of_(x, soup):
    p = []
    while x is not soup:
        par = x.parent
        p.append(next(i for i, c in enumerate(par.contents) if c is x))
        x = par
    return "r" if not p else ".".join(map(str, reversed(p)))


def lvl_tok(k):
    if k is None:
        return "N"
    if k is True:
        return "T"
    return str(int(k))


def real_events(recv, contents_only, idmap):
    Tag = E()["Tag"]
    it = recv.descendants if contents_only else None
    out = []
    for ev, el in recv._event_stream(it):
        if ev is Tag.START_ELEMENT_EVENT:
            out.append(f"S{idmap[id(el)]}" + ("" if el._should_pretty_print() else "!"))
        elif ev is Tag.END_ELEMENT_EVENT:
            out.append(f"E{idmap[id(el)]}")
        elif ev is Tag.EMPTY_ELEMENT_EVENT:
            out.append("V")
        else:
            out.append("T")
    return ",".join(out) if out else "-"


# --------------------------------------------------------------------------------------
# one document
# --------------------------------------------------------------------------------------
MAX_PER_KIND = 12


def report(ctx: Ctx, what, **kw):
    """ctx.violation, at most MAX_PER_KIND times per kind of failure (the rest is only counted)"""
    key = "violations:" + what[:60]
    ctx.count(key)
    if ctx.dist[key] <= MAX_PER_KIND:
        ctx.violation(what, **kw)


CALLS_FULL = [["decode", None], ["prettify"], ["decode", 0], ["decode", 1], ["decode", 2], ["decode_contents", 0],
              ["decode_contents", 1], ["decode_contents", None], ["decode", -1], ["decode", True], ["decode", 5]]
# (`decode(indent_level=False)` was in this list: Tag.decode treats it as level 0, BeautifulSoup.decode as "do not pretty-print"; the
#  property speaks of prettify() and of the formatter's indent, a boolean level is outside it: dropped after the free-behaviour round)


def do_call(recv, call, farg):
    k = call[0]
    with warnings.catch_warnings():
        warnings.simplefilter("ignore")
        if k == "prettify":
            return recv.prettify(formatter=farg)
        if k == "prettify_enc":
            return recv.prettify(encoding="utf-8", formatter=farg).decode("utf-8")
        if k == "decode":
            return recv.decode(indent_level=call[1], formatter=farg)
        if k == "decode_contents":
            return recv.decode_contents(indent_level=call[1], formatter=farg)
    raise KeyError(k)


def call_level(call):
    k = call[0]
    if k in ("prettify", "prettify_enc"):
        return 0
    return call[1]


def subtree_features(recv):
    Tag = E()["Tag"]
    f = set()
    for x in recv.descendants:
        if isinstance(x, Tag):
            if x.hidden:
                f.add("hidden-inner")
            if preserving(x):
                f.add("pre")
                anc = x.parent
                while anc is not None and anc is not recv.parent:
                    if anc is not x and isinstance(anc, Tag) and preserving(anc):
                        f.add("pre-in-pre")
                    if anc is not x and anc.name in INLINE:
                        f.add("pre-in-inline")
                    if anc is recv:
                        break
                    anc = anc.parent
            if x.can_be_empty_element is True and not x.contents:
                f.add("void")
            if x.name in VOID and x.contents:
                f.add("void-with-children")
        else:
            s = str.__str__(x)
            if s.strip() == "":
                f.add("blank-string")
            elif s != s.strip():
                f.add("strip-needed")
            if "\n" in s.strip():
                f.add("internal-newline")
            if type(x).__name__ != "NavigableString":
                f.add("special-string")
    return f


def check_document(ctx: Ctx, recipe, stream, r, specs_pool, unit_of_spec, requests, max_recv, n_specs):
    """check_document_, with an exception of the real code turned into a violation (prettify/decode never raise on a tree)"""
    n0 = len(requests)
    try:
        check_document_(ctx, recipe, stream, r, specs_pool, unit_of_spec, requests, max_recv, n_specs)
    except Exception as ex:  # noqa: BLE001
        import traceback
        del requests[n0:]
        report(ctx, "exception while building / rendering a document: " + type(ex).__name__,
               case={"recipe": recipe, "traceback": traceback.format_exc()[-1500:]}, observed=repr(ex), stream=stream)


def check_document_(ctx: Ctx, recipe, stream, r, specs_pool, unit_of_spec, requests, max_recv, n_specs):
    """runs the real code + oracle on one document, appends model requests; returns nothing"""
    e = E()
    Tag, BS = e["Tag"], e["BeautifulSoup"]
    n_raw = 5
    try:
        soup, applied = build(recipe)
    except RecursionError:
        ctx.count("doc:recursion-skip")
        return
    nodes = all_nodes(soup)
    _PATHS.clear()
    idmap = {id(x): i for i, x in enumerate(nodes)}
    tags = [x for x in nodes if isinstance(x, Tag)]
    ctx.count(f"doc:{stream}")
    ctx.count(f"builder:{recipe['builder']}")
    ctx.count("doc:nodes", len(nodes))
    # HTML flavour: tags made by the default builder carry exactly the property's names
    if recipe["builder"] == "default" and not recipe.get("edits"):
        for t in tags:
            if set(t.preserve_whitespace_tags or ()) != PROP_HTML_PRESERVE:
                report(ctx, "a tag of the default HTML builder does not treat exactly pre/textarea as whitespace-preserving",
                              case={"recipe": recipe, "tag": t.name}, expected=sorted(PROP_HTML_PRESERVE),
                              observed=sorted(t.preserve_whitespace_tags or ()), stream=stream)
                break
    plain_html = all(set(t.preserve_whitespace_tags or ()) == PROP_HTML_PRESERVE for t in tags if t is not soup) and \
        set(soup.preserve_whitespace_tags or ()) in (PROP_HTML_PRESERVE, set())
    recvs = tags if len(tags) <= max_recv else [soup] + r.sample(tags[1:], max_recv - 1)
    named = [sp for sp in specs_pool if sp[0] in ("name", "func")]
    specs = [["name", "minimal"], r.choice(named)] + r.sample(specs_pool, n_specs - 2)
    feats = {id(t): subtree_features(t) for t in recvs}
    rp_doc = [0]

    # event stream correspondence (formatter independent)
    ev_queries, ev_real = [], []
    for recv in recvs:
        for co in (False, True):
            ev_queries.append(f"{path_of(recv, soup)}/N/{1 if recv.hidden else 0}/{1 if co else 0}")
            ev_real.append(real_events(recv, co, idmap))
    pc0 = None
    # the walk itself: the iterator's elements with their parent pointers -> model's tag-stack mirror (op evs)
    evsets = {}

    def set_index0(s_):
        if s_ is None:
            return "N"
        key = tuple(sorted(s_))
        if key not in evsets:
            evsets[key] = len(evsets)
        return str(evsets[key])
    ev_lines = []
    for recv in recvs:
        for co in (False, True):
            it = recv.descendants if co else recv.self_and_descendants
            toks_ = []
            for c in it:
                par = idmap.get(id(c.parent), 999999) if c.parent is not None else 999999
                if isinstance(c, Tag):
                    toks_.extend(["T", str(par), str(idmap[id(c)]), "1" if c.can_be_empty_element is True else "0",
                                  str(len(c.contents)), set_index0(c.preserve_whitespace_tags), tok(c.name)])
                else:
                    toks_.extend(["S", str(par)])
            ev_lines.append(toks_)
    requests.append({"kind": "evs", "lines": ["c14 evs " + sets_token(evsets) + (" " + " ".join(t) if t else "") for t in ev_lines],
                     "real": ev_real, "recipe": recipe, "formatter": None, "metas": [(q, ["events-walk"]) for q in ev_queries],
                     "stream": stream})

    for spec in specs:
        farg = make_formatter_arg(spec)
        # group receivers by the formatter object their decode() resolves
        groups = {}
        for recv in recvs:
            if isinstance(farg, e["Formatter"]):
                fmt = farg
                key = 0
            else:
                try:
                    fmt = recv.formatter_for_name(farg)
                except KeyError:
                    # e.g. formatter="html5" on an XML-flavoured receiver: not a built-in formatter of that flavour
                    ctx.count("recv:name-not-in-flavour-registry")
                    continue
                key = id(fmt) if spec[0] == "name" else type(fmt).__name__
            groups.setdefault(key, (fmt, []))[1].append(recv)
        for key, (fmt, grecvs) in groups.items():
            if spec[0] in ("name", "func"):
                unit = " "                       # property: the built-in formatters indent by one space
                if fmt.indent != unit:
                    report(ctx, "a built-in formatter's indent unit is not one space", case={"formatter": spec},
                                  expected=" ", observed=fmt.indent, stream=stream)
                    unit = fmt.indent
            elif spec[0] == "base":
                unit = unit_of_spec(spec)        # the Lean model's indentOf (compared with the real .indent in run())
            else:
                unit = fmt.indent                # HTMLFormatter/XMLFormatter(indent=...): C15 owns which unit results
            unit_ws = unit.strip() == ""
            pc = Pieces(soup, fmt)
            sets = {}
            toks = tree_tokens(soup, pc, idmap, sets)
            if pc0 is None:
                pc0 = (pc, sets, toks, unit)
            queries, reals, metas = [], [], []
            for recv in grecvs:
                ctx.count("recv:" + ("soup" if recv is soup else "hidden" if recv.hidden else
                                     "void" if (not recv.contents and recv.can_be_empty_element is True) else
                                     "pre" if preserving(recv) else "tag"))
                for f in feats[id(recv)]:
                    ctx.count("recv-has:" + f)
                calls = CALLS_FULL[:5] + r.sample(CALLS_FULL[5:], 2)
                if isinstance(recv, BS):
                    calls = [c for c in calls if not isinstance(c[-1], bool)]   # BeautifulSoup.decode: deprecated bool meaning
                plain = None
                for call in calls:
                    real = do_call(recv, call, farg)
                    k = call_level(call)
                    co = call[0] == "decode_contents"
                    if isinstance(recv, BS) and recv.is_xml:
                        if not real.startswith(XML_DECL):
                            report(ctx, "XML-flavoured BeautifulSoup output lacks the XML declaration line",
                                          case={"recipe": recipe, "formatter": spec, "call": call}, expected=XML_DECL,
                                          observed=real[:60], stream=stream)
                        else:
                            real = real[len(XML_DECL):]
                    if call == ["decode", None]:
                        plain = real
                    queries.append(f"{path_of(recv, soup)}/{lvl_tok(k)}/{1 if recv.hidden else 0}/{1 if co else 0}")
                    reals.append(real)
                    metas.append((recv, call))
                    ctx.count("call:" + call[0] + ":" + lvl_tok(k))
                    # ---------------- the direct oracle ----------------
                    nontriv = None
                    if k is not None:
                        kk = 0 if k is True else k
                        want, flags = demanded_text(recv, pc, fmt, unit, kk, co)
                        case = {"recipe": recipe, "applied": applied, "receiver": path_of(recv, soup), "formatter": spec,
                                "call": call}
                        if flags.get("hidden_pre"):
                            ctx.count("oracle:skipped-hidden-pre")
                        else:
                            if real != want:
                                report(ctx, "pretty output is not 'every tag and non-blank string on its own line at unit x depth, "
                                              "whitespace-preserving elements verbatim'", case=case, expected=want, observed=real,
                                              stream=stream)
                            if real != "" and not real.endswith("\n"):
                                report(ctx, "pretty output does not end with a newline", case=case, expected="...\\n",
                                              observed=real[-20:], stream=stream)
                        if unit_ws and call[0] != "decode_contents" and plain is not None:
                            if dropws(real) != dropws(plain):
                                report(ctx, "pretty and plain output differ in non-whitespace characters", case=case,
                                              expected=dropws(plain), observed=dropws(real), stream=stream)
                            ctx.count("oracle:nonws")
                        if call == ["prettify"] and unit_ws and plain is not None and rp_doc[0] < RP_PER_DOC and not (
                                isinstance(recv, BS) and recv.is_xml):
                            rp_doc[0] += 1
                            _RP.append((real, plain, case, plain_html, pc.inert, stream))
                        if call == ["prettify"] and unit_ws and plain is not None and pc.inert:
                            ok, a, b = reparse_equal(real, plain, plain_html)
                            ctx.count("oracle:reparse" + (":exact-pre" if plain_html else ""))
                            if not ok:
                                report(ctx, "re-parse of the pretty output differs from re-parse of the plain output "
                                              "(whitespace in text disregarded" + (", exact inside pre/textarea)" if plain_html else ")"),
                                              case=case, expected=repr(b)[:2000], observed=repr(a)[:2000], stream=stream)
                        if len(feats[id(recv)]) >= 1 and len(real) > 0:
                            nontriv = ("D", hash((real, tuple(spec[:2]), tuple(map(str, call)))))
                    ctx.case(nontriv, sample={"receiver": str(recv)[:80], "formatter": spec, "call": call, "output": real[:120]}
                             if nontriv and len(ctx.samples) < 6 and "pre" in feats[id(recv)] else None)
            head = f"{tok(unit)} {sets_token(sets)} {len(queries)} " + " ".join(queries) + " " + " ".join(toks)
            requests.append({"kind": "dec", "line": "c14 dec " + head, "real": reals, "recipe": recipe, "formatter": spec,
                             "metas": [(path_of(rv, soup), c) for rv, c in metas], "stream": stream})
            requests.append({"kind": "spec", "line": "c14 spec " + head, "real": reals, "recipe": recipe, "formatter": spec,
                             "metas": [(path_of(rv, soup), c) for rv, c in metas], "stream": stream})
            ctx.count("fmt:" + spec[0] + (":" + str(spec[1]) if spec[0] in ("name", "base", "sub") else ""))
            raw_section(ctx, soup, recipe, stream, r, spec, farg, fmt, unit, grecvs, idmap, requests, n_raw)
            ctx.count("unit:" + ("ws" if unit_ws else "non-ws") + ":" + repr(unit))
    if pc0 is not None:
        pc, sets, toks, unit = pc0
        head = f"{tok(unit)} {sets_token(sets)} {len(ev_queries)} " + " ".join(ev_queries) + " " + " ".join(toks)
        requests.append({"kind": "ev", "line": "c14 ev " + head, "real": ev_real, "recipe": recipe, "formatter": None,
                         "metas": [(q, ["events"]) for q in ev_queries], "stream": stream})


# --------------------------------------------------------------------------------------
# the raw layer: pieces computed by the model; encodings, bytes flavour, XML declaration, soup / void receivers
# --------------------------------------------------------------------------------------
ENCODINGS = ["latin-1", "ascii", "koi8-r", "utf-16", "cp1252", "UTF-8", "utf8"]
PY_SPECIFIC = ["idna", "unicode_escape", "punycode", "undefined", "", "string-escape"]


def enc_tok(e):
    return "N" if e is None else tok(e)


def prop_xml_decl(enc):
    """the property's reading of the XML declaration line of an XML-flavoured soup (hard-coded, not read from bs4)"""
    if enc is None or enc in ("idna", "mbcs", "oem", "palmos", "punycode", "raw_unicode_escape", "undefined", "unicode_escape",
                              "raw-unicode-escape", "unicode-escape", "string-escape", "string_escape"):
        return '<?xml version="1.0"?>\n'
    return '<?xml version="1.0" encoding="%s"?>\n' % enc


def attr_string(t, piece, vcp):
    """the attribute_string part of an opening piece (None when the piece is not assembled as `<prefix:name attrs/>`)"""
    pfx = (t.prefix + ":") if t.prefix else ""
    head = "<" + pfx + t.name
    slash = vcp if (not t.contents and t.can_be_empty_element is True) else ""
    tail = slash + ">"
    if not piece.startswith(head) or not piece.endswith(tail) or len(piece) < len(head) + len(tail):
        return None
    return piece[len(head):len(piece) - len(tail)]


def raw_tokens(ctx, soup, fmt, idmap, sets, encs, vcp):
    """tokens of the whole document for the raw layer; attribute strings per eventual_encoding obtained from the real
    _format_tag by cutting off `<prefix:name` and `/>`"""
    e = E()
    Tag, BS = e["Tag"], e["BeautifulSoup"]
    toks = []
    ok = [True]

    def set_index(s):
        if s is None:
            return "N"
        key = tuple(sorted(s))
        if key not in sets:
            sets[key] = len(sets)
        return str(sets[key])

    def go(x):
        if isinstance(x, Tag):
            if x.hidden:
                attrs = "-"
            else:
                by = {}
                for en in ["utf-8"] + encs:
                    a = attr_string(x, x._format_tag(en, fmt, opening=True), vcp)
                    if a is None:
                        ok[0] = False
                        a = ""
                    by[en] = a
                attrs = tok(by["utf-8"]) + "".join(f";{enc_tok(en)}={tok(by[en])}" for en in encs if by[en] != by["utf-8"])
                if ";" in attrs:
                    ctx.count("raw:tag-with-encoding-dependent-attrs")
            sx = ("1" if x.is_xml else "0") if isinstance(x, BS) else "N"
            toks.extend(["T", str(idmap[id(x)]), sx, "1" if x.hidden else "0", tok(x.prefix or ""), tok(x.name), attrs,
                         set_index(x.preserve_whitespace_tags), "1" if x.can_be_empty_element is True else "0", str(len(x.contents))])
            for ch in x.contents:
                go(ch)
        else:
            ready = x.output_ready(fmt)
            pre, suf = type(x).PREFIX, type(x).SUFFIX
            if not (ready.startswith(pre) and ready.endswith(suf) and len(ready) >= len(pre) + len(suf)):
                ok[0] = False
                pre = suf = ""
            toks.extend(["S", tok(pre), tok(suf), tok(ready[len(pre):len(ready) - len(suf)])])
    go(soup)
    return toks, ok[0]


def do_raw_call(recv, call, k, enc, farg):
    """call: d/c/e/ec/p; enc 'D' = argument omitted"""
    with warnings.catch_warnings():
        warnings.simplefilter("ignore")
        if call == "p":
            return recv.prettify(formatter=farg) if enc == "D" else recv.prettify(enc, farg)
        if call == "d":
            if isinstance(k, bool) and isinstance(recv, E()["BeautifulSoup"]) and enc != "D" and (enc is None or len(enc) % 2 == 0):
                # the other deprecated spelling of the same thing
                return recv.decode(eventual_encoding=enc, formatter=farg, pretty_print=k)
            return recv.decode(k, formatter=farg) if enc == "D" else recv.decode(k, enc, farg)
        if call == "c":
            return recv.decode_contents(k, formatter=farg) if enc == "D" else recv.decode_contents(k, enc, farg)
        if call == "e":
            return recv.encode(indent_level=k, formatter=farg) if enc == "D" else recv.encode(enc, k, farg)
        if call == "ec":
            return recv.encode_contents(k, formatter=farg) if enc == "D" else recv.encode_contents(k, enc, farg)
        if call in ("rc1", "rc0"):       # deprecated BS3 spelling; always the default formatter
            return recv.renderContents(prettyPrint=(call == "rc1"), indentLevel=k) if enc == "D" else \
                recv.renderContents(enc, call == "rc1", k)
    raise KeyError(call)


def raw_section(ctx, soup, recipe, stream, r, spec, farg, fmt, unit, grecvs, idmap, requests, nrecv):
    e = E()
    BS = e["BeautifulSoup"]
    vcp = fmt.void_element_close_prefix or ""
    encs = [None] + r.sample(ENCODINGS, 2) + [r.choice(PY_SPECIFIC)]
    sets = {}
    toks, ok = raw_tokens(ctx, soup, fmt, idmap, sets, encs, vcp)
    if not ok:
        report(ctx, "a piece is not assembled as '<' prefix name attrs '/' '>' / PREFIX body SUFFIX", case={"recipe": recipe, "formatter": spec},
               stream=stream + "-raw", no_failing_input=True)
        return
    unit_ws = unit.strip() == ""
    # receivers: the soup, empty-element tags, tags with a <meta> below, then a sample
    def prio(t):
        if t is soup:
            return 0
        if not t.contents and t.can_be_empty_element is True:
            return 1
        if t.name == "meta" or t.find("meta") is not None:
            return 2
        return 3
    order = sorted(grecvs, key=lambda t: (prio(t), idmap[id(t)]))
    chosen = order[:max(2, nrecv // 2)] + r.sample(order[max(2, nrecv // 2):], min(len(order) - min(len(order), max(2, nrecv // 2)), nrecv - nrecv // 2))
    pcs = {}

    def pieces(en):
        if en not in pcs:
            pcs[en] = Pieces(soup, fmt, en)
        return pcs[en]
    queries, reals, metas = [], [], []
    for recv in chosen:
        is_soup = isinstance(recv, BS)
        kinds = [("p", 0, "D"), ("p", 0, r.choice(encs[1:3])), ("d", None, "D"), ("d", r.choice([0, 1, 2, True, True]), r.choice(encs)),   # (False dropped: a boolean "no" level is outside the property)
                 ("c", r.choice([None, 0, 1]), r.choice(["D"] + encs)), ("e", r.choice([None, 0, 1]), r.choice(["D"] + encs[1:3])),
                 ("ec", r.choice([None, 0, 2]), r.choice(["D"] + encs[1:3])), ("d", r.choice([None, 0]), None)]
        if spec == ["name", "minimal"]:
            kinds.append((r.choice(["rc1", "rc0"]), r.choice([0, 1, 2]), r.choice(["D"] + encs[1:3])))
        plain_by = {}
        for call, k, en in kinds:
            try:
                real = do_raw_call(recv, call, k, en, farg)
            except (UnicodeError, LookupError) as ex:
                ctx.count("raw:codec-error:" + type(ex).__name__)
                continue
            eff_enc = "utf-8" if en == "D" else en       # the property: omitted encoding arguments mean UTF-8 for the text
            if call == "p" and en == "D":
                eff_enc = "utf-8"
            lk = k
            if is_soup and isinstance(k, bool):
                lk = 0 if k else None                     # documented pre-4.13 meaning kept by BeautifulSoup.decode
            queries.append(f"{path_of(recv, soup)}/{call}/{'T' if k is True else 'F' if k is False else lvl_tok(k)}/"
                           f"{'D' if en == 'D' else enc_tok(en)}")
            reals.append(real)
            metas.append((path_of(recv, soup), [call, k if not isinstance(k, bool) else str(k), en]))
            ctx.count(f"raw:call:{call}:{'bytes' if isinstance(real, bytes) else 'str'}")
            ctx.count("raw:recv:" + ("xml-soup" if is_soup and recv.is_xml else "soup" if is_soup else
                                     "void" if (not recv.contents and recv.can_be_empty_element is True) else "tag"))
            # ---------------- direct oracle ----------------
            co = call in ("c", "ec", "rc1", "rc0")
            if call == "rc0":
                lk = None
            decl = prop_xml_decl(eff_enc) if (is_soup and recv.is_xml) else ""
            case = {"recipe": recipe, "receiver": path_of(recv, soup), "formatter": spec, "rawcall": [call, str(k) if isinstance(k, bool) else k, en]}
            pc = pieces(eff_enc)
            level = 0 if call == "p" else lk
            if isinstance(level, bool):
                level = 0                                 # Tag.decode: True means level 0, False is the int 0
            if level is None:
                want = None
            else:
                body, flags = demanded_text(recv, pc, fmt, unit, int(level), co)
                want = None if flags.get("hidden_pre") else decl + body
            text = real
            if isinstance(real, bytes):
                if want is not None:
                    want_b = want.encode(eff_enc, "xmlcharrefreplace")
                    if real != want_b:
                        report(ctx, "bytes flavour: output is not the encoded 'one item per line at unit x depth' text", case=case,
                               expected=repr(want_b), observed=repr(real), stream=stream + "-raw")
                try:
                    text = real.decode(eff_enc)
                except UnicodeError:
                    text = None
            elif want is not None and real != want:
                report(ctx, "pretty output (encoding / receiver grid) is not 'one item per line at unit x depth, whitespace-preserving "
                       "elements verbatim" + (", XML declaration first'" if decl else "'"), case=case, expected=want, observed=real,
                       stream=stream + "-raw")
            # non-whitespace equality is a statement about the text handed to the codec (a whitespace character the target
            # encoding lacks becomes a character reference in the bytes): str results only, bytes are tied to text above
            if text is not None and call in ("p", "d") and not isinstance(real, bytes):
                if level is None:
                    plain_by[eff_enc] = text
                elif unit_ws:
                    pl = plain_by.get(eff_enc)
                    if pl is None:
                        # the plain rendering for the same eventual encoding
                        pl = decl + E()["Tag"].decode(recv, None, eff_enc, fmt)
                    if dropws(text) != dropws(pl):
                        report(ctx, "pretty and plain output for the same encoding differ in non-whitespace characters", case=case,
                               expected=dropws(pl), observed=dropws(text), stream=stream + "-raw")
                    ctx.count("raw:oracle:nonws")
                if text != "" and level is not None and want is not None and not text.endswith("\n"):
                    report(ctx, "pretty output does not end with a newline", case=case, observed=text[-20:], stream=stream + "-raw")
            ctx.case(("R", hash((real, tuple(spec[:2]), call, str(k), str(en)))) if len(real) > 0 else None)
    # the token view: the model's cuts against the real tokenizer's on the real plain / pretty text
    if unit_ws and pieces("utf-8").inert:
        for recv in chosen:
            if isinstance(recv, BS) or not token_safe(recv):
                ctx.count("raw:tokens:skipped")
                continue
            try:
                plain_t = E()["Tag"].decode(recv, None, "utf-8", fmt)
                pretty_t = E()["Tag"].decode(recv, 0, "utf-8", fmt)
                rp, rq = canon_tokens(real_tokens(plain_t)), canon_tokens(real_tokens(pretty_t))
            except Exception as ex:  # noqa: BLE001  (html.parser giving up on exotic input is not bs4's business here)
                ctx.count("raw:tokens:tokenizer-error:" + type(ex).__name__)
                continue
            if rp != rq:
                report(ctx, "html.parser cuts the pretty and the plain output into different token sequences (whitespace in "
                       "character data disregarded)", case={"recipe": recipe, "receiver": path_of(recv, soup), "formatter": spec,
                                                             "call": ["prettify"]}, expected=rp, observed=rq, stream=stream + "-tokens")
            for call_, real_ in (("tp", rp), ("tq", rq)):
                queries.append(f"{path_of(recv, soup)}/{call_}/0/{tok('utf-8')}")
                reals.append(("TOK", real_))
                metas.append((path_of(recv, soup), [call_, 0, "utf-8"]))
            ctx.count("raw:tokens:compared")
            ctx.case(("K", hash(rq)))
    if not queries:
        return
    head = f"{tok(unit)} {tok(vcp)} {sets_token(sets)} {len(queries)} " + " ".join(queries) + " " + " ".join(toks)
    for mode in ("impl", "spec"):
        requests.append({"kind": "raw-" + mode, "line": f"c14 raw {mode} " + head, "real": reals, "recipe": recipe, "formatter": spec,
                         "metas": metas, "stream": stream})


# --------------------------------------------------------------------------------------
# the real tokenizer's cuts (html.parser), canonicalised like the model's `canon`
# --------------------------------------------------------------------------------------
RAWTEXT = {"script", "style", "title", "textarea", "xmp", "iframe", "noembed", "noframes", "plaintext", "noscript"}


def real_tokens(text):
    """[(kind, raw slice)] of `text` as html.parser cuts it: a slice starts where a handler is called"""
    from html.parser import HTMLParser
    marks = []
    starts = [0]
    for line in text.split("\n")[:-1]:
        starts.append(starts[-1] + len(line) + 1)

    class P(HTMLParser):
        def _m(self, kind):
            ln, col = self.getpos()
            marks.append((starts[ln - 1] + col, kind))

        def handle_starttag(self, tag, attrs):
            self._m("M")

        def handle_startendtag(self, tag, attrs):
            self._m("M")

        def handle_endtag(self, tag):
            self._m("M")

        def handle_data(self, data):
            self._m("D")

        def handle_entityref(self, name):
            self._m("D")

        def handle_charref(self, name):
            self._m("D")

        def handle_comment(self, data):
            self._m("M")

        def handle_decl(self, decl):
            self._m("M")

        def handle_pi(self, data):
            self._m("M")

        def unknown_decl(self, data):
            self._m("M")
    ps = P(convert_charrefs=False)
    ps.feed(text)
    ps.close()
    out = []
    for (off, kind), nxt in zip(marks, [m[0] for m in marks[1:]] + [len(text)]):
        out.append((kind, text[off:nxt]))
    return out


def canon_tokens(toks):
    out, acc = [], ""
    for kind, raw in toks:
        if kind == "D":
            acc += dropws(raw)
        else:
            if acc:
                out.append("D" + show(acc))
                acc = ""
            out.append("M" + show(raw))
    if acc:
        out.append("D" + show(acc))
    return ";".join(out) if out else "-"


def token_safe(recv):
    """the receiver renders to output whose cuts are those the model assumes: it is visible, nothing but text sits inside
    raw-text elements, special strings do not contain their own delimiters, names are plain"""
    e = E()
    Tag, Pre = e["Tag"], e["el"].PreformattedString
    if recv.hidden:
        return False
    for x in [recv] + list(recv.descendants):
        if isinstance(x, Tag):
            if not re.fullmatch(r"[a-z][a-z0-9]*", x.name or "") or (x.prefix and not re.fullmatch(r"[a-z]+", x.prefix)):
                return False
            if x.name in RAWTEXT and any(isinstance(c, (Tag, Pre)) or "<" in str.__str__(c) for c in x.descendants):
                return False
            for k, v in x.attrs.items():
                if not re.fullmatch(r"[a-z][a-z0-9-]*", str(k)):
                    return False
        elif isinstance(x, Pre):
            body = str.__str__(x)
            if any(ch in body for ch in "<>") or "--" in body or "]]" in body or "?" in body or body.strip() == "" or body != body.strip():
                return False
            if type(x).__name__ not in ("Comment", "CData", "Doctype", "ProcessingInstruction", "Declaration", "XMLProcessingInstruction"):
                return False
    return True


# --------------------------------------------------------------------------------------
# the re-parse clause through the tokenizer MODEL (Props/C14 section 11)
# --------------------------------------------------------------------------------------
_RP = []            # (prettify() text, decode() text, case, plain_html, inert, stream) collected by check_document_
RP_PER_DOC = 3
SPECIAL_CLS = (1, 2, 3, 4, 5)   # Comment, CData, ProcessingInstruction, Declaration, Doctype as c03.cls_id numbers them


def plain_shape(el):
    """a real tree without start infos, as driver op `reparse` prints `eraseWsL`'s result: `<name>[...]`, text `"cls:cps"`"""
    from . import c03
    from .common import cps
    out = []
    for c in el.contents:
        if isinstance(c, E()["Tag"]):
            out.append(f"<{cps(c.name) or '-'}>[{plain_shape(c)}]")
        else:
            out.append(f"\"{c03.cls_id(c)}:{cps(str.__str__(c)) or '-'}\"")
    return "".join(out)


def erased_shape(el, pres):
    """independent Python version of the normalisation the property names (Lean `eraseWsL`): character data outside
    whitespace-preserving elements loses its whitespace (str.isspace) and disappears when empty; comments, CDATA, PIs,
    declarations, doctypes and everything below a whitespace-preserving element stay as they are"""
    from . import c03
    from .common import cps
    out = []
    for c in el.contents:
        if isinstance(c, E()["Tag"]):
            inner = plain_shape(c) if c.name in pres else erased_shape(c, pres)
            out.append(f"<{cps(c.name) or '-'}>[{inner}]")
        else:
            cid = c03.cls_id(c)
            t = str.__str__(c)
            if cid not in SPECIAL_CLS:
                t = "".join(ch for ch in t if not ch.isspace())
                if t == "":
                    continue
            out.append(f"\"{cid}:{cps(t) or '-'}\"")
    return "".join(out)


def reparse_model_stream(ctx: Ctx, drv, limit):
    """real prettify()/decode() text -> (a) the real parser, (b) the Lean tokenizer model + bs4 handler model + construction machine
    (driver op `c14 reparse`): same tree incl. attributes and positions, for both texts; the model's `eraseWsL` = the Python
    erasure of the real tree; and (direct oracle, where the text pieces are inert and the tree is plain HTML) the two erased real
    trees are equal -- the conclusion of `prettify_reparse_tokenized`, on every generated document, inside and outside its class."""
    from . import c04, tk
    from .common import cps
    name = "reparse-model"
    pairs = _RP[:limit]
    ctx.count(f"{name}:collected", len(_RP))
    del _RP[:]
    if not pairs:
        return
    texts = []
    for pretty, plain, *_ in pairs:
        texts.extend([pretty, plain])
    uniq = sorted(set(texts))
    needs = drv.ask([f"tk needs {cps(t) or '-'}" for t in uniq])
    cfg = c04.cfg_tokens({})
    reps = drv.ask([f"c14 reparse {cfg} {tk._tab(n)} {cps(t) or '-'}" for t, n in zip(uniq, needs)])
    model = dict(zip(uniq, reps))
    real = {}
    for t in uniq:
        try:
            soup = c04.real_parse(t, {})
            real[t] = ("ok", c04.shape(soup), erased_shape(soup, PROP_HTML_PRESERVE))
        except Exception as ex:  # noqa: BLE001
            real[t] = ("error", type(ex).__name__, "")
    for pretty, plain, case, plain_html, inert, stream in pairs:
        ctx.count(f"{name}:pairs")
        ctx.count(f"{name}:from:{stream}")
        bad = False
        for which, t in (("prettify()", pretty), ("decode()", plain)):
            m = model[t].split("|", 1)
            flag = m[0]
            mtree, _, merased = (m[1] if len(m) > 1 else "").rpartition("|")
            # the tree part contains '|' itself (start infos); the erased part does not
            st, rtree, rerased = real[t]
            ctx.count(f"{name}:texts")
            ctx.count(f"{name}:flag:{flag}")
            if st == "error" or flag != "ok":
                if not (st == "error" and flag == "error"):
                    bad = True
                    ctx.corr_disagreements += 1
                    report(ctx, "tokenizer+builder model and the real parser disagree on whether the output parses", case=case | {"text_of": which},
                           observed=f"{st}:{rtree}"[:300], model=model[t][:300], stream=name, no_failing_input=True)
                continue
            if mtree != rtree:
                bad = True
                ctx.corr_disagreements += 1
                report(ctx, "tokenizer+builder model and the real parser build different trees from " + which + " output",
                       case=case | {"text": t[:2000]}, observed=rtree[:2000], model=mtree[:2000], stream=name, no_failing_input=True)
            elif merased != rerased:
                bad = True
                ctx.corr_disagreements += 1
                report(ctx, "Lean eraseWsL and the Python erasure disagree on the tree of " + which + " output",
                       case=case | {"text": t[:2000]}, observed=rerased[:2000], model=merased[:2000], stream=name, no_failing_input=True)
        a, b = real[pretty], real[plain]
        nontriv = None
        if a[0] == "ok" and b[0] == "ok":
            if inert and plain_html:
                ctx.count(f"{name}:erased-trees-compared")
                if a[2] != b[2]:
                    report(ctx, "re-parse of prettify() output differs from re-parse of decode() output after erasing whitespace in "
                                "character data outside pre/textarea (trees of the real parser; the tokenizer model agrees with it)"
                           if not bad else "re-parse of prettify() output differs from re-parse of decode() output after erasing "
                                           "whitespace in character data outside pre/textarea",
                           case=case, expected=b[2][:2000], observed=a[2][:2000], stream=name)
                if "<" in a[2] and pretty != plain:
                    nontriv = ("RP", hash((pretty, plain)))
            else:
                ctx.count(f"{name}:not-compared:" + ("not-inert" if not inert else "not-plain-html"))
        ctx.case(nontriv)


def gen_recipe(r, stream):
    if stream == "html":
        return {"kind": "html", "markup": gen_html(r), "builder": r.choice(["default"] * 6 + ["custom", "nopre", "custom-list", "custom-frozen"]), "edits": []}
    if stream == "edited":
        b = r.choice(["default"] * 5 + ["custom", "nopre", "xmlish", "custom-list"])
        m = gen_xml(r) if b == "xmlish" else gen_html(r)
        return {"kind": "edited", "markup": m, "builder": b, "edits": gen_edits(r, r.randint(1, 8))}
    if stream == "xml":
        return {"kind": "xml", "markup": gen_xml(r), "builder": r.choice(["xmlish", "xmlish", "xmlish-keep"]),
                "edits": gen_edits(r, r.choice([0, 0, 1, 3]))}
    if stream == "malformed":
        return {"kind": "malformed", "markup": gen_malformed(r), "builder": r.choice(["default", "default", "custom", "xmlish"]),
                "edits": []}
    raise KeyError(stream)


DEEP = "".join(f"<div class=d{i}>" for i in range(22)) + " deep <pre> p <b> q </b>\n</pre><br> tail " + "</div>" * 22
FIXED = [
    {"kind": "html", "markup": DEEP, "builder": "default", "edits": []},
    {"kind": "html", "markup": '<html><head><meta charset="iso-8859-1"><meta http-equiv="Content-Type" content="text/html; charset=koi8-r"></head>'
                               "<body><br><pre> a </pre></body></html>", "builder": "default", "edits": []},
    {"kind": "xml", "markup": '<root><meta charset="big5"/><a/> t </root>', "builder": "xmlish", "edits": []},
    {"kind": "html", "markup": "<br><img alt=' x '><input disabled><hr/>", "builder": "default", "edits": [["clear", 2]]},
    # the five literal snippets style + corner cases named in the property
    {"kind": "html", "markup": "<div><p>a <b>x</b></p><pre> x <b> y </b>\n</pre><br/>  </div>", "builder": "default", "edits": []},
    {"kind": "html", "markup": "<pre><pre> in </pre> out </pre>", "builder": "default", "edits": []},
    {"kind": "html", "markup": "<p><b><i><pre>\n deep \n</pre></i></b></p><textarea>\n t </textarea>", "builder": "default", "edits": []},
    {"kind": "html", "markup": "<div>  </div><p></p><br><script> s </script><style>\n</style>", "builder": "default", "edits": []},
    {"kind": "html", "markup": "", "builder": "default", "edits": []},
    {"kind": "html", "markup": "   ", "builder": "default", "edits": []},
    {"kind": "html", "markup": "<!DOCTYPE html>\n<html><body><!-- c --><![CDATA[ d ]]><?pi?></body></html>", "builder": "default", "edits": []},
    {"kind": "edited", "markup": "<div><br><pre> a </pre></div>", "builder": "default",
     "edits": [["voidchild", 0, " in void "], ["hidden", 1], ["str", 1, 0, "", "NavigableString"], ["str", 3, 1, " \n ", "CData"]]},
    {"kind": "edited", "markup": "<div><pre> a <b> c </b></pre></div>", "builder": "default", "edits": [["hidden", 2]]},
    {"kind": "xml", "markup": '<root><a/><ns:b x="1 2">t <pre> k </pre></ns:b><![CDATA[ q ]]><?pi x?></root>', "builder": "xmlish", "edits": []},
    {"kind": "xml", "markup": "<root><keep> <a/> v </keep><pre> w </pre><x> <keep/> </x></root>", "builder": "xmlish-keep", "edits": []},
    {"kind": "edited", "markup": "<p>x</p>", "builder": "default",
     "edits": [["rawtag", 1, 0, "pre", None, None, None, False], ["str", 1, 0, "  raw pre  ", "NavigableString"],
               ["rawtag", 0, 5, "pre", True, ["pre"], "ns", True], ["str", 5, 0, "  kept  ", "NavigableString"]]},
]


def run(ctx: Ctx):
    e = E()
    ctx.rule = ("a case = (document, receiver element, formatter, call) with the real output checked against the direct oracle and the "
                "Lean model; non-trivial = the receiver's subtree has at least one of {whitespace-preserving element, blank string, "
                "string needing strip, internal newline, special string class, empty-element tag, hidden tag} and the output is "
                "non-empty; keyed by (output, formatter, call)")
    ctx.assumptions = [
        "tag pieces (_format_tag) and string pieces (output_ready) are taken from the real code and are opaque to the model (C05/C06/C15)",
        "whitespace = the code points with str.isspace() on this CPython (= what str.strip() removes; checked for every code point by the translator)",
        "'only whitespace' oracles (non-whitespace equality, re-parse) run only when the indent unit is whitespace; re-parse only when every "
        "text piece is inert for html.parser (no raw '<', every '&' starts a complete character reference)",
        "indent_level >= 0 for the line-structure oracle's depth (negative levels are compared with the model only through max(level,0))",
        "a hidden whitespace-preserving element is compared with the model but excluded from the line-structure/newline oracle",
        "stream reparse-model re-parses with the default html.parser builder (pre/textarea preserved, multi_valued_attributes=None); the "
        "erased trees of prettify() and decode() are compared only for inert text pieces and plain-HTML trees (preAgreeL of the theorem)",
    ]
    drv = Driver()
    # ---- small ops: indent normalisation, strip, _should_pretty_print ----
    F = e["Formatter"]
    small_lines, small_real, small_case = [], [], []
    unit_model = {}
    for a in INDENT_ARGS:
        t = indent_tok(a)
        if t is None:
            continue
        for lang in (F.HTML, F.XML):
            real = F(lang, indent=indent_value(a)).indent
            if real != prop_unit(a):
                ctx.violation("Formatter(indent=v).indent differs from the documented unit", case={"indent": a, "language": lang},
                              expected=prop_unit(a), observed=real, stream="indent")
            small_lines.append(f"c14 indent {t}")
            small_real.append(show(real))
            small_case.append({"op": "indent", "indent": a, "language": lang})
            ctx.case(("I", json.dumps(a), lang))
    for lang in (F.HTML, F.XML):
        real = F(lang).indent
        if real != " ":
            ctx.violation("default Formatter indent unit is not one space", case={"language": lang}, expected=" ", observed=real,
                          stream="indent")
    names = sorted(set(e["HTMLFormatter"].REGISTRY) | set(e["XMLFormatter"].REGISTRY) | {"minimal", "html", "html5", None},
                   key=lambda k: "" if k is None else k)
    for reg in (e["HTMLFormatter"].REGISTRY, e["XMLFormatter"].REGISTRY):
        for k, f in reg.items():
            if f.indent != " ":
                ctx.violation("a registered formatter's indent unit is not one space", case={"formatter": k}, expected=" ",
                              observed=f.indent, stream="indent")
    rs = ctx.rng("strip")
    ws_all = [chr(c) for c in range(0x110000) if chr(c).isspace()]
    pool = ws_all + list("ab<>&\u200b\ufeff\u180e\x00\x08")
    strip_cases = [c for c in ws_all] + ["".join(rs.choice(pool) for _ in range(rs.randint(0, 7))) for _ in range(ctx.n(300, 3000))]
    for s in strip_cases:
        small_lines.append(f"c14 strip {tok(s)}")
        small_real.append(show(s.strip()))
        small_case.append({"op": "strip", "s": s})
    Tag = e["Tag"]
    for pwt in (None, set(), {"pre"}, {"pre", "textarea"}, {"x"}):
        for nm in ("pre", "textarea", "x", "div", ""):
            t = Tag(name=nm, preserve_whitespace_tags=pwt)
            st = "N" if pwt is None else ("/".join(tok(n) for n in sorted(pwt)) if pwt else "e")
            small_lines.append(f"c14 spp {st} {tok(nm)}")
            small_real.append("1" if t._should_pretty_print() else "0")
            small_case.append({"op": "spp", "pwt": None if pwt is None else sorted(pwt), "name": nm})
            ctx.case(("P", st, nm))
    for lvl in (None, 0, 1, -1):
        for pwt in (None, {"pre"}):
            for nm in ("pre", "x"):
                t = Tag(name=nm, preserve_whitespace_tags=pwt)
                st = "N" if pwt is None else "/".join(tok(n) for n in sorted(pwt))
                small_lines.append(f"c14 sppat {lvl_tok(lvl)} {st} {tok(nm)}")
                small_real.append("1" if t._should_pretty_print(lvl) else "0")
                small_case.append({"op": "sppat", "level": lvl, "pwt": None if pwt is None else sorted(pwt), "name": nm})
                ctx.case(("PA", lvl, st, nm))
    rep = drv.ask(small_lines)
    for l, a, b, c in zip(small_lines, small_real, rep, small_case):
        if c["op"] == "indent":
            unit_model[json.dumps(c["indent"])] = unshow(b)
        if a != b:
            ctx.corr_disagreements += 1
            ctx.violation(f"model and implementation disagree ({c['op']})", case=c | {"line": l}, observed=a, model=b,
                          stream="small-ops", no_failing_input=(c["op"] != "indent" or unshow(a) == prop_unit(c["indent"])))
    ctx.count("small-ops:requests", len(small_lines))

    def unit_of_spec(spec):
        a = spec[2]
        if a[0] == "omit":
            return " "
        return unit_model[json.dumps(a)]

    # ---- documents ----
    specs_pool = formatter_specs(names)
    requests = []
    plan = [("html", ctx.n(300, 2000)), ("edited", ctx.n(380, 2400)), ("xml", ctx.n(110, 700)), ("malformed", ctx.n(110, 700))]
    max_recv = ctx.n(14, 30)
    n_specs = ctx.n(4, 7)
    for i, recipe in enumerate(FIXED):
        check_document(ctx, recipe, "fixed", ctx.rng("fixed", i), specs_pool, unit_of_spec, requests, 40, len(specs_pool) // 3)
    # corpus first
    from .common import CORPUS
    cdir = CORPUS / "C14"
    if cdir.exists():
        for i, f in enumerate(sorted(cdir.glob("*.json"))):
            rec = json.loads(f.read_text())
            check_document(ctx, rec["recipe"], "corpus", ctx.rng("corpus", i), specs_pool, unit_of_spec, requests, 40, 8)
    for stream, n in plan:
        for i in range(n):
            r = ctx.rng(stream, i)
            recipe = gen_recipe(r, stream)
            check_document(ctx, recipe, stream, r, specs_pool, unit_of_spec, requests, max_recv, n_specs)
    # ---- the re-parse clause through the tokenizer model ----
    reparse_model_stream(ctx, drv, ctx.n(4000, 40000))
    # ---- the Lean model ----
    lines = []
    for q in requests:
        if q["kind"] == "evs":
            lines.extend(q["lines"])
        else:
            lines.append(q["line"])
    all_replies = drv.ask(lines)
    replies, pos = [], 0
    for q in requests:
        if q["kind"] == "evs":
            replies.append(all_replies[pos:pos + len(q["lines"])])
            pos += len(q["lines"])
        else:
            replies.append(all_replies[pos])
            pos += 1
    shown = {}
    for q, rp in zip(requests, replies):
        if q["kind"] == "evs":
            got = rp
        else:
            got = rp.split(" | ") if rp != "" else [""]
        if q["kind"].startswith("raw-"):
            # a bytes result comes back as b:<enc>:<text>; the codec step (not modelled) is applied here
            want = []
            for x, g in zip(q["real"], got):
                if isinstance(x, tuple):
                    want.append(x[1])
                elif isinstance(x, bytes):
                    m = g.split(":")
                    try:
                        ok = len(m) == 3 and m[0] == "b" and unshow(m[2]).encode(unshow(m[1]), "xmlcharrefreplace") == x
                    except (UnicodeError, LookupError, ValueError):
                        ok = False
                    want.append(g if ok else "bytes:" + repr(x)[:300])
                else:
                    want.append(show(x))
        else:
            if q["kind"] in ("ev", "evs"):
                want = q["real"]
            else:
                want = shown.get(id(q["real"]))
                if want is None:
                    want = shown[id(q["real"])] = [show(x) for x in q["real"]]
        ctx.count(f"model:{q['kind']}:queries", len(want))
        if got == want:
            continue
        if len(got) != len(want):
            ctx.corr_disagreements += 1
            report(ctx, "model reply malformed", case={"recipe": q["recipe"], "formatter": q["formatter"], "reply": str(rp)[:200]},
                          stream=q["stream"] + "-model", no_failing_input=True)
            continue
        for (path, call), a, b in zip(q["metas"], want, got):
            if a != b:
                ctx.corr_disagreements += 1
                case = {"recipe": q["recipe"], "receiver": path, "formatter": q["formatter"], "call": call, "which": q["kind"]}
                # the oracle above already judged this output; a disagreement with the model alone is reported without a failing input
                already = any(v["case"].get("recipe") == q["recipe"] and not v.get("no_failing_input_found") for v in ctx.violations)
                report(ctx, f"model ({q['kind']}) and implementation disagree", case=case,
                              observed=a if (q["kind"] in ("ev", "evs") or ":" in a) else unshow(a),
                              model=b if (q["kind"] in ("ev", "evs") or ":" in b or "-" in b) else unshow(b),
                              stream=q["stream"] + "-model", no_failing_input=not already)
                break
    ctx.count("model:requests", len(lines))
    ctx.exhaustive_parts.append("str.strip vs model strip on every whitespace code point; Formatter(indent=v) over the listed argument grid x both languages")
    # ---- Lean obligations broken: say which table moved, the streams above are the search for a failing input ----
    if ctx.lean is not None and not ctx.lean.ok:
        ctx.notes.append("Lean obligations do not check; generated tables changed: " + ", ".join(ctx.lean.gen_changed or ["<none>"]))


def replay_reparse(v, soup):
    """stream reparse-model: real prettify()/decode() of the receiver -> real parser and tokenizer model, erased trees"""
    from . import c04, tk
    from .common import cps
    c = v["case"]
    recv = soup
    if c.get("receiver", "r") != "r":
        for i in c["receiver"].split("/")[0].split("."):
            recv = recv.contents[int(i)]
    farg = make_formatter_arg(c["formatter"])
    pretty, plain = do_call(recv, ["prettify"], farg), do_call(recv, ["decode", None], farg)
    print("prettify():", repr(pretty)[:600])
    print("decode()  :", repr(plain)[:600])
    drv = Driver()
    needs = drv.ask([f"tk needs {cps(t) or '-'}" for t in (pretty, plain)])
    reps = drv.ask([f"c14 reparse {c04.cfg_tokens({})} {tk._tab(n)} {cps(t) or '-'}" for t, n in zip((pretty, plain), needs)])
    er, bad = [], False
    for which, t, rp in zip(("prettify()", "decode()"), (pretty, plain), reps):
        sp = c04.real_parse(t, {})
        tree, era = c04.shape(sp), erased_shape(sp, PROP_HTML_PRESERVE)
        flag, _, rest = rp.partition("|")
        mtree, _, mera = rest.rpartition("|")
        print(f"re-parse of {which}: real parser and tokenizer model " + ("AGREE" if (flag == "ok" and mtree == tree and mera == era) else
              f"DISAGREE (model flag {flag})"))
        print("   erased tree:", repr(sp.decode())[:0] + era[:600])
        bad = bad or not (flag == "ok" and mtree == tree and mera == era)
        er.append(era)
    same = er[0] == er[1]
    print("property " + ("holds on this input: the two re-parses are equal after erasing whitespace in character data outside pre/textarea"
                         if same else "VIOLATED: the two re-parses differ after erasing whitespace in character data outside pre/textarea"))
    return 0 if (same and not bad) else 1


def replay(path):
    v = json.load(open(path))
    c = v["case"]
    if c.get("op") == "indent" or ("indent" in c and "language" in c):
        F = E()["Formatter"]
        a = c["indent"]
        real = F(c.get("language") or F.HTML, indent=indent_value(a)).indent if a[0] != "omit" else F(c.get("language")).indent
        print(f"Formatter(indent={indent_value(a) if a[0] != 'omit' else '<default>'!r}).indent = {real!r}; documented unit {prop_unit(a)!r}; "
              f"model {v.get('model_reply')!r}")
        return 0 if real == prop_unit(a) else 1
    if "recipe" not in c:
        print(json.dumps(v, indent=1)[:3000])
        return 1
    soup, applied = build(c["recipe"])
    print("document :", repr(soup.decode())[:400])
    if v.get("stream") == "reparse-model":
        return replay_reparse(v, soup)
    if "receiver" in c and "rawcall" in c:
        e = E()
        recv = soup
        if c["receiver"] != "r":
            for i in c["receiver"].split("."):
                recv = recv.contents[int(i)]
        call, k, en = c["rawcall"]
        k = True if k == "True" else False if k == "False" else k
        spec = c["formatter"]
        farg = make_formatter_arg(spec)
        fmt = farg if isinstance(farg, e["Formatter"]) else recv.formatter_for_name(farg)
        real = do_raw_call(recv, call, k, en, farg)
        eff = "utf-8" if en == "D" else en
        is_soup = isinstance(recv, e["BeautifulSoup"])
        lk = (0 if k else None) if (is_soup and isinstance(k, bool)) else k
        level = 0 if call == "p" else (None if call == "rc0" else lk)
        if isinstance(level, bool):
            level = 0
        print("receiver :", repr(str(recv))[:200])
        print("formatter:", spec, " call:", call, " level:", k, " encoding:", en)
        print("observed :", repr(real))
        if v.get("expected") is not None:
            print("expected :", repr(v["expected"]))
        if v.get("model_reply") is not None:
            print("model    :", repr(v["model_reply"]))
        bad = False
        if level is not None:
            decl = prop_xml_decl(eff) if (is_soup and recv.is_xml) else ""
            body, flags = demanded_text(recv, Pieces(soup, fmt, eff), fmt, fmt.indent, int(level), call in ("c", "ec", "rc1", "rc0"))
            if not flags.get("hidden_pre"):
                want = decl + body
                if isinstance(real, bytes):
                    want = want.encode(eff, "xmlcharrefreplace")
                print("demanded :", repr(want))
                bad = real != want
        print("property " + ("VIOLATED" if bad else "holds on this input (for the formatter's own unit)"))
        return 1 if bad else 0
    if "receiver" not in c or "call" not in c or c["call"] == ["events"]:
        print(json.dumps({k: c[k] for k in c if k != "recipe"}, indent=1)[:2000])
        return 1
    recv = soup
    if c["receiver"] != "r":
        for i in c["receiver"].split("/")[0].split("."):
            recv = recv.contents[int(i)]
    spec = c["formatter"]
    farg = make_formatter_arg(spec)
    call = c["call"]
    real = do_call(recv, call, farg)
    print("receiver :", repr(str(recv))[:200])
    print("formatter:", spec, " call:", call)
    print("observed :", repr(real))
    if v.get("expected") is not None:
        print("expected :", repr(v["expected"]))
    if v.get("model_reply") is not None:
        print("model    :", repr(v["model_reply"]))
    bad = False
    k = call_level(call)
    if k is not None:
        e = E()
        fmt = farg if isinstance(farg, e["Formatter"]) else recv.formatter_for_name(farg)
        pc = Pieces(soup, fmt)
        if hasattr(recv, "is_xml") and isinstance(recv, e["BeautifulSoup"]) and recv.is_xml and real.startswith(XML_DECL):
            real = real[len(XML_DECL):]
        want, flags = demanded_text(recv, pc, fmt, fmt.indent, 0 if k is True else k, call[0] == "decode_contents")
        if not flags.get("hidden_pre"):
            print("demanded :", repr(want))
            bad = real != want
    print("property " + ("VIOLATED" if bad else "holds on this input (for the formatter's own unit)"))
    return 1 if bad else 0
