"""C15 — formatter options take effect and output is deterministic.

Real `Formatter`/`HTMLFormatter`/`XMLFormatter` construction, `formatter_for_name`, and every output entry point
(`decode`, `encode`, `prettify`, `str()`, `decode_contents`, `encode_contents`, `decode(indent_level=k)`,
`NavigableString.output_ready`) over generated trees of both flavours, against
 (a) a direct Python oracle written from the property statement (what each option is documented to do), which sees the
     options the *caller asked for* (never the attributes of the constructed object), and
 (b) the Lean model (driver ops `ctor`, `ffn`, `run`, `subst`), which runs constructor -> formatter_for_name -> rendering.
Plus: instrumented custom functions (call log vs the positions computed from the tree), all insertion orders of up to four
attributes, and subprocess runs under several PYTHONHASHSEED values (byte-identical output required)."""
import hashlib
import itertools
import json
import os
import subprocess
import sys

from .common import Ctx, Driver, REPO

MANIFEST = dict(
    text=("Lean theorems over the model of bs4/formatter.py + the rendering half of bs4/element.py, for all trees (own inductive "
          "type: every string class, None/str/list attribute values, prefixes, void and whitespace-preserving elements), all option "
          "values and every interpretation of the substitution functions: ctor_forwards_all / ctor_injective (each of the three "
          "constructors puts every accepted option, normalised, into the object; indent_normalisation: int -> spaces, negative/None -> "
          "'', str itself, other objects ' '); old_ctor_loses_indent (witness of the 4.13.0 defect: HTMLFormatter/XMLFormatter drop "
          "indent); defaults_table, registry_table (live signatures and registries = the constructor model on the documented "
          "arguments); formatter_for_name_spec (object as is / bare function -> flavour's class with defaults / name -> flavour's "
          "registry, KeyError exactly for unregistered names); render_skeleton + option_effect_{void,subst,cdata,eab,indent}_"
          "{Formatter,HTMLFormatter,XMLFormatter} (rendering = concatenation of per-token interpretations of a formatter-independent "
          "token list; each option re-interprets exactly its kind of token: void-element tag ends / ordinary strings outside cdata tags "
          "+ attribute values / ordinary strings by parent name / empty-valued attributes / indentation items of prettify, and nothing "
          "else); custom_subst_scope(+_positions) (output with f = output of the non-substituting formatter on the tree with f mapped "
          "over exactly the ordinary strings outside cdata-containing tags and the attribute values; comments, CDATA, doctypes, "
          "declarations, PIs and script/style contents untouched); attrs_sorted / attrs_sorted_deep / canon_perm (insertion order of "
          "attributes irrelevant, plain and pretty); htmlAlts_exclusive (decide +kernel over the alternatives parsed back from the "
          "live entity regex) -> regex_order_irrelevant -> hash_seed_independent (listing order of regex alternatives, of "
          "cdata_containing_tags and of attributes does not reach the output); supplied_object/function/name (every output method = "
          "resolve the formatter argument by the flavour, then render; KeyError from every method for unregistered names); "
          "custom_subst_scope_pretty; flavour_rule (_is_xml = nearest explicit known_xml on the way to the root, else the root's is_xml), "
          "output_calls_leave_no_trace + render_depends_on_current_tree_only (sessions of edits and output calls: an output call returns "
          "what it returns on the documents produced by the edits alone, flavour taken from the element's current position); "
          "copy_renders_like_original / copy_keeps_flavour_everywhere / flavour_is_positional (copy_self records is_xml=self._is_xml: a "
          "copy, detached or put anywhere, renders like its original did where it stood); subclass_defaults_take_effect / "
          "subclass_option_effects (_default reads HTML_DEFAULTS of the class in use: user subclasses declaring their own table); "
          "hidden_free_refinement / hidden_tag_is_transparent / indentation_survives_hidden_tags (Model/FormatterHidden.lean: a "
          "user-hidden tag writes nothing, its contents stand one level deeper, what follows keeps its level, no line is indented less "
          "than the receiver's level); builder side "
          "(code-mirror of handle_starttag's attribute dict incl. on_duplicate_attribute, _replace_cdata_list_attribute_values, "
          "can_be_empty_element, preserve_whitespace_tags): builder_sets_are_sets / builder_listing_order_irrelevant (empty_element_tags, "
          "preserve_whitespace_tags, cdata_list_attributes and the sets in it are consulted through membership/lookup only: equivalent "
          "configurations build the identical tree from every parse), duplicate_free_start_tag, source_attr_order_irrelevant (attribute "
          "order in start tags, at any depth, never reaches any output method), output_is_function_of_tree_and_configuration (all of it "
          "together with the regex listing and the formatter's cdata set, for every output method); code-mirror of "
          "EntitySubstitution._populate_class_variables: populate_exclusive (for EVERY input table in which no long key is a proper prefix "
          "of another and none starts with '&' the assembled alternatives are mutually exclusive), html5_table_ok (decide +kernel over the "
          "whole stdlib html5 table), populate_order_irrelevant(_live) (any relisting of the look-ahead classes and of the alternatives "
          "gives the same substitute_html); Formatter subclasses overriding attributes(): attributes_hook_default / _decides / "
          "base_attributes_ignore_insertion_order; non_str_attribute_values_are_substituted (AttrVal.other: a value that is not a str is "
          "stringified before the substitution, and is never a boolean attribute). Every theorem with hypotheses is instantiated on concrete data. Tie: the constructor grid, formatter_for_name grid and "
          "rendering through every entry point on generated trees of both flavours, three-way: real code / direct oracle / Lean model; "
          "instrumented custom functions; all attribute insertion orders; 8 user-subclass forms with their own HTML_DEFAULTS among the "
          "class forms of every stream; user-hidden tags (plain, void, whitespace-preserving; 30 % of the random trees and a fixed grid "
          "over every indent value) through driver op runh; attribute values that are not str at rendering time (int, float, "
          "bool, Decimal, PurePosixPath, a URL-like object; set on built and on parsed tags, i.e. held raw in a plain AttributeDict) in "
          "every stream; histories (hand-made builder-less elements put into a tree of one "
          "flavour, read-only operations there, moved into a tree of another flavour, rendered from the element, its descendants, its "
          "parent and the root with names/None/bare functions: equal to a never-touched twin, to the oracle for the current flavour and to "
          "the model's walk over the known_xml chain; copy.copy / copy.deepcopy / copy_self of the element and of its descendant tags, "
          "rendered detached and under a root of another flavour; known finding C15-bare-root-flavour-getattr is classified from the "
          "case: the flavour is the default of a flavour-less plain-Tag root and a tag named is_xml is in the tree or a copy carries it); "
          "parses under builder configurations (empty_element_tags / preserve_whitespace_tags / "
          "multi_valued_attributes / on_duplicate_attribute at several values, start tags with repeated keys and whitespace-separated "
          "values) against the model's build and an independent reading, then rendered three-way; the mirror of "
          "_populate_class_variables run on the generated stdlib tables against the live regex particles, CHARACTER_TO_HTML_ENTITY and "
          "HTML_ENTITY_TO_CHARACTER (all entries); subclasses overriding attributes() (insertion order / reverse sorted / base minus "
          "data-*) x 3 base classes against the hook model; subprocess runs under >= 8 PYTHONHASHSEED values: whole documents "
          "byte-identical, and every multi-code-point entity key / every first code point of one followed by each second code point and "
          "other combining marks, as text and attribute value under 'html' and 'html5', equal to the independently computed "
          "longest-key substitution for every seed (regex_particles_regular + htmlAlts_exclusive are the matching table obligations)."),
    design="7/C15",
    note=("The model's HTMLFormatter/XMLFormatter constructors mirror the REPAIRED code (indent forwarded); mkHTMLFormatterOld/"
          "mkXMLFormatterOld mirror 4.13.0 as shipped. Rendering is the recursive evaluator over an inductive tree (that _event_stream "
          "over the next_element chain is this recursion is C01/C05/C14's). substitute_xml and substitute_html are computed by the "
          "model (re.sub over the generated alternatives); substitute_html5 and user functions enter as the finite graph observed on "
          "the strings of the case (what html5 computes is C09's). PreformattedString.output_ready passes the string to the function "
          "'only to trigger side effects' (documented): the call log contains those calls, the output never depends on them. "
          "The tie between the model-assembled alternatives and the live pattern is by correspondence (compiled driver, all 1481 "
          "alternatives and both dicts), not by a kernel computation (quadratic in the table). The builder-side model takes string classes "
          "as given (string_containers is C13's), assumes tag names as html.parser reports them (lower case), and leaves callable "
          "on_duplicate_attribute handlers and namespace prefixes of parsed tags out. renderHook (attributes() overridden) covers decode, "
          "not prettify. Attribute values of cdata-containing tags are substituted (only NavigableStrings are exempt), and only the direct parent's "
          "name decides. Charset-substituting meta attribute values are C08's and are not generated here."),
    technique="Lean 4 proof (structural induction over trees, generated tables by decide +kernel) + differential correspondence + direct Python oracle + cross-process determinism runs",
)

KINDS = ["NavigableString", "PreformattedString", "CData", "ProcessingInstruction", "XMLProcessingInstruction",
         "Comment", "Declaration", "Doctype"]

# ---- the property statement, hard-coded (NOT read from the live objects) -------------------------------------------------
PROP_HTML_CDATA = ("script", "style")
PROP_AFFIX = {"NavigableString": ("", ""), "PreformattedString": ("", ""), "CData": ("<![CDATA[", "]]>"),
              "ProcessingInstruction": ("<?", ">"), "XMLProcessingInstruction": ("<?", "?>"), "Comment": ("<!--", "-->"),
              "Declaration": ("<?", "?>"), "Doctype": ("<!DOCTYPE ", ">\n")}
# documented registry: name -> (substitution, void_element_close_prefix, empty_attributes_are_booleans)
PROP_REGISTRY = {
    False: {"html": ("html", "/", False), "html5": ("html5", "", True), "html5-4.12": ("html", "", True),
            "minimal": ("xml", "/", False), None: (None, "/", False)},
    True: {"html": ("html", "/", False), "minimal": ("xml", "/", False), None: (None, "/", False)},
}

_E = {}


def E():
    if _E:
        return _E
    import bs4
    import bs4.element as el
    import bs4.formatter as fm
    from bs4.dammit import EntitySubstitution as ES
    from bs4.builder import HTMLParserTreeBuilder
    _E.update(bs4=bs4, el=el, fm=fm, ES=ES, HPTB=HTMLParserTreeBuilder)
    _E["builtin"] = {"xml": ES.substitute_xml, "html": ES.substitute_html, "html5": ES.substitute_html5}

    def upper(s):
        return s.upper()

    def ident(s):
        return s

    def mark(s):
        return "⟦" + s + "⟧"

    def quotes(s):
        return s + "\"'" if len(s) % 2 else "'" + s

    def blank(s):
        return ""
    # two anonymous functions: same __name__/__qualname__, different behaviour
    _E["custom"] = [upper, ident, mark, quotes, blank, lambda s: s.lower(), lambda s: s[::-1]]
    return _E


def ptok(s):
    return ",".join(str(ord(c)) for c in s) if s else "-"


def unptok(t):
    return "" if t == "-" else "".join(chr(int(x)) for x in t.split(","))


# ---------------------------------------------------------------------------------------------------------------------
# option values and formatter specifications (JSON-able)
# ---------------------------------------------------------------------------------------------------------------------
ES_VALUES = [None, "xml", "html", "html5", "c0", "c1", "c2", "c3", "c4", "c5", "c6"]
VECP_VALUES = ["/", "", " /", None, "//"]
CDATA_VALUES = [None, [], ["p"], ["b", "script"], ["script", "style", "pre", "div"]]
EAB_VALUES = [False, True]
# ("d",) default, ("i", n) int, ("s", str), ("N",) None, ("b", bool), ("f", 2.5) float, ("l",) a list object
INDENT_VALUES = [("i", 0), ("i", 1), ("i", 2), ("i", 3), ("i", 4), ("i", 7), ("i", -1), ("i", -5), ("s", ""), ("s", "\t"), ("s", "xy"),
                 ("s", "  "), ("N",), ("b", True), ("b", False), ("f", 2.5), ("l",)]
STOCK = ["F", "Fh", "Fx", "H", "X"]   # Formatter(), Formatter(HTML), Formatter(XML), HTMLFormatter, XMLFormatter
# user subclasses declaring their own class-level HTML_DEFAULTS (documented, public): <stock form>@<names> ; a trailing ^ = one more
# (empty) subclass level below the declaring one
SUBCLASSES = ["H@p;b", "H@", "Fh@style;pre", "F@div", "Fx@p", "X@p;b", "H@script;p^", "F@b^"]
CLASSES = STOCK + SUBCLASSES


def cls_base(code):
    return code.split("@")[0]


def cls_html_defaults(code):
    """the class's HTML_DEFAULTS['cdata_containing_tags'] as the property reads it"""
    if "@" not in code:
        return PROP_HTML_CDATA
    return tuple(sorted(x for x in code.split("@")[1].rstrip("^").split(";") if x))


_CLS = {}


def cls_object(code):
    """-> (class object, leading positional arguments)"""
    fm = E()["fm"]
    base = cls_base(code)
    stock = {"F": fm.Formatter, "Fh": fm.Formatter, "Fx": fm.Formatter, "H": fm.HTMLFormatter, "X": fm.XMLFormatter}[base]
    lead = {"F": [None], "Fh": [fm.Formatter.HTML], "Fx": [fm.Formatter.XML], "H": [], "X": []}[base]
    if "@" not in code:
        return stock, lead
    if code not in _CLS:
        c = type("Sub_" + str(len(_CLS)), (stock,), {"HTML_DEFAULTS": dict(cdata_containing_tags=set(cls_html_defaults(code)))})
        if code.endswith("^"):
            c = type("SubSub_" + str(len(_CLS)), (c,), {})
        _CLS[code] = c
    return _CLS[code], lead


def indent_value(iv):
    k = iv[0]
    if k in ("i", "s", "b", "f"):
        return iv[1]
    if k == "N":
        return None
    return [1]


def es_value(name):
    e = E()
    if name is None:
        return None
    if name in e["builtin"]:
        return e["builtin"][name]
    return e["custom"][int(name[1:])]


def es_of_value(fn):
    e = E()
    if fn is None:
        return None
    for k, v in e["builtin"].items():
        if fn == v:
            return k
    for i, v in enumerate(e["custom"]):
        if fn is v:
            return f"c{i}"
    return "?"


def build_formatter(spec):
    """spec = {"cls": .., "opts": {name: value}, "positional": bool} -> a real Formatter object"""
    e = E()
    fm = e["fm"]
    o = spec["opts"]
    kw = {}
    if "es" in o:
        kw["entity_substitution"] = es_value(o["es"])
    if "vecp" in o:
        kw["void_element_close_prefix"] = o["vecp"]
    if "cdata" in o:
        kw["cdata_containing_tags"] = None if o["cdata"] is None else set(o["cdata"])
    if "eab" in o:
        kw["empty_attributes_are_booleans"] = o["eab"]
    if "indent" in o:
        kw["indent"] = indent_value(tuple(o["indent"]))
    klass, lead = cls_object(spec["cls"])
    if spec.get("positional"):
        # every parameter positionally, in signature order, with the signature's defaults for those not in the spec
        order = ["entity_substitution", "void_element_close_prefix", "cdata_containing_tags", "empty_attributes_are_booleans", "indent"]
        dflt = {"entity_substitution": None, "void_element_close_prefix": "/", "cdata_containing_tags": None,
                "empty_attributes_are_booleans": False, "indent": 1}
        return klass(*lead, *[kw.get(k, dflt[k]) for k in order])
    if cls_base(spec["cls"]) == "F":
        return klass(**kw)
    if cls_base(spec["cls"]) == "Fh":
        return klass(language=lead[0], **kw)
    return klass(*lead, **kw)


def prop_indent(iv):
    """documented normalisation of `indent` (formatter.py docstring): non-negative int -> spaces; 0/negative/"" -> only
    newlines; str -> itself; None -> nothing; default one space. Other objects: the code's choice (one space) is accepted."""
    k = iv[0]
    if k == "d":
        return " "
    if k == "i":
        return " " * max(iv[1], 0)
    if k == "b":
        return " " * int(iv[1])
    if k == "s":
        return iv[1]
    if k == "N":
        return ""
    return " "


def intended(spec):
    """the options the caller asked for, as the property understands them -> dict(es, vecp, cdata(tuple), eab, indent(str), xml_lang)"""
    o = spec["opts"]
    xml = cls_base(spec["cls"]) in ("Fx", "X")
    cd = o.get("cdata")
    return {"es": o.get("es"), "vecp": o.get("vecp", "/"),
            "cdata": tuple(sorted(cd)) if cd is not None else (() if xml else cls_html_defaults(spec["cls"])),
            "eab": bool(o.get("eab", False)), "indent": prop_indent(tuple(o.get("indent", ("d",)))), "lang": "x" if xml else "h"}


def observed_attrs(f):
    return {"es": es_of_value(f.entity_substitution), "vecp": f.void_element_close_prefix,
            "cdata": tuple(sorted(f.cdata_containing_tags)), "eab": bool(f.empty_attributes_are_booleans), "indent": f.indent,
            "lang": "x" if f.language == "xml" else ("h" if f.language == "html" else "o")}


def es_tok(es):
    return {None: "n", "xml": "x", "html": "h", "html5": "5"}.get(es) or es


def indent_tok(iv):
    k = iv[0]
    if k == "d":
        return "i1"
    if k == "i":
        return f"i{iv[1]}"
    if k == "b":
        return f"i{int(iv[1])}"
    if k == "s":
        return "s" + ptok(iv[1])
    if k == "N":
        return "N"
    return "o"


def cfg_tok(a):
    """canonical reply format of the driver's showCfg"""
    return "|".join([a["lang"], es_tok(a["es"]), "N" if a["vecp"] is None else ptok(a["vecp"]),
                     ";".join(ptok(x) for x in a["cdata"]) if a["cdata"] else "E", "1" if a["eab"] else "0", ptok(a["indent"])])


def ctor_fmt_tok(spec, old=False):
    o = spec["opts"]
    base = cls_base(spec["cls"])
    cls = {"F": "F", "Fh": "F", "Fx": "F", "H": "HO" if old else "H", "X": "XO" if old else "X"}[base]
    if "@" in spec["cls"]:
        hd = cls_html_defaults(spec["cls"])
        cls += "@" + (";".join(ptok(x) for x in hd) if hd else "E")
    lang = {"F": "N", "Fh": "h", "Fx": "x", "H": "N", "X": "N"}[base]
    cd = o.get("cdata")
    return "/".join(["k", cls, lang, es_tok(o.get("es")), "N" if o.get("vecp", "/") is None else ptok(o.get("vecp", "/")),
                     "N" if cd is None else (";".join(ptok(x) for x in sorted(cd)) if cd else "E"),
                     "1" if o.get("eab", False) else "0", indent_tok(tuple(o.get("indent", ("d",))))])


def fmt_tok(fs):
    """fs = {"how": "obj", "spec": ...} | {"how": "name", "name": ..} | {"how": "fn", "es": ..}"""
    if fs["how"] == "obj":
        return ctor_fmt_tok(fs["spec"])
    if fs["how"] == "name":
        return "n/" + ("N" if fs["name"] is None else ptok(fs["name"]))
    return "f/" + es_tok(fs["es"])


def real_formatter_arg(fs):
    if fs["how"] == "obj":
        return build_formatter(fs["spec"])
    if fs["how"] == "name":
        return fs["name"]
    return es_value(fs["es"])


def intended_for(fs, is_xml):
    """property statement: which options are in force for this way of passing the formatter; None = KeyError"""
    if fs["how"] == "obj":
        return intended(fs["spec"])
    if fs["how"] == "fn":
        return {"es": fs["es"], "vecp": "/", "cdata": () if is_xml else PROP_HTML_CDATA, "eab": False, "indent": " ",
                "lang": "x" if is_xml else "h"}
    reg = PROP_REGISTRY[is_xml]
    if fs["name"] not in reg:
        return None
    es, vecp, eab = reg[fs["name"]]
    return {"es": es, "vecp": vecp, "cdata": () if is_xml else PROP_HTML_CDATA, "eab": eab, "indent": " ", "lang": "x" if is_xml else "h"}


# ---------------------------------------------------------------------------------------------------------------------
# trees: JSON recipes -> live trees
# ---------------------------------------------------------------------------------------------------------------------
def make_builder(flavour):
    b = E()["HPTB"]()
    if flavour == "xml":
        b.is_xml = True
        b.empty_element_tags = None
        b.preserve_whitespace_tags = set()
        b.cdata_list_attributes = {}
    elif flavour == "xhtml":          # an XML-flavoured tree that keeps HTML's element classes
        b.is_xml = True
    return b


def build_tree(recipe):
    """recipe = {"flavour": html|xml|xhtml, "markup": str | None, "nodes": [...] } -> BeautifulSoup"""
    e = E()
    b = builder_for(recipe["builder"]) if recipe.get("builder") else make_builder(recipe["flavour"])
    soup = e["bs4"].BeautifulSoup(recipe.get("markup") or "", builder=b)

    def mk(spec, parent):
        if spec[0] == "S":
            parent.append(getattr(e["el"], spec[1])(spec[2]))
            return
        _, name, prefix, attrs, kids = spec
        t = soup.new_tag(name, nsprefix=prefix or None) if prefix else soup.new_tag(name)
        for k, v in attrs:
            t.attrs[k] = decode_val(v)
        parent.append(t)
        for k in kids:
            mk(k, t)
    for spec in recipe.get("nodes") or []:
        mk(spec, soup)
    # user-hidden tags: tag.hidden = True on the tags with these indices among soup.find_all(True)
    if recipe.get("hide"):
        tags = soup.find_all(True)
        for ti in recipe["hide"]:
            if tags:
                tags[ti % len(tags)].hidden = True
    # values assigned to PARSED tags afterwards (tag[key] = obj): [[index of the tag among soup.find_all(True), key, value]]
    if recipe.get("set"):
        tags = soup.find_all(True)
        for ti, k, v in recipe["set"]:
            if tags:
                tags[ti % len(tags)][k] = decode_val(v)
    return soup


TEXTS = ["x", "a & b", "1 < 2 > 0", "\"q\" 'r'", "café ☃", "&amp; &lt x &copy;", " lead", "trail \n", "  ", "\n",
         "≧̸ ≧", "fj <>", "\U0001f600", " nb ", "&#65; &unknown;", "", "]]>", "-->", "a\tb", "≪⃒≪"]
ATTR_KEYS = ["a", "b", "c", "id", "class", "href", "data-x", "A", "é", "aa", "z9", "rel"]
ATTR_VALS = ["", "v", "a&b", "x<y", "say \"hi\"", "it's", "\"both' kinds\"", "café", "&amp;", None, ["x", "y"], ["one"], [], " ", "≧̸",
             # values that are not str at rendering time (held raw by a parsed tag's plain AttributeDict): {"obj": kind, "text": str()}
             {"obj": "int", "text": "42"}, {"obj": "float", "text": "2.5"}, {"obj": "bool", "text": "True"}, {"obj": "bool", "text": "False"},
             {"obj": "strobj", "text": "/s?lt=<1>&q=café"}, {"obj": "strobj", "text": ""}, {"obj": "strobj", "text": "say \"x\" & 'y'"},
             {"obj": "path", "text": "/a&b/c"}, {"obj": "decimal", "text": "-0.50"}, {"obj": "strobj", "text": "≪⃒ é"}]


class StrObj(object):
    """a value object (URL-like): not a str, str() gives the text"""

    def __init__(self, text):
        self.text = text

    def __str__(self):
        return self.text

    def __repr__(self):
        return "StrObj(%r)" % self.text


def decode_val(v):
    """recipe value -> the Python object put into tag.attrs"""
    if not isinstance(v, dict):
        return v
    kind, text = v["obj"], v["text"]
    if kind == "int":
        return int(text)
    if kind == "float":
        return float(text)
    if kind == "bool":
        return text == "True"
    if kind == "path":
        import pathlib
        return pathlib.PurePosixPath(text)
    if kind == "decimal":
        import decimal
        return decimal.Decimal(text)
    return StrObj(text)
TAGS = ["div", "p", "b", "i", "span", "a", "ul", "li"]
VOID = ["br", "hr", "img", "input"]
CDATA_TAGS = ["script", "style"]
PRE_TAGS = ["pre", "textarea"]
SPECIAL = ["Comment", "CData", "Doctype", "ProcessingInstruction", "XMLProcessingInstruction", "Declaration", "PreformattedString"]


def gen_nodes(r, depth, budget):
    out = []
    n = r.randint(1, 4) if depth else r.randint(1, 5)
    for _ in range(n):
        if budget[0] <= 0:
            break
        budget[0] -= 1
        x = r.random()
        if x < 0.30 or depth >= 4:
            out.append(["S", "NavigableString", r.choice(TEXTS)])
        elif x < 0.40:
            out.append(["S", r.choice(SPECIAL), r.choice(TEXTS)])
        else:
            y = r.random()
            if y < 0.18:
                name = r.choice(VOID)
            elif y < 0.34:
                name = r.choice(CDATA_TAGS)
            elif y < 0.42:
                name = r.choice(PRE_TAGS)
            else:
                name = r.choice(TAGS)
            keys = r.sample(ATTR_KEYS, r.choice([0, 0, 1, 1, 2, 3, 4]))
            attrs = [[k, r.choice(ATTR_VALS)] for k in keys]
            prefix = r.choice(["", "", "", "", "ns", "x"])
            if name in VOID and r.random() < 0.75:
                kids = []
            elif name in CDATA_TAGS:
                kids = [["S", "NavigableString", r.choice(TEXTS)] for _ in range(r.randint(0, 2))]
                if r.random() < 0.25:
                    kids.append(["T", "b", "", [], [["S", "NavigableString", "in&ner"]]])
                if r.random() < 0.2:
                    kids.append(["S", "Comment", "c&"])
            elif r.random() < 0.12:
                kids = []
            else:
                kids = gen_nodes(r, depth + 1, budget)
            out.append(["T", name, prefix, attrs, kids])
    return out


MARKUPS = [
    "<!DOCTYPE html><html><head><title>T &amp; t</title><script>if (a<b && c>d) {x=\"&amp;\"}</script><style>p>b{color:red}</style></head>"
    "<body class=\"c1 c2\" id=x><p a=\"\" b>x &lt; y<br>café<!-- c & d --><pre> keep\n  <b>this</b> </pre><textarea>\n t </textarea></p>"
    "<input disabled value=\"a&quot;b'c\"><img alt=\"\" src=\"u?a=1&amp;b=2\"></body></html>",
    "<?xml version=\"1.0\"?><root a='1'><![CDATA[x<y]]><child/>text &amp; more<?pi data?><empty></empty></root>",
    "<div><p>one<p>two &copy; &#8807;&#824;</div><ruby>k<rt>r&amp;</rt><rp>(</rp></ruby><template>t&lt;</template>",
    "<a href=\"x\" class=\"\" data-x='\"'>l</a><b></b><br/><hr><script></script><style> </style>",
    "<!--only-->", "plain &amp; text", "",
]


def gen_recipe(r, i):
    flav = r.choice(["html", "html", "xml", "xhtml"])
    if i % 7 == 3:
        return {"flavour": flav, "markup": r.choice(MARKUPS), "nodes": gen_nodes(r, 1, [4]) if r.random() < 0.4 else [],
                "set": [[r.randrange(50), r.choice(ATTR_KEYS), r.choice(ATTR_VALS[-10:])] for _ in range(r.randint(0, 3))]}
    return {"flavour": flav, "markup": None, "nodes": gen_nodes(r, 0, [r.randint(3, 22)])}


# ---------------------------------------------------------------------------------------------------------------------
# live tree -> protocol tokens, and the independent oracle over .contents
# ---------------------------------------------------------------------------------------------------------------------
def is_tag(n):
    return isinstance(n, E()["el"].Tag)


def kind_of(s):
    el = E()["el"]
    for c in type(s).__mro__:
        if c.__module__ == el.__name__ and c.__name__ in KINDS and getattr(el, c.__name__) is c:
            return c.__name__
    return "NavigableString"


def val_tok(v):
    if v is None:
        return "N"
    if isinstance(v, (list, tuple)):
        return "l" + (";".join(ptok(x) for x in v) if v else "-")
    if not isinstance(v, str):
        return "o" + ptok(str(v))      # any other object: the model gets its str()
    return "s" + ptok(str.__str__(v))


def tree_tokens(n):
    out = []
    top = n

    def rec(n):
        if is_tag(n):
            pw = n.preserve_whitespace_tags
            out.append("%s %s %s %d %d %d" % ("TH" if (n.hidden and n is not top) else "T", ptok(n.name), ptok(n.prefix or ""), 1 if n.can_be_empty_element is True else 0,
                                              1 if (pw and n.name in pw) else 0, len(n.attrs)))
            for k, v in n.attrs.items():
                out.append(f"{ptok(k)} {val_tok(v)}")
            out.append(str(len(n.contents)))
            for k in n.contents:
                rec(k)
        else:
            out.append(f"S {KINDS.index(kind_of(n))} {ptok(str.__str__(n))}")
    rec(n)
    return " ".join(out)


def subst_fn(es):
    return None if es is None else es_value(es)


def o_quote(v):
    if '"' in v:
        if "'" in v:
            return '"' + v.replace('"', "&quot;") + '"'
        return "'" + v + "'"
    return '"' + v + '"'


class Oracle:
    """The property statement as a renderer over `.contents`: options as the caller intended them."""

    def __init__(self, opts, log=None):
        self.o = opts
        self.f = subst_fn(opts["es"])
        self.log = log

    def sub(self, s, used=True):
        if self.f is None:
            return s
        if self.log is not None:
            self.log.append(s)
        return self.f(s)

    def string(self, s, parent_name):
        kind = kind_of(s)
        pre, suf = PROP_AFFIX[kind]
        v = str.__str__(s)
        exempt = parent_name is not None and parent_name in self.o["cdata"]
        if kind != "NavigableString":
            if not exempt:
                self.sub(v, used=False)       # documented side-effect call; the result is ignored
            return pre + v + suf
        return pre + (v if exempt else self.sub(v)) + suf

    def open_tag(self, t, void):
        parts = []
        for k in sorted(t.attrs):
            v = t.attrs[k]
            if v is None or (self.o["eab"] and isinstance(v, str) and v == ""):
                parts.append(k)
                continue
            if isinstance(v, (list, tuple)):
                v = " ".join(v)
            elif not isinstance(v, str):
                v = str(v)        # every attribute value's text goes through the substitution, whatever its type
            parts.append(k + "=" + o_quote(self.sub(v)))
        nm = (t.prefix + ":" if t.prefix else "") + t.name
        return "<" + nm + ("".join(" " + p for p in parts)) + ((self.o["vecp"] or "") if void else "") + ">"

    def close_tag(self, t):
        return "</" + (t.prefix + ":" if t.prefix else "") + t.name + ">"

    def node(self, n, parent_name):
        if not is_tag(n):
            return self.string(n, parent_name)
        if n.hidden:      # a hidden tag is invisible, its contents are not
            return "" if (not n.contents and n.can_be_empty_element is True) else self.contents(n)
        if not n.contents and n.can_be_empty_element is True:
            return self.open_tag(n, True)
        return self.open_tag(n, False) + self.contents(n) + self.close_tag(n)

    def contents(self, t):
        return "".join(self.node(k, t.name) for k in t.contents)

    # pretty-printing: one line per tag and per non-blank string, `indent` * depth in front; verbatim inside pre/textarea
    def pnode(self, n, level, parent_name, literal):
        ind = self.o["indent"] * level
        if not is_tag(n):
            piece = self.string(n, parent_name)
            if literal:
                return piece
            piece = piece.strip()
            return ind + piece + "\n" if piece else ""
        if n.hidden:
            # no line for the tag itself; it still is a level: its contents are one level deeper and what follows it is not affected
            if not n.contents and n.can_be_empty_element is True:
                return ""
            pw_ = n.preserve_whitespace_tags
            return self.pcontents(n, level + 1, literal or bool(pw_ and n.name in pw_))
        if not n.contents and n.can_be_empty_element is True:
            piece = self.open_tag(n, True)
            return piece if literal else ind + piece + "\n"
        op, cl = self.open_tag(n, False), self.close_tag(n)
        if literal:
            return op + self.pcontents(n, level + 1, True) + cl
        pw = n.preserve_whitespace_tags
        if pw and n.name in pw:
            return ind + op + self.pcontents(n, level + 1, True) + cl + "\n"
        return ind + op + "\n" + self.pcontents(n, level + 1, False) + ind + cl + "\n"

    def pcontents(self, t, level, literal):
        return "".join(self.pnode(k, level, t.name, literal) for k in t.contents)


XML_DECL = '<?xml version="1.0" encoding="utf-8"?>\n'


def all_nodes(soup):
    out = []

    def rec(n, path):
        out.append((n, path))
        if is_tag(n):
            for i, k in enumerate(n.contents):
                rec(k, path + (i,))
    rec(soup, ())
    return out


def node_at(soup, path):
    n = soup
    for i in path:
        n = n.contents[i]
    return n


ENTRIES = ["decode", "encode", "prettify", "prettify-bytes", "decode_contents", "encode_contents", "decode-level", "contents-level",
           "str", "output_ready", "format_string"]


def run_entry(n, entry, farg, level=2):
    """the real code; returns str or ('EXC', type name)"""
    try:
        if entry == "decode":
            return n.decode(formatter=farg)
        if entry == "encode":
            return n.encode(formatter=farg).decode("utf-8")
        if entry == "prettify":
            return n.prettify(formatter=farg)
        if entry == "prettify-bytes":
            return n.prettify(encoding="utf-8", formatter=farg).decode("utf-8")
        if entry == "decode_contents":
            return n.decode_contents(formatter=farg)
        if entry == "encode_contents":
            return n.encode_contents(formatter=farg).decode("utf-8")
        if entry == "decode-level":
            return n.decode(indent_level=level, formatter=farg)
        if entry == "contents-level":
            return n.decode_contents(indent_level=level, formatter=farg)
        if entry == "str":
            return str(n)
        if entry == "output_ready":
            return n.output_ready(farg)
        if entry == "format_string":
            return n.format_string(n, farg)
    except KeyError:
        return ("EXC", "KeyError")
    except Exception as ex:  # anything else the code raises is an observable too (never expected)
        return ("EXC", type(ex).__name__)
    raise ValueError(entry)


def oracle_entry(n, entry, opts, level=2, log=None):
    """what the property demands for this entry point under the intended options"""
    if opts is None:
        return ("EXC", "KeyError")
    o = Oracle(opts, log)
    root = is_tag(n) and n.hidden
    decl = XML_DECL if (type(n).__name__ == "BeautifulSoup" and n.is_xml) else ""
    pn = n.parent.name if n.parent is not None else None
    if entry in ("decode", "encode", "str"):
        return decl + o.contents(n) if root else o.node(n, pn)
    if entry in ("prettify", "prettify-bytes"):
        return decl + o.pcontents(n, 0, False) if root else o.pnode(n, 0, pn, False)
    if entry in ("decode_contents", "encode_contents"):
        return decl + o.contents(n)       # BeautifulSoup.decode_contents goes through BeautifulSoup.decode: declaration included
    if entry == "decode-level":
        return decl + o.pcontents(n, level, False) if root else o.pnode(n, level, pn, False)
    if entry == "contents-level":
        return decl + o.pcontents(n, level, False)
    if entry == "output_ready":
        return o.string(n, pn)
    if entry == "format_string":
        exempt = pn is not None and pn in opts["cdata"]
        v = str.__str__(n)
        return v if exempt else o.sub(v)
    raise ValueError(entry)


def model_mode(n, entry, level=2):
    """-> (mode token, prefix the harness adds, parent token)"""
    root = is_tag(n) and n.hidden
    decl = XML_DECL if (type(n).__name__ == "BeautifulSoup" and n.is_xml) else ""
    pt = "N" if n.parent is None else ptok(n.parent.name)
    if entry in ("decode", "encode", "str", "output_ready"):
        return ("C" if root else "D"), decl, pt
    if entry in ("prettify", "prettify-bytes"):
        return ("Q0" if root else "P0"), decl, pt
    if entry in ("decode_contents", "encode_contents"):
        return "C", decl, pt
    if entry == "decode-level":
        return (f"Q{level}" if root else f"P{level}"), decl, pt
    if entry == "contents-level":
        return f"Q{level}", decl, pt
    raise ValueError(entry)


GRAPH_FNS = ["html5", "c0", "c1", "c2", "c3", "c4", "c5", "c6"]


def graph_tokens(n, es_names):
    """graph of the non-modelled functions on every string they could be given while `n` is rendered"""
    strs = {""}
    for d, _ in all_nodes(n):
        if is_tag(d):
            for v in d.attrs.values():
                if isinstance(v, (list, tuple)):
                    strs.add(" ".join(v))
                elif v is not None:
                    strs.add(str(v))
        else:
            strs.add(str.__str__(d))
    toks = []
    for es in es_names:
        f = es_value(es)
        for s in sorted(strs):
            t = f(s)
            if t != s:
                toks.append(f"{es_tok(es)}~{ptok(s)}~{ptok(t)}")
    return toks


def show(x):
    return x if isinstance(x, str) else "!" + x[1]


# ---------------------------------------------------------------------------------------------------------------------
# classification of violations (known findings): none for this property once formatter.py is repaired
# ---------------------------------------------------------------------------------------------------------------------
def classify(case):
    return None


CAP = 4


def report(ctx, stream, what, **kw):
    """at most CAP violations per stream are written out (the rest are counted), so every failing stream gets its replays"""
    if kw.get("kf") in ctx.known or sum(1 for v in ctx.violations if v["stream"] == stream) < CAP:
        ctx.violation(what, stream=stream, **kw)
    else:
        ctx.count(f"{stream}:further-violations")


# ---------------------------------------------------------------------------------------------------------------------
# streams
# ---------------------------------------------------------------------------------------------------------------------
def ctor_specs(ctx):
    """the constructor grid: every class x every option at every value (one at a time, keyword and positional) + random mixes"""
    specs = []
    for cls in CLASSES:
        specs.append({"cls": cls, "opts": {}})
        for pos in (False, True):
            for v in ES_VALUES:
                specs.append({"cls": cls, "opts": {"es": v}, "positional": pos})
            for v in VECP_VALUES:
                specs.append({"cls": cls, "opts": {"vecp": v}, "positional": pos})
            for v in CDATA_VALUES:
                specs.append({"cls": cls, "opts": {"cdata": v}, "positional": pos})
            for v in EAB_VALUES:
                specs.append({"cls": cls, "opts": {"eab": v}, "positional": pos})
            for v in INDENT_VALUES:
                specs.append({"cls": cls, "opts": {"indent": list(v)}, "positional": pos})
    r = ctx.rng("ctor-mix")
    for _ in range(ctx.n(400, 4000)):
        o = {}
        if r.random() < 0.7:
            o["es"] = r.choice(ES_VALUES)
        if r.random() < 0.6:
            o["vecp"] = r.choice(VECP_VALUES)
        if r.random() < 0.6:
            o["cdata"] = r.choice(CDATA_VALUES)
        if r.random() < 0.6:
            o["eab"] = r.choice(EAB_VALUES)
        if r.random() < 0.7:
            o["indent"] = list(r.choice(INDENT_VALUES))
        specs.append({"cls": r.choice(CLASSES), "opts": o, "positional": r.random() < 0.3})
    return specs


def stream_ctor(ctx):
    specs = ctor_specs(ctx)
    lines, impl, metas = [], [], []
    for spec in specs:
        f = build_formatter(spec)
        got = observed_attrs(f)
        want = intended(spec)
        nontriv = bool(spec["opts"])
        ctx.case(("ctor", json.dumps(spec, sort_keys=True)) if nontriv else None,
                 sample={"constructor": spec, "object": cfg_tok(got)} if len(ctx.samples) < 2 else None)
        for k in spec["opts"]:
            ctx.count(f"ctor:{spec['cls']}:{k}")
        if got != want:
            lost = sorted(k for k in got if got[k] != want[k])
            report(ctx, "ctor-grid", f"constructor option does not reach the formatter object: {', '.join(lost)}",
                   case={"op": "ctor", "spec": spec}, expected=want, observed=got, kf=classify(spec))
        lines.append("c15 ctor " + ctor_fmt_tok(spec))
        impl.append(cfg_tok(got))
        metas.append((spec, got == want))
    rep = Driver().ask(lines)
    for l, a, b, (spec, ok) in zip(lines, impl, rep, metas):
        if a != b:
            ctx.corr_disagreements += 1
            if ok:   # the real object is what the property demands, so the model is wrong
                ctx.violation("model and implementation disagree (constructor)", case={"op": "ctor", "spec": spec, "line": l},
                              observed=a, model=b, stream="ctor-correspondence", no_failing_input=True)
    ctx.count("ctor:requests", len(lines))
    ctx.exhaustive_parts.append(f"constructors: {len(CLASSES)} class forms x every option at every listed value x keyword/positional "
                                f"({len(specs)} constructions incl. random mixes)")


def flavour_elements():
    """receivers for formatter_for_name: (description, element, is_xml the property expects)"""
    e = E()
    out = []
    for flav, xml in (("html", False), ("xml", True), ("xhtml", True)):
        soup = build_tree({"flavour": flav, "markup": None, "nodes": [["T", "p", "", [], [["S", "NavigableString", "t"], ["S", "Comment", "c"]]]]})
        out += [(f"{flav}:soup", soup, xml), (f"{flav}:tag", soup.p, xml), (f"{flav}:string", soup.p.contents[0], xml),
                (f"{flav}:comment", soup.p.contents[1], xml)]
    out.append(("detached:string", e["el"].NavigableString("s"), False))
    out.append(("detached:tag", e["el"].Tag(name="q"), False))
    out.append(("detached:xmltag", e["el"].Tag(name="q", is_xml=True), True))
    return out


def stream_ffn(ctx):
    names = ["html", "html5", "html5-4.12", "minimal", None, "xml", "HTML", "", "html4", "minimal "]
    fss = [{"how": "name", "name": n} for n in names] + [{"how": "fn", "es": es} for es in ES_VALUES if es is not None]
    fss += [{"how": "obj", "spec": {"cls": c, "opts": {"vecp": "", "indent": ["i", 3]}}} for c in CLASSES]
    lines, impl, metas = [], [], []
    for desc, el, xml in flavour_elements():
        for fs in fss:
            arg = real_formatter_arg(fs)
            # an object is to be used as it is (whatever its constructor made of the options: that is the ctor stream's business)
            want = observed_attrs(arg) if fs["how"] == "obj" else intended_for(fs, xml)
            try:
                got_f = el.formatter_for_name(arg)
                got = observed_attrs(got_f)
                ident = (got_f is arg) if fs["how"] == "obj" else isinstance(got_f, E()["fm"].XMLFormatter if xml else E()["fm"].HTMLFormatter)
            except KeyError:
                got, ident = None, True
            ctx.case(("ffn", desc, json.dumps(fs, sort_keys=True)))
            ctx.count(f"ffn:{fs['how']}:{'xml' if xml else 'html'}")
            ok = (got == want) and ident
            if not ok:
                report(ctx, "formatter_for_name", "formatter_for_name does not resolve as documented", case={"op": "ffn", "element": desc, "fmt": fs},
                       expected=want if want is not None else "KeyError", observed=got if got is not None else "KeyError", kf=classify(fs))
            if fs["how"] == "obj":
                a = observed_attrs(arg)
                ft = "/".join(["o", a["lang"], es_tok(a["es"]), "N" if a["vecp"] is None else ptok(a["vecp"]),
                               ";".join(ptok(x) for x in a["cdata"]) if a["cdata"] else "E", "1" if a["eab"] else "0", ptok(a["indent"])])
            else:
                ft = fmt_tok(fs)
            lines.append(f"c15 ffn {1 if xml else 0} {ft}")
            impl.append("KeyError" if got is None else cfg_tok(got))
            metas.append((desc, fs, ok))
    # instances of subclasses (attributes() overridden) are Formatter objects too: used as they are, by every element
    for (code, cname), cls in sorted(hook_classes().items()):
        obj = cls(entity_substitution=es_value("xml")) if cname != "F" else cls("html", es_value("xml"))
        for desc, el, xml in flavour_elements():
            try:
                got = el.formatter_for_name(obj)
            except Exception as ex:
                got = "!" + type(ex).__name__
            ctx.case(("ffn-subclass", desc, code, cname))
            ctx.count("ffn:subclass-instance")
            if got is not obj:
                report(ctx, "formatter_for_name", "an instance of a Formatter subclass is not used as it is",
                       case={"op": "ffn-subclass", "element": desc, "hook": code, "class": cname}, expected="the object itself",
                       observed=got if isinstance(got, str) else type(got).__name__, kf=None)
    rep = Driver().ask(lines)
    for l, a, b, (desc, fs, ok) in zip(lines, impl, rep, metas):
        if a != b:
            ctx.corr_disagreements += 1
            if ok:
                ctx.violation("model and implementation disagree (formatter_for_name)", case={"op": "ffn", "element": desc, "fmt": fs, "line": l},
                              observed=a, model=b, stream="ffn-correspondence", no_failing_input=True)
    ctx.count("ffn:requests", len(lines))


def random_fmt(r):
    x = r.random()
    if x < 0.22:
        return {"how": "name", "name": r.choice(["html", "html5", "html5-4.12", "minimal", None, "minimal", "html"])}
    if x < 0.34:
        return {"how": "fn", "es": r.choice([e for e in ES_VALUES if e is not None])}
    o = {}
    which = r.choice(["es", "vecp", "cdata", "eab", "indent", "mix", "mix"])
    base_es = r.choice(["xml", "html", "html5", "c0", "c2", "c3", None])
    if which != "es":
        o["es"] = base_es
    if which in ("es", "mix"):
        o["es"] = r.choice(ES_VALUES)
    if which in ("vecp",) or (which == "mix" and r.random() < 0.5):
        o["vecp"] = r.choice(VECP_VALUES)
    if which in ("cdata",) or (which == "mix" and r.random() < 0.5):
        o["cdata"] = r.choice(CDATA_VALUES)
    if which in ("eab",) or (which == "mix" and r.random() < 0.5):
        o["eab"] = r.choice(EAB_VALUES)
    if which in ("indent",) or (which == "mix" and r.random() < 0.5):
        o["indent"] = list(r.choice(INDENT_VALUES))
    return {"how": "obj", "spec": {"cls": r.choice(CLASSES), "opts": o, "positional": r.random() < 0.2}}


class Batch:
    def __init__(self, ctx):
        self.ctx = ctx
        self.lines, self.meta = [], []

    def add(self, line, real, prefix, case, ok):
        self.lines.append(line)
        self.meta.append((real, prefix, case, ok))

    def flush(self):
        if not self.lines:
            return
        ctx = self.ctx
        rep = Driver().ask(self.lines)
        for l, ans, (real, prefix, case, ok) in zip(self.lines, rep, self.meta):
            if ans == "KeyError":
                model = "!KeyError"
            elif ans.startswith("bad") or ans.startswith("["):
                model = ans
            else:
                model = prefix + unptok(ans)
            if model != real:
                ctx.corr_disagreements += 1
                if ok and sum(1 for v in ctx.violations if v["stream"] == "render-correspondence") < 10:
                    ctx.violation("model and implementation disagree (rendering)", case=case | {"line": l[:2000]}, observed=real,
                                  model=model, stream="render-correspondence", no_failing_input=True)
        ctx.count("render:requests", len(self.lines))
        self.lines, self.meta = [], []


def check_render(ctx, batch, recipe, soup, path, fs, entry, stream, level=2):
    n = node_at(soup, path)
    xml = bool(soup.is_xml)
    farg = real_formatter_arg(fs)
    real = show(run_entry(n, entry, farg, level))
    opts = intended_for(fs, xml)
    if entry == "str":
        opts = intended_for({"how": "name", "name": "minimal"}, xml)
    want = show(oracle_entry(n, entry, opts, level))
    case = {"op": "render", "recipe": recipe, "path": list(path), "fmt": fs, "entry": entry, "level": level}
    ok = real == want
    nontriv = opts is not None and (real != show(oracle_entry(n, entry, intended_for({"how": "name", "name": None}, xml), level))
                                    or fs["how"] == "obj")
    ctx.case((stream, json.dumps(case, sort_keys=True, default=str)) if nontriv else None,
             sample={"tree": str(soup)[:200], "fmt": fs, "entry": entry, "output": real[:200]} if len(ctx.samples) < 8 and nontriv else None)
    ctx.count(f"entry:{entry}")
    ctx.count(f"how:{fs['how']}")
    if not ok:
        report(ctx, stream, f"output through {entry} is not what the formatter options call for", case=case, expected=want, observed=real,
               kf=classify(case))
    if entry == "format_string":
        return ok
    mfs = fs if entry != "str" else {"how": "name", "name": "minimal"}
    mode, prefix, pt = model_mode(n, entry, level)
    g = graph_tokens(n, GRAPH_FNS)
    tt = tree_tokens(n)
    op = "runh" if "TH " in tt else "run"
    batch.add(f"c15 {op} {1 if xml else 0} {fmt_tok(mfs)} {mode} {pt} {len(g)} {' '.join(g)} {tt}".replace("  ", " "),
              real, prefix, case, ok)
    return ok


def stream_render(ctx, batch, ntrees):
    r = ctx.rng("render")
    for i in range(ntrees):
        recipe = gen_recipe(r, i)
        if r.random() < 0.3:
            recipe["hide"] = [r.randrange(40) for _ in range(r.choice([1, 1, 2, 3]))]
        soup = build_tree(recipe)
        nodes = all_nodes(soup)
        ctx.count("tree:with-hidden-tags" if recipe.get("hide") else "tree:no-hidden-tags")
        tags = [(n, p) for n, p in nodes if is_tag(n)]
        strs = [(n, p) for n, p in nodes if not is_tag(n)]
        ctx.count(f"flavour:{recipe['flavour']}")
        for n, _ in nodes:
            if is_tag(n):
                ctx.count("node:void" if (not n.contents and n.can_be_empty_element is True) else "node:tag")
                for v in n.attrs.values():
                    ctx.count("attr:" + ("none" if v is None else "list" if isinstance(v, list) else "non-str" if not isinstance(v, str)
                                         else "empty" if v == "" else "str"))
            else:
                ctx.count("node:" + kind_of(n) + (":in-cdata-tag" if n.parent is not None and n.parent.name in PROP_HTML_CDATA else ""))
        for _ in range(10):
            fs = random_fmt(r)
            # the root, one random element, one random string
            targets = [()]
            if len(tags) > 1:
                targets.append(r.choice(tags[1:])[1])
            for p in targets:
                for entry in r.sample(["decode", "encode", "prettify", "prettify-bytes", "decode_contents", "encode_contents",
                                       "decode-level", "contents-level"], 3):
                    check_render(ctx, batch, recipe, soup, p, fs, entry, "render", level=r.choice([1, 2, 3]))
            if strs:
                sn, sp = r.choice(strs)
                check_render(ctx, batch, recipe, soup, sp, fs, "output_ready", "render")
                if kind_of(sn) == "NavigableString":
                    check_render(ctx, batch, recipe, soup, sp, fs, "format_string", "render")
        check_render(ctx, batch, recipe, soup, (), {"how": "name", "name": "minimal"}, "str", "render")
        if len(batch.lines) > 4000:
            batch.flush()


def stream_option_grid(ctx, batch):
    """one fixed document per flavour x every class x every option at every value x prettify + decode: the grid of the quantifier"""
    nodes = [["S", "Doctype", "html"],
             ["T", "div", "", [["b", "x&y"], ["a", ""], ["c", None], ["class", ["k", "l"]]],
              [["S", "NavigableString", "t < u & é"], ["T", "br", "", [], []], ["T", "p", "", [["q", "\"'"]], [["S", "NavigableString", "in p &"]]],
               ["T", "script", "", [["src", "a&b"]], [["S", "NavigableString", "1 < 2 && 3"]]], ["S", "Comment", " c & d "],
               ["S", "CData", "x<y"], ["T", "pre", "", [], [["S", "NavigableString", " keep \n"], ["T", "b", "", [], [["S", "NavigableString", "z&"]]]]],
               ["T", "b", "", [], [["S", "NavigableString", "bold&"]]], ["T", "ul", "", [], [["T", "li", "", [], [["S", "NavigableString", " "]]]]]]]]
    for flav in ("html", "xml", "xhtml"):
        recipe = {"flavour": flav, "markup": None, "nodes": nodes}
        soup = build_tree(recipe)
        for cls in CLASSES:
            grid = [{}]
            grid += [{"es": v} for v in ES_VALUES] + [{"es": "c2", "cdata": v} for v in CDATA_VALUES]
            if cls in STOCK:     # (a subclass form differs from its stock class in the cdata default only)
                grid += [{"es": "xml", "vecp": v} for v in VECP_VALUES] + [{"es": "html", "eab": v} for v in EAB_VALUES]
                grid += [{"es": "xml", "indent": list(v)} for v in INDENT_VALUES]
            else:
                grid += [{"es": "xml", "vecp": ""}, {"es": "html", "eab": True}, {"es": "xml", "indent": ["i", 3]}, {"es": "xml", "indent": ["s", "\t"]}]
            for o in grid:
                fs = {"how": "obj", "spec": {"cls": cls, "opts": o}}
                for entry, path in (("decode", ()), ("prettify", ()), ("prettify", (1,)), ("decode_contents", (1,)), ("contents-level", (1,))):
                    check_render(ctx, batch, recipe, soup, path, fs, entry, "option-grid", level=2)
        # the same document with user-hidden tags (a plain one, a void one, a whitespace-preserving one) followed by more content:
        # every indent value x every class form x prettify/decode of the root, of the parent of the hidden tags, of a hidden tag
        recipe_h = dict(recipe, hide=[2, 1, 4, 7])  # <p>, <br>, <pre>, <ul> among find_all(True) = div br p script pre b b ul li
        soup_h = build_tree(recipe_h)
        for cls in STOCK + SUBCLASSES[:2]:
            for v in INDENT_VALUES:
                fs = {"how": "obj", "spec": {"cls": cls, "opts": {"es": "xml", "indent": list(v)}}}
                for entry, path in (("prettify", ()), ("prettify", (1,)), ("contents-level", (1,)), ("prettify", (1, 2)), ("decode", (1,))):
                    check_render(ctx, batch, recipe_h, soup_h, path, fs, entry, "option-grid", level=2)
        for nm in PROP_REGISTRY[False]:
            check_render(ctx, batch, recipe_h, soup_h, (), {"how": "name", "name": nm}, "prettify", "option-grid")
        check_render(ctx, batch, recipe_h, soup_h, (1,), {"how": "fn", "es": "c0"}, "prettify", "option-grid")
        for nm in PROP_REGISTRY[False]:
            for entry in ("decode", "prettify"):
                check_render(ctx, batch, recipe, soup, (), {"how": "name", "name": nm}, entry, "option-grid")
        for es in ES_VALUES[1:]:
            check_render(ctx, batch, recipe, soup, (), {"how": "fn", "es": es}, "prettify", "option-grid")
    ctx.exhaustive_parts.append("option grid: 3 flavours x 5 class forms x every option at every listed value x {decode, prettify, "
                                "element prettify, decode_contents, decode_contents(indent_level)} + every registered name + bare functions")


def stream_call_log(ctx, ntrees):
    """an instrumented custom function: the multiset (and order) of its arguments vs the positions computed from the tree"""
    e = E()
    r = ctx.rng("calllog")
    lines, impl, metas = [], [], []
    for i in range(ntrees):
        recipe = gen_recipe(r, i)
        soup = build_tree(recipe)
        xml = bool(soup.is_xml)
        cd = r.choice(CDATA_VALUES + [None, None])
        eab = r.choice(EAB_VALUES)
        cls = r.choice(CLASSES)
        how = r.choice(["obj", "obj", "fn"])
        log = []

        def spy(s, log=log):
            log.append(str.__str__(s) if isinstance(s, str) else s)
            return "⟦" + s + "⟧"
        if how == "fn":
            farg = spy
            opts = {"es": "c2", "vecp": "/", "cdata": () if xml else PROP_HTML_CDATA, "eab": False, "indent": " ", "lang": "x" if xml else "h"}
            mfs = {"how": "fn", "es": "c2"}
        else:
            spec = {"cls": cls, "opts": {"es": "c2", "cdata": cd, "eab": eab}}
            kw = dict(entity_substitution=spy, cdata_containing_tags=None if cd is None else set(cd), empty_attributes_are_booleans=eab)
            fm = e["fm"]
            klass, lead = cls_object(cls)
            farg = klass(*lead, **kw) if cls_base(cls) != "F" else klass(**kw)
            opts = intended(spec)
            mfs = {"how": "obj", "spec": spec}
        tags = [p for n, p in all_nodes(soup) if is_tag(n)]
        path = r.choice(tags)
        n = node_at(soup, path)
        try:
            out = n.decode(formatter=farg)
        except Exception as ex:
            out = "!" + type(ex).__name__
        want_log = []
        want = show(oracle_entry(n, "decode", opts, log=want_log))
        case = {"op": "calllog", "recipe": recipe, "path": list(path), "how": how, "cls": cls, "cdata": cd, "eab": eab}
        ctx.case(("calllog", i) if want_log else None)
        ctx.count("calllog:calls", len(log))
        if out != want or sorted(log) != sorted(want_log) or log != want_log:
            report(ctx, "call-log", "a custom substitution function is not applied to exactly the text nodes and attribute values outside cdata-containing tags",
                   case=case, expected={"output": want, "calls": want_log}, observed={"output": out, "calls": log}, kf=classify(case))
        if not (is_tag(n) and n.hidden):
            pt = "N" if n.parent is None else ptok(n.parent.name)
            lines.append(f"c15 run {1 if xml else 0} {fmt_tok(mfs)} L {pt} 0 {tree_tokens(n)}")
            impl.append("[" + ";".join(ptok(s) for s in log) + "]")
            metas.append((case, log == want_log))
    rep = Driver().ask(lines)
    for l, a, b, (case, ok) in zip(lines, impl, rep, metas):
        if a != b:
            ctx.corr_disagreements += 1
            if ok:
                ctx.violation("model and implementation disagree (call log)", case=case | {"line": l[:2000]}, observed=a, model=b,
                              stream="calllog-correspondence", no_failing_input=True)
    ctx.count("calllog:requests", len(lines))


def stream_attr_orders(ctx, batch, n):
    """all insertion orders of up to four attributes: identical output, and equal to the oracle/model"""
    r = ctx.rng("attrs")
    e = E()
    for i in range(n):
        k = r.choice([2, 3, 3, 4, 4])
        keys = r.sample(ATTR_KEYS, k)
        attrs = [[key, r.choice(ATTR_VALS)] for key in keys]
        flav = r.choice(["html", "xml"])
        fs = random_fmt(r)
        xml = flav != "html"
        opts = intended_for(fs, xml)
        if opts is None:
            continue
        outs = {}
        child = r.choice(["br", "b"])
        for perm in itertools.permutations(attrs):
            recipe = {"flavour": flav, "markup": None,
                      "nodes": [["T", "div", "", [list(a) for a in perm], [["T", child, "", [list(a) for a in reversed(perm)], []]]]]}
            soup = build_tree(recipe)
            farg = real_formatter_arg(fs)
            outs[json.dumps(perm)] = (soup.decode(formatter=farg), soup.prettify(formatter=farg), recipe)
        distinct = {(a, b) for a, b, _ in outs.values()}
        ctx.case(("attrs", i))
        ctx.count(f"attr-orders:{k}")
        if len(distinct) != 1:
            a, b = list(outs.items())[0], [x for x in outs.items() if (x[1][0], x[1][1]) != (list(outs.values())[0][0], list(outs.values())[0][1])][0]
            report(ctx, "attr-orders", "output depends on the insertion order of attributes",
                   case={"op": "attr-order", "recipe_a": a[1][2], "recipe_b": b[1][2], "fmt": fs}, expected=a[1][0], observed=b[1][0], kf=None)
        # one order through the full three-way check
        recipe = list(outs.values())[r.randrange(len(outs))][2]
        check_render(ctx, batch, recipe, build_tree(recipe), (), fs, "decode", "attr-orders")
    ctx.exhaustive_parts.append("attribute insertion orders: all permutations of 2-4 attributes on a parent and (reversed) on its child")


def stream_subst(ctx):
    """the model's substitute_xml / substitute_html against the real functions (the rest of entity substitution is C09's)"""
    ES = E()["ES"]
    r = ctx.rng("subst")
    keys = sorted(ES.CHARACTER_TO_HTML_ENTITY)
    strs = list(TEXTS) + [k for k in keys] + [k + "x" for k in keys if len(k) == 1][:400]
    for _ in range(ctx.n(600, 6000)):
        strs.append("".join(r.choice(["&", "<", ">", "a", " ", "≧", "̸", "≪", "⃒", "é", "\"", "fj", r.choice(keys)])
                            for _ in range(r.randint(1, 8))))
    lines, impl = [], []
    for s in strs:
        lines += [f"c15 subst x {ptok(s)}", f"c15 subst h {ptok(s)}", f"c15 substrev {ptok(s)}", f"c15 substpop {ptok(s)}"]
        h = ES.substitute_html(s)
        impl += [ptok(ES.substitute_xml(s)), ptok(h), ptok(h), ptok(h)]
    rep = Driver().ask(lines)
    bad = 0
    for l, a, b in zip(lines, impl, rep):
        ctx.case(None)
        if a != b:
            ctx.corr_disagreements += 1
            bad += 1
            if bad <= 5:
                ctx.violation("model and implementation disagree (entity substitution; the regex alternatives in table order / reversed)",
                              case={"op": "subst", "line": l}, observed=a, model=b, stream="subst-correspondence", no_failing_input=True)
    ctx.count("subst:requests", len(lines))


CHILD = r'''
import sys, json, hashlib
sys.path.insert(0, sys.argv[1])
import warnings; warnings.simplefilter("ignore")
from bs4 import BeautifulSoup
from bs4.formatter import Formatter, HTMLFormatter, XMLFormatter
from bs4.dammit import EntitySubstitution as ES
docs = json.load(sys.stdin)
out = []
for m in docs:
    s = BeautifulSoup(m, "html.parser")
    for t in s.find_all(True):
        if len(t.attrs) >= 2:   # rebuild the dict in a set-dependent order: iteration order of a set of strings depends on the hash seed
            items = list(t.attrs.items()); t.attrs.clear()
            for k in set(k for k, _ in items):
                t.attrs[k] = dict(items)[k]
    row = []
    for f in ("html", "html5", "html5-4.12", "minimal", None):
        row.append(s.decode(formatter=f)); row.append(s.prettify(formatter=f))
    row.append(s.decode(formatter=HTMLFormatter(ES.substitute_html, cdata_containing_tags={"script", "style", "p", "b", "div", "pre"})))
    row.append(s.decode(formatter=Formatter(Formatter.HTML, ES.substitute_html, "", {"x", "y", "z", "script", "i"}, True, 3)))
    row.append(s.decode(formatter=XMLFormatter(ES.substitute_html)))
    row.append(s.encode(formatter="html").decode("utf8"))
    out.append(row)
pat = ES.CHARACTER_TO_HTML_ENTITY_WITH_AMPERSAND_RE.pattern
print(json.dumps({"out": out, "pattern_sha": hashlib.sha256(pat.encode()).hexdigest(), "set_order": "".join(set("abcdefgh"))}))
'''


def determinism_docs(ctx):
    r = ctx.rng("determinism")
    docs = list(MARKUPS)
    ES = E()["ES"]
    keys = sorted(ES.CHARACTER_TO_HTML_ENTITY)
    for _ in range(ctx.n(40, 200)):
        parts = []
        for _ in range(r.randint(2, 8)):
            t = r.choice(TAGS + VOID + CDATA_TAGS)
            attrs = " ".join(f'{k}="{r.choice(["", "v&amp;w", "x y", chr(0xe9), r.choice(keys)])}"' for k in r.sample(["a", "b", "c", "id", "class", "zz", "data-q"], r.randint(0, 5)))
            body = "".join(r.choice([r.choice(keys), "&amp;", "&lt;", " t ", "≧̸", "≧", "≪⃒", "x"]) for _ in range(r.randint(0, 6)))
            parts.append(f"<{t} {attrs}>{body}</{t}>" if t not in VOID else f"<{t} {attrs}>")
        docs.append("".join(parts))
    return docs


def run_child(docs, seed):
    env = dict(os.environ)
    env["PYTHONHASHSEED"] = str(seed)
    p = subprocess.run([sys.executable, "-c", CHILD, str(REPO)], input=json.dumps(docs), capture_output=True, text=True, env=env)
    if p.returncode != 0:
        raise RuntimeError("determinism child failed: " + p.stderr[-800:])
    return json.loads(p.stdout)


def stream_determinism(ctx):
    docs = determinism_docs(ctx)
    seeds = hash_seeds(ctx)
    res = run_children(CHILD, docs, seeds)
    base = res[seeds[0]]
    ctx.extra["hash_seeds"] = seeds
    ctx.extra["distinct_regex_orders_seen"] = len({r["pattern_sha"] for r in res.values()})
    ctx.extra["distinct_set_orders_seen"] = len({r["set_order"] for r in res.values()})
    for s in seeds[1:]:
        for di, (a, b) in enumerate(zip(base["out"], res[s]["out"])):
            ctx.case(("hashseed", s, di))
            if a != b:
                j = [i for i, (x, y) in enumerate(zip(a, b)) if x != y][0]
                report(ctx, "hash-seed", "output depends on PYTHONHASHSEED",
                       case={"op": "hashseed", "markup": docs[di], "seeds": [seeds[0], s], "rendering": j}, expected=a[j], observed=b[j], kf=None)
    ctx.count("hashseed:documents", len(docs))
    ctx.count("hashseed:seeds", len(seeds))
    if ctx.extra["distinct_regex_orders_seen"] < 2:
        ctx.notes.append("all hash seeds produced the same regex alternative order (unexpected): the determinism runs were trivial")


ENT_CHILD = r"""
import sys, json
sys.path.insert(0, sys.argv[1])
import warnings; warnings.simplefilter("ignore")
from bs4 import BeautifulSoup
texts = json.load(sys.stdin)
soup = BeautifulSoup("", "html.parser")
out = []
for t in texts:
    tag = soup.new_tag("b")
    tag["title"] = t
    tag.string = t
    out.append([tag.decode(formatter="html"), tag.decode(formatter="html5")])
print(json.dumps(out))
"""


def entity_keyset():
    """The character sequences the 'html'/'html5' formatters are documented to replace, computed WITHOUT the regex: the values of
    the stdlib's html5 table, except single ASCII characters other than < > and all-ASCII sequences (dammit.py:186-204)."""
    from html.entities import html5
    keys = set()
    for v in html5.values():
        if len(v) == 1 and ord(v) < 128 and v not in "<>":
            continue
        if len(v) > 1 and all(ord(x) < 128 for x in v):
            continue
        if v == "&":
            continue
        keys.add(v)
    return keys


def expected_entities(s, keys, maxlen, names):
    """longest key wins, left to right; `names` = the live CHARACTER_TO_HTML_ENTITY (which name is chosen is C09's business)"""
    out, i = [], 0
    while i < len(s):
        for k in range(min(maxlen, len(s) - i), 0, -1):
            cand = s[i:i + k]
            if cand in keys:
                out.append("&%s;" % names[cand])
                i += k
                break
        else:
            out.append(s[i])
            i += 1
    return "".join(out)


def entity_texts(ctx):
    """every multi-code-point key; every one-code-point key that starts a longer key followed by each possible second code point
    and by other combining marks; each in several contexts. No '&', quotes or angle brackets besides the keys themselves."""
    keys = entity_keyset()
    longs = sorted(k for k in keys if len(k) > 1)
    seconds = sorted({k[1] for k in longs})
    marks = sorted(set(seconds) | set("̸⃒⃥̀́︀︁̳̱‍"))
    firsts = sorted({k[0] for k in longs})
    texts = []

    def contexts(t):
        return [t, "a" + t + "b", t + t, " " + t + "́", t + "x" + t[:1]]
    for k in longs:
        texts += contexts(k)
        texts.append(k + k[1:])            # the key followed by its own tail once more
    for c in firsts:
        texts += [c, c + "z", "q" + c]
        for m in marks:
            texts += contexts(c + m)
            for m2 in seconds[:4] + [m]:
                texts.append(c + m + m2)   # two marks in a row (a look-ahead for a *sequence* shows here)
    # all-ASCII sequences and single ASCII characters with names must be left alone
    texts += ["fj", "a|b", "x=y+z", "tab\there"]
    r = ctx.rng("entity-seeds")
    allkeys = sorted(keys)
    for _ in range(ctx.n(300, 3000)):
        texts.append("".join(r.choice([r.choice(firsts), r.choice(marks), r.choice(allkeys), "a", " "]) for _ in range(r.randint(2, 6))))
    seen, out = set(), []
    for t in texts:
        if t not in seen and not any(ch in t for ch in "&\"'"):
            seen.add(t)
            out.append(t)
    return out, keys, max(len(k) for k in keys)


def run_children(code, payload, seeds):
    """the same child under each PYTHONHASHSEED, in parallel -> {seed: parsed stdout}"""
    procs = {}
    for sd in seeds:
        env = dict(os.environ)
        env["PYTHONHASHSEED"] = str(sd)
        procs[sd] = subprocess.Popen([sys.executable, "-c", code, str(REPO)], stdin=subprocess.PIPE, stdout=subprocess.PIPE,
                                     stderr=subprocess.PIPE, text=True, env=env)
    res = {}
    for sd, p in procs.items():
        o, e = p.communicate(json.dumps(payload))
        if p.returncode != 0:
            raise RuntimeError(f"child under PYTHONHASHSEED={sd} failed: " + e[-800:])
        res[sd] = json.loads(o)
    return res


def hash_seeds(ctx):
    return [0, 1, 2, 3, 5, 7, 11, 42, 4, 6, 1234, 99999][: ctx.n(8, 12)]


def stream_entity_seeds(ctx):
    """'html'/'html5' output for every entity key and every near-miss of a multi-code-point key, under every hash seed, against the
    independently computed substitution (and read back with html.unescape)"""
    import html as pyhtml
    ES = E()["ES"]
    texts, keys, maxlen = entity_texts(ctx)
    names = ES.CHARACTER_TO_HTML_ENTITY
    missing = sorted(k for k in keys if k not in names)
    seeds = hash_seeds(ctx)
    res = run_children(ENT_CHILD, texts, seeds)
    ctx.count("entity-seeds:texts", len(texts))
    ctx.count("entity-seeds:seeds", len(seeds))
    for ti, t in enumerate(texts):
        if any(t[i:i + k] in missing for i in range(len(t)) for k in range(1, maxlen + 1)):
            continue
        exp = expected_entities(t, keys, maxlen, names)
        want = f'<b title="{exp}">{exp}</b>'
        for fi, fname in enumerate(("html", "html5")):
            outs = {sd: res[sd][ti][fi] for sd in seeds}
            ctx.case(("entity-seed", t, fname) if exp != t else None)
            distinct = sorted(set(outs.values()))
            bad = [sd for sd in seeds if outs[sd] != want]
            if not bad:
                if pyhtml.unescape(exp) != t:
                    report(ctx, "entity-seeds", "substituted text does not read back (html.unescape) as the original",
                           case={"op": "entity-seed", "text": t, "formatter": fname, "seeds": seeds[:2]}, expected=t,
                           observed=pyhtml.unescape(exp), kf=None)
                continue
            good = [sd for sd in seeds if outs[sd] == want]
            if len(distinct) > 1:
                other = good[0] if good else [sd for sd in seeds if outs[sd] != outs[bad[0]]][0]
                report(ctx, "entity-seeds", f"output of the '{fname}' formatter depends on PYTHONHASHSEED",
                       case={"op": "entity-seed", "text": t, "formatter": fname, "seeds": [other, bad[0]]},
                       expected=want, observed={str(sd): outs[sd] for sd in seeds}, kf=None)
            else:
                report(ctx, "entity-seeds", f"the '{fname}' formatter does not replace the longest entity key at each position",
                       case={"op": "entity-seed", "text": t, "formatter": fname, "seeds": seeds[:2]}, expected=want,
                       observed=outs[seeds[0]], kf=None)
    ctx.exhaustive_parts.append(f"entity keys under hash seeds: every multi-code-point key of the html5 table and every first code point "
                                f"of one x every second code point / combining mark, 5 contexts, text and attribute value, 'html' and "
                                f"'html5', {len(seeds)} PYTHONHASHSEED values ({len(texts)} texts)")


# ---------------------------------------------------------------------------------------------------------------------
# histories: hand-made (builder-less) elements rendered in one tree, moved into a tree of the other flavour, rendered again
# ---------------------------------------------------------------------------------------------------------------------
TOUCHES = ["str", "decode-fn", "decode-name", "prettify-name", "output_ready", "output_ready-fn", "format_string", "copy",
           "encode", "decode_contents-fn", "parent-decode", "is_xml"]
MOVES = ["append", "extract+append", "insert0", "replace_with", "insert_before", "extend"]
ROOTS = ["htmlsoup", "xmlsoup", "xmltag", "htmltag", "baretag"]   # baretag: Tag(name="root") with no flavour at all


def make_root(kind, flags):
    """-> (root object, container into which things are put); records the explicit flavour of every node made"""
    e = E()
    el = e["el"]
    if kind in ("htmlsoup", "xmlsoup"):
        soup = e["bs4"].BeautifulSoup("<div><i>ph</i></div>", builder=make_builder("html" if kind == "htmlsoup" else "xhtml"))
        for n, _ in all_nodes(soup):
            flags[id(n)] = (kind == "xmlsoup") if is_tag(n) else None
        return soup, soup.div
    fl = {"xmltag": True, "htmltag": False, "baretag": None}[kind]
    root = el.Tag(name="root", is_xml=fl) if fl is not None else el.Tag(name="root")
    flags[id(root)] = fl
    ph = el.Tag(name="i")
    flags[id(ph)] = None
    root.append(ph)
    return root, root


def make_hand(spec, flags):
    e = E()
    el = e["el"]
    if spec[0] == "S":
        n = getattr(el, spec[1])(spec[2])
        flags[id(n)] = None
        return n
    _, name, flag, attrs, kids = spec
    kw = {} if flag is None else {"is_xml": flag}
    t = el.Tag(name=name, attrs=dict((k, decode_val(v)) for k, v in attrs), **kw)
    flags[id(t)] = flag
    for k in kids:
        t.append(make_hand(k, flags))
    return t


def gen_hand(r, depth=0):
    name = r.choice(["script", "style", "p", "b", "br", "pre", "div"])
    attrs = [[k, r.choice(["", "v", "a&b", "x<y", None, {"obj": "strobj", "text": "u?a=1&b=<2>"}, {"obj": "int", "text": "7"}])]
             for k in r.sample(["a", "b", "id"], r.choice([0, 1, 2]))]
    kids = []
    for _ in range(r.randint(0 if name == "br" else 1, 3)):
        if depth < 2 and r.random() < 0.3:
            kids.append(gen_hand(r, depth + 1))
        else:
            kids.append(["S", r.choice(["NavigableString", "NavigableString", "NavigableString", "Comment", "CData"]),
                         r.choice(["if (a < b) c", "x & y", "é<", "1 && 2", " t "])])
    return ["T", name, r.choice([None, None, None, None, True, False]), attrs, kids]


def do_touch(el_, touch):
    import copy
    e = E()
    NS = e["el"].NavigableString
    strs = [d for d in ([el_] + list(el_.descendants)) if isinstance(d, NS)] if is_tag(el_) else [el_]
    if touch == "str":
        str(el_)
    elif touch == "decode-fn":
        el_.decode(formatter=e["custom"][0])
    elif touch == "decode-name":
        el_.decode(formatter="html")
    elif touch == "prettify-name":
        el_.prettify(formatter="minimal")
    elif touch == "encode":
        el_.encode(formatter="minimal")
    elif touch == "decode_contents-fn":
        el_.decode_contents(formatter=e["custom"][2])
    elif touch == "output_ready":
        for s_ in strs:
            s_.output_ready()
    elif touch == "output_ready-fn":
        for s_ in strs:
            s_.output_ready(e["custom"][0])
    elif touch == "format_string":
        for s_ in strs:
            s_.format_string(s_, "minimal")
    elif touch == "copy":
        copy.copy(el_)
    elif touch == "parent-decode":
        if el_.parent is not None:
            el_.parent.decode(formatter="minimal")
    elif touch == "is_xml":
        el_._is_xml
        for s_ in strs:
            s_._is_xml


def do_move(el_, container, move):
    if move == "append":
        container.append(el_)
    elif move == "extract+append":
        el_.extract()
        container.append(el_)
    elif move == "insert0":
        container.insert(0, el_)
    elif move == "replace_with":
        container.contents[0].replace_with(el_)
    elif move == "insert_before":
        container.contents[0].insert_before(el_)
    elif move == "extend":
        container.extend([el_])


def take_copy(orig, how, flags):
    """copy.copy / copy.deepcopy / copy_self of a tag; every copied tag is recorded with the flavour its original has NOW
    (the documented rule: a copy is an element of the same flavour as its original), strings with none"""
    import copy
    e = E()
    if how == "copy_self":
        c = orig.copy_self()
        pairs = [(orig, c)]
    else:
        c = copy.copy(orig) if how == "copy" else copy.deepcopy(orig)
        pairs = list(zip([orig] + list(orig.descendants), [c] + list(c.descendants)))
    for o, n in pairs:
        flags[id(n)] = flavour_of(o, flags) if is_tag(o) else None
        if is_tag(o) and flavour_source(o, flags) == "default":
            flags.setdefault("_defaulted", set()).add(id(n))
    return c


def flavour_source(n, flags):
    """'explicit' (a flavour given at construction somewhere on the way up, or a BeautifulSoup root) or 'default' (nothing on the way
    up and the root is a plain Tag/string: the documented guess 'HTML'; also a copy of an element whose flavour was that guess)"""
    x = n
    while True:
        if flags.get(id(x)) is not None:
            return "default" if id(x) in flags.get("_defaulted", ()) else "explicit"
        if x.parent is None:
            return "explicit" if type(x).__name__ == "BeautifulSoup" else "default"
        x = x.parent


def classify_history(n, flags, root):
    """known finding C15-bare-root-flavour-getattr: the receiver's flavour is the default of a flavour-less plain-Tag root and either a
    tag named is_xml is in that tree or the flavour reaches the receiver through a copy"""
    if flavour_source(n, flags) != "default":
        return None
    x = n
    while x is not None:
        if id(x) in flags.get("_defaulted", ()):
            return "C15-bare-root-flavour-getattr"
        top = x
        x = x.parent
    if is_tag(top) and top.find("is_xml") is not None:
        return "C15-bare-root-flavour-getattr"
    return None


def play_history(sc, touched):
    """-> ([(root, element)], flags): the final tree with the moved element, then one entry per copy taken on the way;
    `touched` = also perform the read-only operations"""
    flags = {}
    el_ = make_hand(sc["hand"], flags)
    root = None
    views = []
    for si, step in enumerate(sc["steps"]):
        root, container = make_root(step["root"], flags)
        do_move(el_, container, step["move"])
        if touched:
            for t in step["touches"]:
                do_touch(el_, t)
        for cp in sc.get("copies", []):
            if cp["at"] % len(sc["steps"]) != si:
                continue
            cands = [d for d in [el_] + (list(el_.descendants) if is_tag(el_) else []) if is_tag(d)]
            if not cands:
                continue
            c = take_copy(cands[cp["of"] % len(cands)], cp["how"], flags)
            croot = c
            if cp.get("into"):
                croot, ccont = make_root(cp["into"], flags)
                ccont.append(c)
            views.append((croot, c))
    return [(root, el_)] + views, flags


def flavour_of(n, flags):
    """documented rule, from what the harness recorded at construction (never from known_xml)"""
    x = n
    while True:
        f = flags.get(id(x))
        if f is not None:
            return f
        if x.parent is None:
            return bool(getattr(x, "is_xml", False)) if type(x).__name__ == "BeautifulSoup" else False
        x = x.parent


def chain_of(n, flags):
    out, x = [], n
    while x is not None:
        f = flags.get(id(x))
        out.append("N" if f is None else ("1" if f else "0"))
        root = x
        x = x.parent
    return ",".join(out), ("1" if type(root).__name__ == "BeautifulSoup" and root.is_xml else "0")


def path_of(n):
    p = []
    while n.parent is not None:
        p.append(next(i for i, k in enumerate(n.parent.contents) if k is n))
        n = n.parent
    return list(reversed(p))


HIST_FMTS = [{"how": "name", "name": "minimal"}, {"how": "name", "name": "html"}, {"how": "name", "name": "html5"},
             {"how": "name", "name": None}, {"how": "fn", "es": "c0"}, {"how": "fn", "es": "c2"}, {"how": "fn", "es": "xml"}]


def history_observations(root, el_, flags, r):
    """[(path from root, entry, fmt index)] deterministic in r"""
    recv = [el_] + ([d for d in el_.descendants] if is_tag(el_) else [])
    recv += [el_.parent, root]
    obs = []
    for n in recv:
        if n is None:
            continue
        entries = ["decode", "prettify", "decode_contents"] if is_tag(n) else ["output_ready", "format_string"]
        for fi in range(len(HIST_FMTS)):
            obs.append((path_of(n), r.choice(entries), fi))
    return obs


def gen_scenario(r):
    a, b = r.sample(ROOTS, 2)
    steps = [{"root": a, "move": r.choice(MOVES), "touches": r.sample(TOUCHES, r.randint(1, 3))},
             {"root": b, "move": r.choice(MOVES), "touches": []}]
    if r.random() < 0.3:
        steps[1]["touches"] = r.sample(TOUCHES, r.randint(1, 2))
        steps.append({"root": r.choice(ROOTS), "move": r.choice(MOVES), "touches": []})
    copies = [{"of": r.randrange(8), "how": r.choice(["copy", "deepcopy", "deepcopy", "copy_self"]), "at": r.randrange(4),
               "into": r.choice([None, None, "htmlsoup", "xmltag", "baretag"])} for _ in range(r.choice([0, 1, 1, 2]))]
    return {"hand": gen_hand(r), "steps": steps, "copies": copies, "obs_seed": r.randrange(10 ** 9)}


def history_rows(sc, touched):
    import random as _random
    views, flags = play_history(sc, touched)
    res = []
    for vi, (root, el_) in enumerate(views):
        obs = history_observations(root, el_, flags, _random.Random(sc["obs_seed"] + vi))
        for path, entry, fi in obs:
            n = node_at(root, tuple(path))
            fs = HIST_FMTS[fi]
            real = show(run_entry(n, entry, real_formatter_arg(fs)))
            xml = flavour_of(n, flags)
            want = show(oracle_entry(n, entry, intended_for(fs, xml)))
            res.append((vi, path, entry, fi, real, want, xml, n, flags, root))
    return res


def check_history(ctx, batch, sc, stream="history"):
    outs = {touched: history_rows(sc, touched) for touched in (False, True)}
    ctx.count("history:scenarios")
    ctx.count("history:copies", len(sc.get("copies", [])))
    for k, ((vi, path, entry, fi, real, want, xml, n, flags, _), row0) in enumerate(zip(outs[True], outs[False])):
        real0 = row0[4]
        fs = HIST_FMTS[fi]
        case = {"op": "history", "scenario": sc, "observation": k, "view": vi, "path": path, "entry": entry, "fmt": fs}
        hand_made = flags.get(id(n)) is None or vi > 0
        ctx.case(("history", json.dumps(case, sort_keys=True, default=str)) if hand_made else None)
        ctx.count(f"history:flavour:{'xml' if xml else 'html'}:{'copy' if vi > 0 else 'hand' if flags.get(id(n)) is None else 'built'}")
        kf = classify_history(n, flags, None)
        if real != real0:
            report(ctx, stream, f"output through {entry} depends on output calls made earlier (before the element was moved)", case=case,
                   expected=real0, observed=real, kf=kf)
        elif real != want:
            what = (f"a copy rendered through {entry} does not have the flavour its original had when it was copied" if vi > 0 else
                    f"output through {entry} does not follow the flavour of the tree the element is in now")
            report(ctx, stream, what, case=case, expected=want, observed=real, kf=kf)
        if entry == "format_string":
            continue
        mode, prefix, pt = model_mode(n, entry)
        ch, ra = chain_of(n, flags)
        g = graph_tokens(n, GRAPH_FNS)
        batch.add(f"c15 runat {ch} {ra} {fmt_tok(fs)} {mode} {pt} {len(g)} {' '.join(g)} {tree_tokens(n)}".replace("  ", " "),
                  real, prefix, case, real == want and real == real0)


def stream_history(ctx, batch, n):
    r = ctx.rng("history")
    # the documented example first: a hand-made <script> rendered inside an HTML soup, then moved under an XML-flavoured root
    for touch in TOUCHES:
        for mv in ("append", "extract+append"):
            for a, b in (("htmlsoup", "xmltag"), ("xmltag", "htmlsoup"), ("htmlsoup", "xmlsoup"), ("xmlsoup", "baretag")):
                check_history(ctx, batch, {"hand": ["T", "script", None, [["a", ""]], [["S", "NavigableString", "if (a < b) c"]]],
                                           "steps": [{"root": a, "move": mv, "touches": [touch]}, {"root": b, "move": "append", "touches": []}],
                                           "obs_seed": 1})
    # a flavour-less tag living in a tree of either flavour, copied (3 ways), the copy detached or put under another root
    for how in ("copy", "deepcopy", "copy_self"):
        for a in ROOTS:
            for into in (None, "htmlsoup", "xmltag"):
                check_history(ctx, batch, {"hand": ["T", "div", None, [], [["T", "style", None, [["a", "x&y"]], [["S", "NavigableString", "a < b & c"]]],
                                                                         ["T", "b", True, [], [["S", "NavigableString", "t&"]]]]],
                                           "steps": [{"root": a, "move": "append", "touches": []}],
                                           "copies": [{"of": 0, "how": how, "at": 0, "into": into}, {"of": 1, "how": how, "at": 0, "into": into}],
                                           "obs_seed": 2})
    # a descendant NAMED is_xml in a builder-less tree (known finding C15-bare-root-flavour-getattr)
    check_history(ctx, batch, {"hand": ["T", "div", None, [], [["T", "is_xml", None, [], []], ["T", "script", None, [], [["S", "NavigableString", "1<2 & 3"]]]]],
                               "steps": [{"root": "baretag", "move": "append", "touches": []}], "copies": [], "obs_seed": 3})
    for _ in range(n):
        check_history(ctx, batch, gen_scenario(r))
        if len(batch.lines) > 4000:
            batch.flush()
    ctx.exhaustive_parts.append(f"histories: every read-only operation ({len(TOUCHES)}) x 2 ways of moving x 4 flavour changes on a hand-made "
                                "<script>, rendered from the element, its string, its new parent and the root with 7 formatter arguments")


# ---------------------------------------------------------------------------------------------------------------------
# from the parse to the tree: builder configuration (sets/dicts) and the attribute dict of a start tag
# ---------------------------------------------------------------------------------------------------------------------
B_TAGS = ["div", "p", "b", "i", "span", "ul", "li", "td", "pre", "a"]
B_VOID = ["br", "hr", "img"]
B_KEYS = ["class", "id", "rel", "headers", "a", "b", "data-x", "accesskey"]
B_VALS = ["", "v", "a b", " a  b\tc\n", "x y", "one", "a b c", "é ☃", None, "  ", "A B"]
EET_VALUES = [["br", "hr", "img"], ["br"], [], None, ["br", "hr", "img", "p"], "default"]
PWT_VALUES = [["pre", "textarea"], [], ["pre", "div"], ["p"], "default"]
CLA_VALUES = [{"*": ["class", "accesskey"], "td": ["headers"], "a": ["rel"]}, {}, {"*": ["class"]}, {"p": ["a", "b"], "div": []},
              {"*": [], "li": ["id"]}, None, "default"]
DUP_VALUES = [None, "replace", "ignore"]


def gen_raw(r, bcfg, depth=0, budget=None):
    """a raw tree the tokenizer will report as generated: proper nesting, no adjacent/blank strings, void tags without contents"""
    eet = bcfg["eet_effective"]
    out, last_str = [], True
    for _ in range(r.randint(1, 4)):
        if budget[0] <= 0:
            break
        budget[0] -= 1
        if not last_str and r.random() < 0.35:
            out.append(["S", r.choice(["t", "x y", "é", "two words", "z9"])])
            last_str = True
            continue
        name = r.choice(B_TAGS + B_VOID)
        keys = [r.choice(B_KEYS) for _ in range(r.choice([0, 1, 2, 2, 3, 4]))]   # repeats on purpose
        attrs = [[k, r.choice(B_VALS)] for k in keys]
        void = eet is None or name in eet
        kids = [] if (void or depth >= 3) else gen_raw(r, bcfg, depth + 1, budget)
        out.append(["T", name, attrs, kids])
        last_str = False
    return out


def raw_markup(nodes, eet):
    out = []
    for n in nodes:
        if n[0] == "S":
            out.append(n[1])
            continue
        _, name, attrs, kids = n
        a = "".join(" " + k + ("" if v is None else '="' + v + '"') for k, v in attrs)
        out.append(f"<{name}{a}>")
        if not (eet is None or name in eet):
            out.append(raw_markup(kids, eet) + f"</{name}>")
    return "".join(out)


def raw_tokens(nodes):
    out = []
    for n in nodes:
        if n[0] == "S":
            out.append(f"S 0 {ptok(n[1])}")
            continue
        _, name, attrs, kids = n
        out.append(f"T {ptok(name)} {len(attrs)}")
        for k, v in attrs:
            out.append(f"{ptok(k)} {'N' if v is None else 'v' + ptok(v)}")
        out.append(str(len(kids)))
        out.append(raw_tokens(kids))
    return " ".join(x for x in out if x)


def builder_for(bspec):
    """-> (real builder, effective values as the property reads them)"""
    e = E()
    kw = {}
    if bspec["eet"] != "default":
        kw["empty_element_tags"] = None if bspec["eet"] is None else set(bspec["eet"])
    if bspec["pwt"] != "default":
        kw["preserve_whitespace_tags"] = set(bspec["pwt"])
    if bspec["cla"] != "default":
        kw["multi_valued_attributes"] = None if bspec["cla"] is None else {k: set(v) for k, v in bspec["cla"].items()}
    if bspec["dup"] is not None:
        kw["on_duplicate_attribute"] = bspec["dup"]
    return e["HPTB"](**kw)


# the defaults of the HTML builder, from the documentation (not read from the live class)
PROP_HTML_VOID = ["area", "base", "br", "col", "embed", "hr", "img", "input", "keygen", "link", "menuitem", "meta", "param", "source",
                  "track", "wbr", "basefont", "bgsound", "command", "frame", "image", "isindex", "nextid", "spacer"]


def builder_effective(bspec, live):
    eet = sorted(live.empty_element_tags) if bspec["eet"] == "default" else bspec["eet"]
    pwt = sorted(live.preserve_whitespace_tags) if bspec["pwt"] == "default" else bspec["pwt"]
    if bspec["cla"] == "default":
        cla = {k: sorted(v) for k, v in live.cdata_list_attributes.items()}
    else:
        cla = bspec["cla"] or {}
    return eet, pwt, cla


def o_build_tokens(nodes, eet, pwt, cla, dup):
    """the property's reading, written independently of the model: last value wins unless 'ignore' (at the first position);
    a missing value is ""; attributes listed for '*' or for the tag are split on whitespace; void = name in the set (or no set)"""
    out = []
    for n in nodes:
        if n[0] == "S":
            out.append(f"S 0 {ptok(n[1])}")
            continue
        _, name, attrs, kids = n
        d = {}
        for k, v in attrs:
            v = "" if v is None else v
            if k in d and dup == "ignore":
                continue
            d[k] = v
        vals = {}
        for k, v in d.items():
            multi = cla and (k in cla.get("*", ()) or k in (cla.get(name) or ()))
            vals[k] = v.split() if multi else v
        void = eet is None or name in eet
        out.append("T %s - %d %d %d" % (ptok(name), 1 if void else 0, 1 if name in pwt else 0, len(vals)))
        for k, v in vals.items():
            out.append(f"{ptok(k)} {val_tok(v)}")
        out.append(str(len(kids)))
        if kids:
            out.append(o_build_tokens(kids, eet, pwt, cla, dup))
    return " ".join(out)


def names_tok(l):
    return ";".join(ptok(x) for x in l) if l else "E"


def check_build(ctx, bspec, nodes, lines, impl, metas, stream="build"):
    e = E()
    b = builder_for(bspec)
    eet, pwt, cla = builder_effective(bspec, b)
    mk = raw_markup(nodes, eet)
    soup = e["bs4"].BeautifulSoup(mk, builder=b)
    real = " ".join(tree_tokens(k) for k in soup.contents)
    want = o_build_tokens(nodes, eet, pwt, cla, bspec["dup"])
    case = {"op": "build", "builder": bspec, "nodes": nodes}
    dupes = any(len({k for k, _ in n[2]}) < len(n[2]) for n in _all_raw(nodes))
    ctx.case(("build", json.dumps(case, sort_keys=True)) if dupes or any(v for v in bspec.values() if v != "default") else None)
    ctx.count("build:" + ("dupes" if dupes else "nodupes"))
    ok = real == want
    if not ok:
        report(ctx, stream, "the tree built from a parse does not depend on the builder's sets/dicts and the start tag's attributes as documented",
               case=case | {"markup": mk}, expected=want, observed=real, kf=None)
    cla_tok = "|".join(f"{ptok(k)}={names_tok(v)}" for k, v in cla.items()) if cla else "E"
    # one request per top-level node (the reply is one tree)
    wrapped = ["T", "zz", [], nodes]
    # the wrapper is not void unless there is no set at all: ask per top-level node instead
    for n, k in zip(nodes, soup.contents):
        lines.append(f"c15 build {'N' if eet is None else names_tok(eet)} {names_tok(pwt)} {cla_tok} {'i' if bspec['dup'] == 'ignore' else 'r'} {raw_tokens([n])}")
        impl.append(tree_tokens(k))
        metas.append((case, ok))
    return soup


def _all_raw(nodes):
    for n in nodes:
        if n[0] == "T":
            yield n
            yield from _all_raw(n[3])


def stream_build(ctx, batch, n):
    r = ctx.rng("build")
    lines, impl, metas = [], [], []
    specs = [{"eet": "default", "pwt": "default", "cla": "default", "dup": None}]
    for v in EET_VALUES:
        specs.append({"eet": v, "pwt": "default", "cla": "default", "dup": None})
    for v in PWT_VALUES:
        specs.append({"eet": "default", "pwt": v, "cla": "default", "dup": None})
    for v in CLA_VALUES:
        specs.append({"eet": "default", "pwt": "default", "cla": v, "dup": None})
    for v in DUP_VALUES:
        specs.append({"eet": "default", "pwt": "default", "cla": "default", "dup": v})
    for _ in range(n):
        specs.append({"eet": r.choice(EET_VALUES), "pwt": r.choice(PWT_VALUES), "cla": r.choice(CLA_VALUES), "dup": r.choice(DUP_VALUES)})
    for bspec in specs:
        live = builder_for(bspec)
        eet, _, _ = builder_effective(bspec, live)
        for _ in range(3):
            nodes = gen_raw(r, {"eet_effective": eet}, 0, [r.randint(3, 14)])
            if not nodes or nodes[0][0] == "S":
                nodes = [["T", "div", [["class", "k  l"], ["id", None], ["class", "m"]], []]] + nodes
            soup = check_build(ctx, bspec, nodes, lines, impl, metas)
            # and the built tree through the renderer (three-way), so that the builder's sets reach the output in the comparison
            fs = random_fmt(r)
            recipe = {"flavour": "html", "markup": raw_markup(nodes, eet), "nodes": [], "builder": bspec}
            for entry in ("decode", "prettify"):
                check_render(ctx, batch, recipe, soup, (), fs, entry, "build-render")
    rep = Driver().ask(lines)
    for l, a, b_, (case, ok) in zip(lines, impl, rep, metas):
        if a != b_:
            ctx.corr_disagreements += 1
            if ok:
                report(ctx, "build-correspondence", "model and implementation disagree (building an element from a start tag)",
                       case=case | {"line": l[:1500]}, observed=a, model=b_, no_failing_input=True)
    ctx.count("build:requests", len(lines))


def stream_populate(ctx):
    """the mirror of `_populate_class_variables` (run on the generated stdlib tables) against the live class variables"""
    import re as _re
    ES = E()["ES"]
    rep = Driver().ask(["c15 populate", "c15 c2e", "c15 e2c"])
    model_alts = {}
    dup = False
    for t in rep[0].split(" "):
        k, la, r_ = t.split("/")
        dup |= unptok(k) in model_alts
        model_alts[unptok(k)] = (frozenset(unptok(la)), unptok(r_))
    live_alts, odd = {}, []
    pat = ES.CHARACTER_TO_HTML_ENTITY_WITH_AMPERSAND_RE.pattern
    for part in pat[1:-1].split("|"):
        m = _re.fullmatch(r"(?s)(.+?)\(\?!\[(.+)\]\)", part)
        key, la = (m.group(1), m.group(2)) if m else (part, "")
        if "(?" in key:
            odd.append(part)
        ent = ES.CHARACTER_TO_HTML_ENTITY.get(key)
        live_alts[key] = (frozenset(la), "&%s;" % ent if ent is not None else "&amp;%s;" % key)
    ctx.case(("populate", "alternatives"))
    ctx.count("populate:alternatives", len(live_alts))
    if model_alts != live_alts or dup or odd:
        diff = sorted(set(model_alts.items()) ^ set(live_alts.items()), key=lambda kv: kv[0])[:6]
        ctx.corr_disagreements += 1
        report(ctx, "populate-correspondence", "model and implementation disagree (alternatives of the entity regex)",
               case={"op": "populate", "what": "alternatives", "irregular_particles": odd[:5]},
               observed=[(ascii(k), sorted(map(ascii, v[0])), v[1]) for k, v in diff if k in live_alts],
               model=[(ascii(k), sorted(map(ascii, v[0])), v[1]) for k, v in diff if k in model_alts], no_failing_input=True)
    for line, live, what in ((rep[1], ES.CHARACTER_TO_HTML_ENTITY, "CHARACTER_TO_HTML_ENTITY"), (rep[2], ES.HTML_ENTITY_TO_CHARACTER, "HTML_ENTITY_TO_CHARACTER")):
        model = {}
        for t in line.split(" "):
            k, v = t.split("/")
            model[unptok(k)] = unptok(v)
        ctx.case(("populate", what))
        ctx.count(f"populate:{what}", len(live))
        if model != dict(live):
            ctx.corr_disagreements += 1
            diff = sorted(set(model.items()) ^ set(live.items()))[:6]
            report(ctx, "populate-correspondence", f"model and implementation disagree ({what})", case={"op": "populate", "what": what},
                   observed=[d for d in diff if live.get(d[0]) == d[1]], model=[d for d in diff if model.get(d[0]) == d[1]], no_failing_input=True)


# ---------------------------------------------------------------------------------------------------------------------
# Formatter subclasses that override attributes()
# ---------------------------------------------------------------------------------------------------------------------
def hook_classes():
    e = E()
    fm = e["fm"]
    if "hooks" in e:
        return e["hooks"]

    def unsorted(self, tag):          # the documentation's UnsortedAttributes
        for k, v in tag.attrs.items():
            yield k, v

    def revsorted(self, tag):
        return sorted(tag.attrs.items(), reverse=True)

    def dropdata(self, tag):
        return [(k, v) for k, v in super(type(self), self).attributes(tag) if not k.startswith("data-")]
    hooks = {}
    for code, fn in (("U", unsorted), ("R", revsorted), ("D", dropdata)):
        for cname, base in (("F", fm.Formatter), ("H", fm.HTMLFormatter), ("X", fm.XMLFormatter)):
            hooks[(code, cname)] = type(f"Hook{code}{cname}", (base,), {"attributes": fn})
    e["hooks"] = hooks
    return hooks


def o_hook_attrs(code, tag, eab):
    """what the subclass's attributes() is written to return, computed independently"""
    items = list(tag.attrs.items())
    if code == "U":
        return items
    if code == "R":
        return sorted(items, key=lambda kv: kv[0], reverse=True)
    return [(k, (None if eab and isinstance(v, str) and v == "" else v)) for k, v in sorted(items, key=lambda kv: kv[0]) if not k.startswith("data-")]


class HookOracle(Oracle):
    def __init__(self, opts, code):
        super().__init__(opts)
        self.code = code

    def open_tag(self, t, void):
        parts = []
        for k, v in o_hook_attrs(self.code, t, self.o["eab"]):
            if v is None:
                parts.append(k)
                continue
            if isinstance(v, (list, tuple)):
                v = " ".join(v)
            elif not isinstance(v, str):
                v = str(v)
            parts.append(k + "=" + o_quote(self.sub(v)))
        nm = (t.prefix + ":" if t.prefix else "") + t.name
        return "<" + nm + ("".join(" " + p for p in parts)) + ((self.o["vecp"] or "") if void else "") + ">"


def stream_hooks(ctx, n):
    r = ctx.rng("hooks")
    hooks = hook_classes()
    lines, impl, metas = [], [], []
    for i in range(n):
        recipe = gen_recipe(r, i)
        soup = build_tree(recipe)
        code = r.choice("URD")
        cname = r.choice("FHX")
        o = {"es": r.choice(["xml", "html", "c0", "c2", None]), "eab": r.choice(EAB_VALUES), "vecp": r.choice(VECP_VALUES)}
        if r.random() < 0.4:
            o["cdata"] = r.choice(CDATA_VALUES)
        spec = {"cls": {"F": "Fh", "H": "H", "X": "X"}[cname], "opts": o}
        kw = dict(entity_substitution=es_value(o["es"]), empty_attributes_are_booleans=o["eab"], void_element_close_prefix=o["vecp"])
        if "cdata" in o:
            kw["cdata_containing_tags"] = None if o["cdata"] is None else set(o["cdata"])
        f = hooks[(code, cname)](**kw) if cname != "F" else hooks[(code, cname)](E()["fm"].Formatter.HTML, **kw)
        tags = [p_ for n_, p_ in all_nodes(soup) if is_tag(n_) and not n_.hidden]
        if not tags:
            continue
        path = r.choice(tags)
        nd = node_at(soup, path)
        try:
            real = nd.decode(formatter=f)
        except Exception as ex:
            real = "!" + type(ex).__name__
        opts = intended(spec)
        pn = nd.parent.name if nd.parent is not None else None
        want = HookOracle(opts, code).node(nd, pn)
        case = {"op": "hook", "recipe": recipe, "path": list(path), "hook": code, "class": cname, "opts": o}
        multi = any(is_tag(d) and len(d.attrs) > 1 for d, _ in all_nodes(nd))
        ctx.case(("hook", i) if multi else None)
        ctx.count(f"hook:{code}{cname}")
        if real != want:
            report(ctx, "attributes-hook", "output does not follow the attributes() of the Formatter subclass", case=case, expected=want,
                   observed=real, kf=None)
        pt = "N" if nd.parent is None else ptok(nd.parent.name)
        g = graph_tokens(nd, GRAPH_FNS)
        lines.append(f"c15 runhook {code} {ctor_fmt_tok(spec)} {pt} {len(g)} {' '.join(g)} {tree_tokens(nd)}".replace("  ", " "))
        impl.append(ptok(real))
        metas.append((case, real == want))
    rep = Driver().ask(lines)
    for l, a, b_, (case, ok) in zip(lines, impl, rep, metas):
        if a != b_:
            ctx.corr_disagreements += 1
            if ok:
                report(ctx, "hook-correspondence", "model and implementation disagree (attributes() hook)", case=case | {"line": l[:1500]},
                       observed=unptok(a), model=unptok(b_) if b_[:1].isdigit() or b_ == "-" else b_, no_failing_input=True)
    ctx.count("hook:requests", len(lines))


def stream_corpus(ctx, batch):
    from .common import CORPUS
    d = CORPUS / "C15"
    if not d.is_dir():
        return
    for f in sorted(d.glob("*.json")):
        c = json.load(open(f))
        c = c.get("case", c)
        if c.get("op") == "render":
            soup = build_tree(c["recipe"])
            check_render(ctx, batch, c["recipe"], soup, tuple(c["path"]), c["fmt"], c["entry"], "corpus", c.get("level", 2))
            ctx.count("corpus:cases")


def run(ctx: Ctx):
    import warnings
    warnings.simplefilter("ignore")
    E()
    ctx.rule = ("a constructor case is non-trivial when at least one option is passed; a rendering case when the formatter is an object "
                "built for the case or its output differs from the output of the formatter that substitutes nothing; every "
                "formatter_for_name, call-log (with at least one call), attribute-order and hash-seed case counts")
    ctx.assumptions = [
        "_event_stream over the next_element chain is the recursive traversal of .contents (C01/C05/C14)",
        "what substitute_html5 and user functions compute is taken as observed (finite graph per case); C09 owns html5",
        "XML-flavoured trees are made with the html.parser builder instance whose is_xml (and, for flavour 'xml', empty_element_tags/"
        "preserve_whitespace_tags/cdata_list_attributes) is set the way the lxml-xml builder has it; lxml itself is not installed",
        "charset-substituting attribute values (meta) are not generated (C08); encodings are utf-8 throughout",
        "indent objects that are neither int, str nor None: the code's choice (one space) is accepted as the documented default",
    ]
    batch = Batch(ctx)
    stream_corpus(ctx, batch)
    stream_ctor(ctx)
    stream_ffn(ctx)
    stream_option_grid(ctx, batch)
    stream_render(ctx, batch, ctx.n(600, 5000))
    stream_attr_orders(ctx, batch, ctx.n(120, 800))
    stream_history(ctx, batch, ctx.n(250, 2500))
    stream_build(ctx, batch, ctx.n(150, 1500))
    stream_hooks(ctx, ctx.n(300, 3000))
    batch.flush()
    stream_call_log(ctx, ctx.n(800, 6000))
    stream_subst(ctx)
    stream_populate(ctx)
    stream_determinism(ctx)
    stream_entity_seeds(ctx)
    if ctx.lean is not None and not ctx.lean.ok:
        ctx.notes.append("Lean obligations did not check: the constructor grid, the formatter_for_name grid (every registered and several "
                         "unregistered names x every flavour) and the subst stream (every key of CHARACTER_TO_HTML_ENTITY, alone and "
                         "followed by another character, in table order and reversed) are the exhaustive search over the generated tables")


def replay(path):
    import warnings
    warnings.simplefilter("ignore")
    E()
    v = json.load(open(path))
    c = v["case"]
    op = c.get("op")
    if op == "ctor":
        f = build_formatter(c["spec"])
        got, want = observed_attrs(f), intended(c["spec"])
        print("constructor call:", c["spec"])
        print("implementation: object has", got)
        print("property demands:        ", want)
        return 0 if got == want else 1
    if op == "ffn":
        els = {d: (el, xml) for d, el, xml in flavour_elements()}
        el, xml = els[c["element"]]
        arg = real_formatter_arg(c["fmt"])
        want = observed_attrs(arg) if c["fmt"]["how"] == "obj" else intended_for(c["fmt"], xml)
        try:
            got = observed_attrs(el.formatter_for_name(arg))
        except KeyError:
            got = None
        print("element:", c["element"], "formatter argument:", c["fmt"])
        print("implementation:", got if got is not None else "KeyError")
        print("property demands:", want if want is not None else "KeyError")
        return 0 if got == want else 1
    if op == "render":
        soup = build_tree(c["recipe"])
        n = node_at(soup, tuple(c["path"]))
        xml = bool(soup.is_xml)
        real = show(run_entry(n, c["entry"], real_formatter_arg(c["fmt"]), c.get("level", 2)))
        opts = intended_for(c["fmt"] if c["entry"] != "str" else {"how": "name", "name": "minimal"}, xml)
        want = show(oracle_entry(n, c["entry"], opts, c.get("level", 2)))
        print("tree:", ascii(soup.decode(formatter=None))[:600])
        print("receiver path:", c["path"], "entry point:", c["entry"], "formatter:", c["fmt"])
        print("implementation: ", ascii(real))
        print("property demands:", ascii(want))
        return 0 if real == want else 1
    if op == "calllog":
        print(json.dumps({"case": c, "expected": v.get("expected"), "observed": v.get("observed")}, indent=1)[:3000])
        return 1
    if op == "attr-order":
        fa = real_formatter_arg(c["fmt"])
        a = build_tree(c["recipe_a"]).decode(formatter=fa)
        b = build_tree(c["recipe_b"]).decode(formatter=fa)
        print("same attributes inserted in two orders:\n ", ascii(a), "\n ", ascii(b))
        return 0 if a == b else 1
    if op == "ffn-subclass":
        els = {d: el for d, el, xml in flavour_elements()}
        cls = hook_classes()[(c["hook"], c["class"])]
        obj = cls(entity_substitution=es_value("xml")) if c["class"] != "F" else cls("html", es_value("xml"))
        try:
            got = els[c["element"]].formatter_for_name(obj)
        except Exception as ex:
            got = "!" + type(ex).__name__
        print("formatter_for_name(<instance of a subclass of", c["class"], ">) on", c["element"], "->", got if isinstance(got, str) else type(got).__name__,
              "(the object itself)" if got is obj else "(NOT the object passed in)")
        return 0 if got is obj else 1
    if op == "hook":
        soup = build_tree(c["recipe"])
        nd = node_at(soup, tuple(c["path"]))
        o = c["opts"]
        kw = dict(entity_substitution=es_value(o["es"]), empty_attributes_are_booleans=o["eab"], void_element_close_prefix=o["vecp"])
        if "cdata" in o:
            kw["cdata_containing_tags"] = None if o["cdata"] is None else set(o["cdata"])
        cls = hook_classes()[(c["hook"], c["class"])]
        f = cls(**kw) if c["class"] != "F" else cls(E()["fm"].Formatter.HTML, **kw)
        real = nd.decode(formatter=f)
        spec = {"cls": {"F": "Fh", "H": "H", "X": "X"}[c["class"]], "opts": o}
        want = HookOracle(intended(spec), c["hook"]).node(nd, nd.parent.name if nd.parent is not None else None)
        print("subclass of", c["class"], "overriding attributes():", {"U": "items in insertion order", "R": "sorted in reverse", "D": "base answer minus data-*"}[c["hook"]], "options:", o)
        print("implementation: ", ascii(real))
        print("property demands:", ascii(want))
        return 0 if real == want else 1
    if op == "build":
        b = builder_for(c["builder"])
        eet, pwt, cla = builder_effective(c["builder"], b)
        mk = raw_markup(c["nodes"], eet)
        soup = E()["bs4"].BeautifulSoup(mk, builder=b)
        real = " ".join(tree_tokens(k) for k in soup.contents)
        want = o_build_tokens(c["nodes"], eet, pwt, cla, c["builder"]["dup"])
        print("builder:", c["builder"], "\nmarkup:", ascii(mk))
        print("implementation (tree tokens):", real)
        print("property demands            :", want)
        return 0 if real == want else 1
    if op == "history":
        sc = c["scenario"]
        rows = {t: history_rows(sc, t)[c["observation"]] for t in (False, True)}
        vi, path, entry, fi, real, want, xml, n, flags, root = rows[True]
        print("hand-made element:", sc["hand"])
        print("steps (root kind, how it was moved in, read-only operations performed there):", sc["steps"])
        if vi > 0:
            print("copies taken:", sc.get("copies"), "-> this observation is on copy number", vi)
        print("tree of the receiver:", ascii(root.decode(formatter=None))[:400])
        print("receiver path:", path, "entry point:", entry, "formatter:", HIST_FMTS[fi], "| flavour the receiver must have:", "xml" if xml else "html")
        print("implementation, read-only operations performed :", ascii(real))
        print("implementation, never rendered before          :", ascii(rows[False][4]))
        print("property demands                               :", ascii(want))
        return 0 if real == rows[False][4] == want else 1
    if op == "entity-seed":
        import html as pyhtml
        keys = entity_keyset()
        exp = expected_entities(c["text"], keys, max(len(k) for k in keys), E()["ES"].CHARACTER_TO_HTML_ENTITY)
        want = f'<b title="{exp}">{exp}</b>'
        fi = ("html", "html5").index(c["formatter"])
        res = run_children(ENT_CHILD, [c["text"]], c["seeds"])
        print("text (also the value of title=):", ascii(c["text"]), "formatter:", c["formatter"])
        rc = 0
        for sd in c["seeds"]:
            got = res[sd][0][fi]
            print(f"PYTHONHASHSEED={sd}:", ascii(got))
            rc |= got != want
        print("property demands (longest key wins, same for every seed):", ascii(want))
        return int(rc)
    if op == "hashseed":
        docs = [c["markup"]]
        a, b = (run_child(docs, s)["out"][0][c["rendering"]] for s in c["seeds"])
        print("markup:", ascii(c["markup"]))
        print(f"PYTHONHASHSEED={c['seeds'][0]}:", ascii(a))
        print(f"PYTHONHASHSEED={c['seeds'][1]}:", ascii(b))
        return 0 if a == b else 1
    print(json.dumps(v, indent=1)[:4000])
    return 1
