"""C16 — parse_only keeps exactly the outermost matching elements. Well-formed documents from C04's tree model and
writer x filters from a grammar over name and single-valued attribute criteria, string-only filters and mixed ones.
Oracle: computed from the generator's own tree (independent of bs4's matching code): the outermost elements the
filter's documented meaning matches, each with its complete subtree, in document order."""
import json, re, warnings

from .common import Ctx, Driver, cps
from . import c03, c04

MANIFEST = dict(
    text=("Lean: C03's machine with parse_only consulted in handle_starttag only while no kept element is open and endData's top-level "
          "string drop (Model/ParseOnly.lean). Theorems for all well-formed documents and all filter predicates: below a kept element the "
          "filtered machine has the plain machine's net effect; at the root a balanced block contributes exactly the outermost matching "
          "elements with their full subtrees, in order, and nothing else; a string-only filter keeps no tag and exactly the matching text "
          "runs; a filter with both kinds of criteria keeps nothing (see evidence 'theorems'). Tie: generated well-formed documents x a "
          "filter grammar (name: str/list/regex; attribute: str/regex/True/False on single-valued attributes; string-only; mixed) parsed "
          "with parse_only and compared with the outermost matches computed from the generator's tree. The filter itself: "
          "SoupStrainer.allow_tag_creation / allow_string_creation are mirrored on C10's rule model (Model/StrainerParse.lean) and proved "
          "equal to matches_tag for every function-free-name, string-criterion-free strainer with at least one rule and every tag whose "
          "attributes are single strings (allow_tag_creation_eq_matches_tag), with the three kinds of strainer read off the code "
          "(tag_strainer_refuses_strings, string_strainer_refuses_tags, string_strainer_keeps_matching_strings); tied by the "
          "'strainer-parse' stream: C10's criteria grammar x prospective tags, real allow_* vs the mirror and vs matches_tag of the finished tag."),
    design="7/C16",
    note=("Filters are evaluated on single-valued attributes only (the property's quantifier); matching itself is C10's. Known finding: "
          "a kept element inside a DROPPED whitespace-preserving or string-container ancestor loses that context."),
    technique="Lean 4 proof by mutual structural induction over documents (net effect of balanced blocks, root mode vs deep mode) + generated differential check",
)

ATTRS = ["id", "href", "title", "data-x", "k"]


class Filt:
    """A filter with an independent evaluator of its documented meaning."""

    def __init__(self, kind, name=None, attrs=None, string=None, desc=""):
        self.kind, self.name, self.attrs, self.string, self.desc = kind, name, attrs or {}, string, desc

    def strainer(self):
        from bs4 import SoupStrainer
        kw = {}
        if self.name is not None:
            kw["name"] = self.name[1]
        if self.attrs:
            kw["attrs"] = {k: v[1] for k, v in self.attrs.items()}
        if self.string is not None:
            # the deprecated spelling `text=` is the same criterion (one case in four, a function of the filter so replays repeat it)
            import zlib, warnings
            alias = zlib.crc32(repr((self.kind, self.desc, str(self.string[1]))).encode()) % 4 == 0
            kw["text" if alias else "string"] = self.string[1]
            if alias:
                with warnings.catch_warnings():
                    warnings.simplefilter("ignore")
                    return SoupStrainer(**kw)
        return SoupStrainer(**kw)

    @staticmethod
    def sat(crit, value):
        """documented meaning of one criterion on a single-valued attribute / a name / a string (value None = absent)"""
        kind, c = crit
        if kind == "str":
            return value == c
        if kind == "list":
            return value in c
        if kind == "re":
            return value is not None and c.search(value) is not None
        if kind == "true":
            return value is not None
        if kind == "false":
            return value is None
        raise AssertionError(kind)

    def matches_tag(self, name, attrs):
        if self.string is not None:
            return False
        if self.name is not None and not self.sat(self.name, name):
            return False
        d = dict(attrs)
        for k, crit in self.attrs.items():
            v = d.get(k)
            if k in d and v is None:
                v = ""
            if not self.sat(crit, v):
                return False
        return True

    def matches_string(self, s):
        if self.name is not None or self.attrs:
            return False
        return self.sat(self.string, s)


def doc_names(nodes):
    out = []
    for nd in nodes:
        if nd[0] == "e":
            out.append(nd[1])
            out += doc_names(nd[3])
    return out


CHARSETS = ["UTF-8", "utf-8", "Shift_JIS", "ISO-8859-1", "Windows-1252", "x y", ""]


def add_meta(r, nodes):
    """a declaration <meta charset=..> / <meta http-equiv=.. content=..>, somewhere at the top level or inside the first element: the tree
    builder replaces these two values by objects of its own when the Tag is created - AFTER the filter was asked about the raw values;
    they are still the same strings to every criterion"""
    v = r.choice(CHARSETS)
    if r.random() < 0.5:
        meta = ("e", "meta", [("charset", v)] + ([("id", "a")] if r.random() < 0.3 else []), [])
    else:
        meta = ("e", "meta", [("http-equiv", r.choice(["Content-Type", "content-type"])), ("content", f"text/html; charset={v}")], [])
    nodes = list(nodes)
    if nodes and nodes[0][0] == "e" and nodes[0][1] in c04.ORD and r.random() < 0.5:
        nodes[0] = (nodes[0][0], nodes[0][1], nodes[0][2], [meta] + list(nodes[0][3]))
    else:
        nodes.insert(r.randint(0, len(nodes)), meta)
    return nodes


def meta_filter(r):
    k = r.choice(["charset", "charset", "content", "http-equiv"])
    y = r.random()
    if k == "charset":
        crit = (("str", r.choice(CHARSETS)) if y < 0.45 else ("re", re.compile(r.choice(["UTF", "utf", "^[A-Z]", "_JIS$", "^$", "[a-z]-8"]))) if y < 0.75
                else ("list", r.sample(CHARSETS, 2)) if y < 0.85 else ("true", True) if y < 0.95 else ("false", False))
    elif k == "content":
        crit = (("str", "text/html; charset=" + r.choice(CHARSETS)) if y < 0.4 else ("re", re.compile(r.choice(["UTF", "charset=[a-z]", "JIS", "=$"]))) if y < 0.8
                else ("true", True))
    else:
        crit = ("str", r.choice(["Content-Type", "content-type"])) if y < 0.6 else ("re", re.compile("^C"))
    return Filt("tag", name=("str", "meta") if r.random() < 0.4 else None, attrs={k: crit})


def gen_filter(r, present=()):
    names = c04.ORD + c04.VOID + c04.PRES + list(c04.CONT)
    if present and r.random() < 0.7:
        names = list(present) + r.sample(names, 2)
    x = r.random()

    def name_crit():
        y = r.random()
        if y < 0.5:
            return ("str", r.choice(names))
        if y < 0.75:
            return ("list", r.sample(names, min(len(names), r.randint(1, 4))))
        return ("re", re.compile(r.choice(["^[ab]$", "^p", "i", "^(div|span|pre)$", "r", "^t", "x"])))

    def attr_crit():
        y = r.random()
        if y < 0.3:
            return ("str", r.choice(["a", "b", "x y", "", "&", "1"]))
        if y < 0.5:
            return ("re", re.compile(r.choice(["a", "^b", "\\s", "^$", "[<>&]", "1"])))
        if y < 0.8:
            return ("true", True)
        return ("false", False)
    if x < 0.45:
        return Filt("tag", name=name_crit())
    if x < 0.6:
        return Filt("tag", attrs={r.choice(ATTRS): attr_crit()})
    if x < 0.75:
        return Filt("tag", name=name_crit(), attrs={r.choice(ATTRS): attr_crit()})
    if x < 0.9:
        y = r.random()
        if y < 0.4:
            return Filt("string", string=("re", re.compile(r.choice(["a", "^\\s+$", "b", "[<&]", "x y", "^ $"]))))
        if y < 0.7:
            return Filt("string", string=("str", r.choice(["a", " ", "\n", "b", "ab", "x y"])))
        return Filt("string", string=("list", [r.choice(["a", " ", "b"]), r.choice(["\n", "ab"])]))
    # mixed filters: the tag part may be a name, an attribute criterion, or both; the string part any string criterion
    y = r.random()
    sc = r.choice([("re", re.compile("a")), ("re", re.compile(".")), ("str", "a"), ("true", True), ("list", ["a", " "])])
    if y < 0.4:
        return Filt("mixed", name=name_crit(), string=sc)
    if y < 0.8:
        return Filt("mixed", attrs={r.choice(ATTRS): attr_crit()}, string=sc)
    return Filt("mixed", name=name_crit(), attrs={r.choice(ATTRS): attr_crit()}, string=sc)


def describe(f: Filt):
    def d(c):
        if c is None:
            return None
        return [c[0], c[1].pattern if c[0] == "re" else c[1]]
    return {"kind": f.kind, "name": d(f.name), "attrs": {k: d(v) for k, v in f.attrs.items()}, "string": d(f.string)}


def from_description(dsc):
    def u(c):
        if c is None:
            return None
        return (c[0], re.compile(c[1]) if c[0] == "re" else (c[1]))
    return Filt(dsc["kind"], name=u(dsc["name"]), attrs={k: u(v) for k, v in dsc["attrs"].items()}, string=u(dsc["string"]))


def collapse(s, stack):
    if not any(n in c04.PRES for n in stack) and all(ch in c03.ASCII_SPACES for ch in s):
        return "\n" if "\n" in s else " "
    return s


def show_nodes(nodes, stack):
    """canonical shape (names, attrs, classes, values; no positions) of a forest under the open-element context `stack`"""
    out, pending = [], []

    def flush():
        if not pending:
            return
        s = collapse("".join(pending), stack)
        pending.clear()
        c = 0
        for n in reversed(stack):
            if n in c04.CONT:
                c = c04.CONT[n]
                break
        out.append(f"\"{c}:{cps(s) or '-'}\"")
    for nd in nodes:
        if nd[0] == "t":
            pending.append(nd[1])
        elif nd[0] in ("c", "cd", "pi"):
            flush()
            cls = {"c": 1, "cd": 2, "pi": 3}[nd[0]]
            out.append(f"\"{cls}:{cps(collapse(nd[1], stack)) or '-'}\"")
        else:
            flush()
            _, name, attrs, kids = nd
            a = "&".join(f"{cps(k)}={cps(v or '') or '-'}" for k, v in attrs) or "-"
            out.append(f"<{cps(name)}|~|{a}>[{show_nodes(kids, stack + [name])}]")
    flush()
    return "".join(out)


def expected_tag_filter(f, nodes, stack, exact):
    """outermost matching elements in document order; `exact`: each with the context of ALL its ancestors (the full parse);
    otherwise with the context of kept ancestors only (what the machine can know)"""
    out = []
    lost_context = False
    for nd in nodes:
        if nd[0] != "e":
            continue
        _, name, attrs, kids = nd
        if f.matches_tag(name, attrs):
            ctx_stack = stack if exact else []
            out.append(show_nodes([nd], ctx_stack))
            if any(n in c04.PRES or n in c04.CONT for n in stack):
                lost_context = True
        else:
            sub, lc = expected_tag_filter(f, kids, stack + [name], exact)
            out.append(sub)
            lost_context = lost_context or lc
    return "".join(out), lost_context


def text_runs(nodes):
    """the text runs of a document when every tag is dropped: runs are separated by tags and special strings"""
    runs, pending = [], []

    def flush():
        if pending:
            runs.append((0, "".join(pending)))
            pending.clear()
    for nd in nodes:
        if nd[0] == "t":
            pending.append(nd[1])
        elif nd[0] in ("c", "cd", "pi"):
            flush()
            runs.append(({"c": 1, "cd": 2, "pi": 3}[nd[0]], nd[1]))
        else:
            flush()
            runs.extend(text_runs(nd[3]))
            # the element's end tag also ends a run
            runs.append(None)
    flush()
    return runs


def expected_string_filter(f, nodes):
    out = []
    for run in text_runs(nodes):
        if run is None:
            continue
        cls, s = run
        s = collapse(s, [])
        if f.matches_string(s):
            out.append(f"\"{cls}:{cps(s) or '-'}\"")
    return "".join(out)


def merge_runs(runs):
    """adjacent text pieces not separated by a tag/special string form one run"""
    return runs


def intended_events(nodes, counter, accepted, f):
    """C03-protocol events of the document; every start tag carries its index in the PFX slot"""
    evs = []
    for nd in nodes:
        if nd[0] == "t":
            evs.append("d:" + (cps(nd[1]) or "-"))
        elif nd[0] in ("c", "cd", "pi"):
            cls = {"c": 1, "cd": 2, "pi": 3}[nd[0]]
            evs += ["x:-", "d:" + (cps(nd[1]) or "-"), f"x:{cls}"]
        else:
            _, name, attrs, kids = nd
            i = counter[0]
            counter[0] += 1
            if f.kind == "tag" and f.matches_tag(name, attrs):
                accepted.append(f"e{i}")
            evs.append(f"s:{name}:e{i}")
            evs += intended_events(kids, counter, accepted, f)
            evs.append(f"e:{name}:e{i}")
    return evs


def model_line(nodes, f):
    accepted = []
    evs = intended_events(nodes, [0], accepted, f)
    tags = "tags=" + (".".join(accepted) if accepted else "-")
    if f.kind == "string":
        ok = []
        for run in text_runs(nodes):
            if run is None:
                continue
            s2 = collapse(run[1], [])
            if f.matches_string(s2):
                ok.append(cps(s2) or "e")
        strs = "strs=" + (";".join(dict.fromkeys(ok)) if ok else "-")
    else:
        strs = "strs=-"
    pre = "pre=" + ".".join(c04.PRES)
    cont = "cont=" + ".".join(f"{k}:{v}" for k, v in c04.CONT.items())
    return f"c16 fbuild {pre} {cont} {tags} {strs} {';'.join(evs) if evs else '-'}"


def real_parse(text, strainer):
    from bs4 import BeautifulSoup
    with warnings.catch_warnings():
        warnings.simplefilter("ignore")
        return BeautifulSoup(text, "html.parser", parse_only=strainer, multi_valued_attributes=None)


def check_one(ctx, nodes, text, f, stream, lines=None, impls=None, mcases=None):
    try:
        soup = real_parse(text, f.strainer())
    except Exception as e:
        ctx.violation(f"parse raised {type(e).__name__}: {e}", case={"text": text, "filter": describe(f)}, stream=stream)
        return
    # "and nothing else": what the filter refused is not reachable from what it kept through ANY link
    from . import heapsim as _hs
    wld = c03.SoupWorld(soup)
    lmsg = _hs.oracle_c01(wld)
    if not lmsg:
        inside = {id(o) for o in wld.objs.values()}
        for o in wld.objs.values():
            for attr in ("next_element", "previous_element", "next_sibling", "previous_sibling", "parent"):
                x = getattr(o, attr)
                if x is not None and id(x) not in inside:
                    lmsg = f"{wld.label(o)}.{attr} points at a refused element ({type(x).__name__} {str(x)[:30]!r})"
    if lmsg:
        ctx.violation("the filtered parse is not one consistent tree / reaches refused elements: " + lmsg,
                      case={"text": text, "filter": describe(f)}, observed=lmsg, stream=stream)
    got = c04.shape(soup, with_pos=False)
    ctx.count("filter:" + f.kind)
    if lines is not None:
        lines.append(model_line(nodes, f))
        impls.append(c03.shape(soup))
        mcases.append({"text": text, "filter": describe(f)})
    if f.kind == "tag":
        # the statement is relational: "exactly the outermost elements of the FULL PARSE that the same filter matches" - so also ask the
        # real full parse (the generator's tree below is what the markup describes, which C04 ties to the full parse)
        try:
            full = real_parse(text, None)
            hits = full.find_all(f.strainer())
            hit_ids = {id(h) for h in hits}
            outer = [h for h in hits if not any(id(a) in hit_ids for a in h.parents)]
            rel = c04.shape(type("Kept", (), {"contents": outer})(), with_pos=False)
        except Exception as e:
            rel = f"<filtering the full parse raised {type(e).__name__}>"
        want, lost = expected_tag_filter(f, nodes, [], True)
        if got == want and rel != got:
            ctx.violation("parse_only result differs from filtering the full parse with the same filter (find_all on the complete tree, outermost hits)",
                          case={"text": text, "filter": describe(f)}, expected=rel, observed=got, stream=stream)
        nontrivial = want != "" and want != show_nodes(nodes, [])
        ctx.case((text, json.dumps(describe(f), sort_keys=True)) if nontrivial else None,
                 sample={"text": text, "filter": describe(f), "kept": got[:200]} if nontrivial and len(ctx.samples) < 5 else None)
        if got != want:
            want2, _ = expected_tag_filter(f, nodes, [], False)
            kf = "C16-dropped-context-ancestor" if (lost and got == want2) else None
            ctx.violation("parse_only result differs from the outermost matching elements of the full parse",
                          case={"text": text, "filter": describe(f)}, expected=want, observed=got, stream=stream, kf=kf)
    elif f.kind == "string":
        want = expected_string_filter(f, nodes)
        ctx.case((text, json.dumps(describe(f), sort_keys=True)) if want else None)
        if got != want:
            ctx.violation("string-only filter: kept strings differ from the matching text runs",
                          case={"text": text, "filter": describe(f)}, expected=want, observed=got, stream=stream)
    else:
        ctx.case(None)
        if got != "":
            ctx.violation("a filter mixing tag and string criteria kept something", case={"text": text, "filter": describe(f)},
                          expected="", observed=got, stream=stream)


def well_formed_text(r, nodes):
    # text runs adjacent in the model would be merged by the writer's output anyway; the oracle merges them too
    return c04.write(r, nodes, [], [0])


def run(ctx: Ctx):
    ctx.rule = ("well-formed documents from C04's tree model and writer x filters: name (str / list / regex), single-valued attribute (str / "
                "regex / True / False), name+attribute, string-only (str / regex / list), mixed. Expected = outermost matches computed from "
                "the generator's tree with an independent evaluator of the criteria. non-trivial = the filter keeps something but not everything")
    ctx.assumptions = ["attributes are single-valued (multi_valued_attributes=None)", "criteria matching itself is C10's subject"]
    import glob, os
    for fpath in sorted(glob.glob(os.path.join(os.path.dirname(__file__), "..", "corpus", "C16", "*.json"))):
        c = json.load(open(fpath))
        check_one(ctx, [tuple_tree(n) for n in c["nodes"]], c["text"], from_description(c["filter"]), "corpus")
    lines, impls, mcases = [], [], []
    for i in range(ctx.n(6000, 100000)):
        r = ctx.rng("doc", i)
        nodes = c04.gen_tree(r)
        f = None
        if r.random() < 0.12:
            nodes = add_meta(r, nodes)
            ctx.count("doc:with-meta-declaration")
            if r.random() < 0.75:
                f = meta_filter(r)
        text = well_formed_text(r, nodes)
        f = f or gen_filter(r, doc_names(nodes))
        check_one(ctx, nodes, text, f, "generated", lines, impls, mcases)
    import re as _re
    drv = Driver()
    strainer_parse_stream(ctx, drv)
    rep = drv.ask(lines)
    for l, a, b, c in zip(lines, impls, rep, mcases):
        b = _re.sub(r"\|e\d+>", "|->", b)
        if a != b:
            ctx.corr_disagreements += 1
            ctx.violation("model (filtered fold of the intended events) and implementation disagree", case=c | {"line": l[:2000]},
                          observed=a, model=b, stream="correspondence", no_failing_input=True)


def strainer_parse_stream(ctx: Ctx, drv):
    """The filter itself (Model/StrainerParse.lean, Props/C16 allow_tag_creation_eq_matches_tag): for SoupStrainers from C10's criteria
    grammar (strings, bytes, regexes, functions, True/False, numbers, lists incl. empty and nested) and prospective tags (prefix, name,
    RAW single-string attributes): real `allow_tag_creation` vs the Lean code-mirror; `allow_string_creation` likewise; and the theorem's
    content on the real code: for function-free name criteria, no string criteria and at least one rule, `allow_tag_creation` equals
    `matches_tag` of the finished tag."""
    from . import c10
    from bs4 import SoupStrainer
    from bs4.element import Tag
    from .common import tok
    names = ["a", "b", "p", "pre", "x-y", "svg:a", "A", ""]
    prefixes = [None, None, None, "svg", "p", ""]
    keys = ["id", "k", "href", "class", "title"]
    vals = ["x", "a b", "", "v", "1", "abc", "u", "big red", " "]
    uni = sorted(set(names + vals + ["svg:a", "svg:b", "p:a", "p:p", "svg:p", "p:b"] + [f"{p}:{n}" for p in ("svg", "p") for n in names]))
    lines, impls, cases = [], [], []
    n_eq = 0
    for i in range(ctx.n(4000, 60000)):
        r = ctx.rng("strainer-parse", i)
        pool = names[:6] + vals
        name_c = c10.gen_crit(r, names[:6] + ["svg:a", "p:b"], "attr") if r.random() < 0.6 else ("n",)   # role 'attr': functions of a str
        pairs = [(k, c10.gen_crit(r, vals, "attr")) for k in r.sample(keys, r.choice([0, 0, 1, 1, 2]))]     # distinct keys
        string_c = c10.gen_crit(r, vals, "string") if r.random() < 0.15 else ("n",)
        in_dict = [pc for pc in pairs if r.random() < 0.7]
        in_kw = [(k if k != "class" else "class_", c) for k, c in pairs if (k, c) not in in_dict]
        q = c10.Q(name=name_c, attrs=("D", in_dict), string=string_c, kwargs=in_kw)
        fnmk = lambda j: (lambda s, j=j: c10.str_fn(j, s))
        kw = {("class_" if k == "class_" else k): c10.py_crit(c, fnmk) for k, c in q.kwargs}
        try:
            import warnings as _w
            with _w.catch_warnings():
                _w.simplefilter("ignore")
                st = SoupStrainer(name=c10.py_crit(q.name, fnmk), attrs={k: c10.py_crit(c, fnmk) for k, c in q.attrs[1]},
                                  string=c10.py_crit(q.string, fnmk), **kw)
        except Exception as e:
            ctx.violation(f"SoupStrainer(...) raised {type(e).__name__}: {e}", case={"query": q.describe()}, stream="strainer-parse")
            continue
        re_t = ";".join(f"{j}:{tok(s)}:1" for j in sorted(q.re_ids()) for s in uni if c10._RE[j].search(s) is not None) or "-"
        fs = ";".join([f"{j}:{tok(s)}:1" for j in sorted(q.fn_ids()) for s in uni if c10.str_fn(j, s)] +
                      [f"{j}:~:1" for j in sorted(q.fn_ids()) if c10.str_fn(j, None)]) or "-"
        name_fn_free = not any(a[0] == "f" for a in c10.atoms(q.name))
        for _ in range(4):
            pfx = r.choice(prefixes)
            nm = r.choice(names)
            raw = {}
            for k in r.sample(keys, r.randint(0, 3)):
                raw[k] = r.choice(vals)
            got = bool(st.allow_tag_creation(pfx, nm, dict(raw) if raw or r.random() < 0.7 else None))
            rawtok = "&".join(f"{tok(k)}={tok(v) if v else 'e'}" for k, v in raw.items()) or "-"
            ptok = "~" if pfx is None else (tok(pfx) if pfx else "e")
            lines.append(f"c16 allow {q.enc()} {re_t} {fs} {ptok} {tok(nm) if nm else 'e'} {rawtok}")
            impls.append("1" if got else "0")
            cases.append({"query": q.describe(), "prefix": pfx, "name": nm, "raw": raw})
            ctx.count("strainer-parse:allow=" + str(got))
            # the theorem on the real code
            if name_fn_free and not st.string_rules and (st.name_rules or st.attribute_rules) and nm:
                tag = Tag(name=nm, prefix=pfx, attrs=dict(raw))
                tag.attrs = dict(raw)                   # single strings, as html.parser with multi_valued_attributes=None stores them
                m = bool(st.matches_tag(tag))
                n_eq += 1
                ctx.case(("SP", i, pfx, nm, tuple(sorted(raw.items()))) if got else None)
                if m != got:
                    ctx.violation("allow_tag_creation (asked before the tag exists) differs from matches_tag (asked of the finished tag) for a "
                                  "single-valued tag", case=cases[-1], expected=m, observed=got, stream="strainer-parse")
        for sv in r.sample(vals, 2):
            got = bool(st.allow_string_creation(sv))
            lines.append(f"c16 allowstr {q.enc()} {re_t} {fs} {tok(sv) if sv else 'e'}")
            impls.append("1" if got else "0")
            cases.append({"query": q.describe(), "string": sv})
    ctx.count("strainer-parse:parse-time=search-time comparisons", n_eq)
    rep = drv.ask(lines)
    for l, a, b, c in zip(lines, impls, rep, cases):
        if a != b:
            ctx.corr_disagreements += 1
            ctx.violation("Lean code-mirror of allow_tag_creation/allow_string_creation and the implementation disagree", case=c | {"line": l[:1500]},
                          observed=a, model=b, stream="strainer-parse", no_failing_input=True)


def tuple_tree(n):
    if n[0] == "e":
        return ("e", n[1], [tuple(a) for a in n[2]], [tuple_tree(k) for k in n[3]])
    return tuple(n)


def replay(path):
    v = json.load(open(path))
    c = v["case"]
    f = from_description(c["filter"])
    soup = real_parse(c["text"], f.strainer())
    got = c04.shape(soup, with_pos=False)
    print("text:", repr(c["text"])); print("filter:", c["filter"]); print("kept:", got); print("expected:", v.get("expected"))
    return 0 if got == v.get("expected") else 1
