"""C17 — attribute values: multi-valued split/join, coercion rules of the attribute containers, duplicate policy.

Every case is a JSON-able dict (`kind` + parameters).  `execute(case)` runs the real bs4, `oracle(case)` computes what the
property statement demands (plain Python, independent of the Lean model), `model_line(case)` is the request for the
executable Lean model (BS.Attrs.*).  All three produce the same canonical one-line form."""
import copy
import json
import sys
import warnings
from decimal import Decimal
from fractions import Fraction

from .common import Ctx, Driver, tok

MANIFEST = dict(
    text=("Lean theorems (all proved, axioms audited; count in evidence) over a code-mirror of nonwhitespace_re.findall, TreeBuilder option handling and "
          "_replace_cdata_list_attribute_values, HTMLAttributeDict/XMLAttributeDict.__setitem__, the attribute part of Tag.__init__, "
          "new_tag, copy_self, handle_starttag's duplicate handling, Tag.get/get_attribute_list/has_attr/__delitem__, and the attribute "
          "part of _format_tag with Formatter.attributes and quoted_attribute_value. Splitting: split_tokens + every_string_decomposes "
          "(tokens = maximal whitespace-free runs, every string, generated \\s class), split_is_regex_findall (scanner = the regex "
          "engine's reading), written_back_and_reread (join/split for every list), split_join_stable. Table: multi_valued_iff_table, "
          "default_table_every_entry_honoured + multi_valued_only_through_an_entry (the whole generated table, any spelling of the "
          "element name; str.lower from a generated per-code-point table, = ASCII lowering on ASCII), prefixed_attributes_never_split, "
          "base_table_splits_nothing (XML-flavoured builders), replace_refines_spec(_any_class), custom_map_exact, others_verbatim, "
          "none_disables, builder_options_meaning. Containers: html_coercion / xml_coercion (total over the value ADT incl. 0, 0.0, "
          "negatives, digit-limit ValueError), containers_hold_no_numbers (all assignment sequences). Duplicates: dup_policy_replace/"
          "ignore/callable over all attribute lists, parsed_start_tag(_ignore/_accumulate/_any_policy/_none) end to end for every "
          "dictionary/list class, policy_irrelevant_without_repeats, bad_policy_string_fails_iff_repeat. Histories: "
          "mutate_leaves_others_unchanged, del_leaves_others_unchanged, creation_leaves_earlier_tags_unchanged, "
          "later_parse_independent_of_history, copy_keeps_container. Reading/output: get_attribute_list_spec/_parsed, del_spec, "
          "formatter_attributes_spec (permutation, key order, empty->None only under empty_attributes_are_booleans), "
          "registry_empty_attribute_flags (whole generated registry), format_attribute_spec, quoting_delimits, attribute_string_shape. "
          "Tie: differential runs of the real bs4 against the compiled model AND a direct Python oracle: exhaustive single separators, "
          "generated whitespace patterns from the full isspace set, the element x attribute grid around the table (case variants incl. "
          "non-ASCII, custom maps, None, XML-flavoured builder), the value-type grid through both containers / Tag.__setitem__ / new_tag "
          "(nsprefix, NamespacedAttribute keys) / builder-less tags / copies, generated and untidy start tags with repeated attributes "
          "under every on_duplicate_attribute setting, histories with in-place list changes under shared and fresh builders (object "
          "identity, snapshots, search), every formatter's attribute output, and the accessors."),
    design="7/C17",
    note=("str(float) is taken from the runtime (carried in the value); entity substitution in attribute values is a parameter of the "
          "output model (identity in the correspondence: formatter=None-like formatters, and named formatters on values that need no "
          "substitution); str.lower() has no final-sigma rule in the model (U+03A3 not generated); which key object a dictionary retains "
          "is not modelled (NamespacedAttribute keys in attrs arguments carry string values only); lxml is not installed, so the "
          "XML-flavoured builder of the streams is html.parser's tokenizer with is_xml=True and the base (empty) table. "),
    technique="Lean 4 proofs over a code-mirror + differential correspondence through a line protocol + direct property oracle",
)

# --------------------------------------------------------------------------------------
# values
# --------------------------------------------------------------------------------------

class _Obj:
    def __str__(self):
        return "an-object"
    __repr__ = __str__


OTHERS = [("0j", 0j), ("1+2j", 1 + 2j), ("dec0", Decimal(0)), ("dec1.5", Decimal("1.5")), ("frac0", Fraction(0)),
          ("frac1/3", Fraction(1, 3)), ("obj", _Obj()), ("bytes", b"x")]
OTHER_ID = {n: i for i, (n, _) in enumerate(OTHERS)}


def _classes():
    from bs4.element import AttributeDict, HTMLAttributeDict, XMLAttributeDict, AttributeValueList
    global MyList
    try:
        MyList
    except NameError:
        MyList = type("MyList", (AttributeValueList,), {})
    return {"plain": AttributeDict, "html": HTMLAttributeDict, "xml": XMLAttributeDict}, {1: AttributeValueList, 2: MyList}


def _numclasses():
    """proper subclasses of int and float (a unit class, an IntEnum, an IntFlag, a float subclass): numbers like any other"""
    global Px, Level, Flag, Ratio
    try:
        return Px, Level, Flag, Ratio
    except NameError:
        import enum
        Px = type("Px", (int,), {})
        Level = enum.IntEnum("Level", {"LOW": 0, "MID": 2, "NEG": -5})
        Flag = enum.IntFlag("Flag", {"A": 1, "B": 4})
        Ratio = type("Ratio", (float,), {})
        return Px, Level, Flag, Ratio


def _mystr():
    global MyStr
    try:
        return MyStr
    except NameError:
        MyStr = type("MyStr", (str,), {})
        return MyStr


def big_dec(n: int) -> str:
    """decimal numeral of an int of any size (str() of the runtime has a digit limit)"""
    if n < 0:
        return "-" + big_dec(-n)
    base = 10 ** 18
    parts = []
    while n >= base:
        n, r = divmod(n, base)
        parts.append("%018d" % r)
    parts.append("%d" % n)
    return "".join(reversed(parts))


def mk(desc):
    """value descriptor (JSON) -> Python value"""
    t = desc[0]
    if t == "s":
        return desc[1]
    if t == "S":
        return _mystr()(desc[1])       # a str subclass: treated as a string everywhere
    if t == "b":
        return bool(desc[1])
    if t == "n":
        return None
    if t == "i":
        d = desc[1]
        if d.startswith("E"):       # E<k> = 10**k, -E<k> below
            return 10 ** int(d[1:])
        if d.startswith("-E"):
            return -(10 ** int(d[2:]))
        return int(d)
    if t == "f":
        return float(desc[1])
    if t == "I":        # an instance of a proper subclass of int
        Px, Level, Flag, _ = _numclasses()
        return {"px": Px, "level": Level, "flag": Flag}[desc[1]](int(desc[2]))
    if t == "F":        # an instance of a proper subclass of float
        return _numclasses()[3](float(desc[1]))
    if t == "l":
        _, lc = _classes()
        cls = list if desc[1] == 0 else lc[desc[1]]
        return cls(desc[2])
    if t == "t":
        return tuple(desc[1])
    if t == "o":
        return OTHERS[OTHER_ID[desc[1]]][1]
    raise ValueError(desc)


def enc_val(v) -> str:
    """Python value -> protocol token (same syntax the Lean driver prints)"""
    _, lc = _classes()
    if v is None:
        return "n"
    if isinstance(v, bool):
        return "b:1" if v else "b:0"
    if isinstance(v, int):
        return "i:" + big_dec(v)
    if isinstance(v, float):
        return f"f:{tok(str(v))}:{1 if v == 0 else 0}"
    if isinstance(v, str):
        return "s:" + tok(v)
    if isinstance(v, tuple) and all(isinstance(x, str) for x in v):
        return "t:" + "/".join(tok(x) for x in v)
    if isinstance(v, list):
        cls = 0 if type(v) is list else (1 if type(v) is lc[1] else 2 if type(v) is lc[2] else 9)
        return f"l:{cls}:" + "/".join(tok(x) if isinstance(x, str) else "?" + type(x).__name__ for x in v)
    for i, (_, o) in enumerate(OTHERS):
        if v is o or (type(v) is type(o) and v == o):
            eqf = 0
            try:
                eqf = 1 if v == False else 0  # noqa: E712  (the membership test's own comparison)
            except Exception:
                pass
            return f"o:{i}:{eqf}"
    return "?:" + repr(v)


def safe_repr(d) -> str:
    try:
        return repr(dict(d))
    except ValueError:          # repr of an int beyond the digit limit
        return "{" + ", ".join(f"{k!r}: <{type(v).__name__}>" for k, v in d.items()) + "}"


def mk_key(kd):
    from bs4.element import NamespacedAttribute
    if kd[0] == "p":
        return kd[1]
    return NamespacedAttribute(kd[1], kd[2])


def combined_attrs(case):
    """what the container of new_tag holds: the keyword attributes, updated with `attrs` (dict.update order)"""
    if not case.get("kw"):
        return case["attrs"]
    out = [[k, vd] for k, vd in case["kw"]]
    for k, vd in case["attrs"] or []:
        for e in out:
            if key_str(e[0]) == key_str(k):
                e[1] = vd
                break
        else:
            out.append([k, vd])
    return out


def key_obj(k):
    """a key of an attrs argument: a plain str, or a key descriptor (NamespacedAttribute)"""
    return k if isinstance(k, str) else mk_key(k)


def key_str(k) -> str:
    return str(key_obj(k))


def enc_key(kd) -> str:
    if kd[0] == "p":
        return "p:" + tok(kd[1])
    return "q:" + ("~" if kd[1] is None else tok(kd[1])) + ":" + ("~" if kd[2] is None else tok(kd[2]))


def enc_items(d) -> str:
    return "&".join(f"{tok(str(k))}={enc_val(v)}" for k, v in d.items()) if len(d) else "-"


def enc_map(m) -> str:
    if m == "default":
        return "default"
    if m is None:
        return "none"
    return "m:" + "&".join(tok(k) + ">" + ";".join(tok(a) for a in attrs) for k, attrs in m)


def cls_name(d) -> str:
    dc, _ = _classes()
    for n, c in dc.items():
        if type(d) is c:
            return n
    for n in ("html", "xml", "plain"):          # a user's subclass behaves as its base class
        if isinstance(d, dc[n]) and type(d).__name__.startswith("Sub"):
            return n
    return "other:" + type(d).__name__


def _dict_subclasses():
    global SubPlain, SubHtml, SubXml
    try:
        return {"plain": SubPlain, "html": SubHtml, "xml": SubXml}
    except NameError:
        dc, _ = _classes()
        SubPlain = type("SubPlain", (dc["plain"],), {})
        SubHtml = type("SubHtml", (dc["html"],), {})
        SubXml = type("SubXml", (dc["xml"],), {})
        return {"plain": SubPlain, "html": SubHtml, "xml": SubXml}


def lcls_id(c) -> int:
    _, lc = _classes()
    return 1 if c is lc[1] else 2 if c is lc[2] else 9


# --------------------------------------------------------------------------------------
# rendering observation
# --------------------------------------------------------------------------------------

def observe_render(tag) -> str:
    """what `_format_tag` hands to formatter.attribute_value for each attribute, in dictionary order"""
    from bs4.formatter import HTMLFormatter

    class Rec(HTMLFormatter):
        def __init__(self):
            super().__init__()
            self.rec = []

        def attribute_value(self, value):
            self.rec.append(value)
            return super().attribute_value(value)

    f = Rec()
    try:
        tag.decode(formatter=f)
    except ValueError:
        return "err"
    it = iter(f.rec)
    rendered = {}
    for k, v in sorted(tag.attrs.items(), key=lambda kv: kv[0]):
        if v is None:
            rendered[k] = "bare"
            continue
        got = next(it, None)
        e = enc_val(v)
        if e.startswith("o:") and got == str(v):
            rendered[k] = "o:" + e.split(":")[1]
        else:
            rendered[k] = "t:" + ("<missing>" if got is None else tok(got) if isinstance(got, str) else "<nonstr>")
    if len(tag.attrs) == 0:
        return "-"
    return "&".join(f"{tok(str(k))}={rendered[k]}" for k in tag.attrs)


def canon_model_tag(reply: str) -> str:
    """model replies carry a per-item `err`; the real decode raises as a whole"""
    if " R " in reply:
        head, r = reply.split(" R ", 1)
        if "=err" in r:
            return head + " R err"
    return reply


def show_tag(tag) -> str:
    return (f"ok {cls_name(tag.attrs)} {lcls_id(tag.attribute_value_list_class)} x{1 if tag.known_xml else 0} "
            f"{enc_items(tag.attrs)} R {observe_render(tag)}")


SAFE = set("abcdefghijklmnopqrstuvwxyzABCDEFGHIJKLMNOPQRSTUVWXYZ0123456789-_.:+ ")


_CUSTOM_FMT = {}


def custom_formatter(kind):
    """Formatter subclasses that override `attributes()` — the documented extension point (the documentation's
    UnsortedAttributes yields tag.attrs.items() as they are); `_format_tag` must still join list values itself"""
    if not _CUSTOM_FMT:
        from bs4.formatter import HTMLFormatter

        class UnsortedAttributes(HTMLFormatter):
            def attributes(self, tag):
                for k, v in tag.attrs.items():
                    yield k, v

        class ReversedAttributes(HTMLFormatter):
            def attributes(self, tag):
                return sorted(tag.attrs.items(), key=lambda kv: str(kv[0]), reverse=True)

        class SkipId(HTMLFormatter):
            def attributes(self, tag):
                return [(k, v) for k, v in sorted(tag.attrs.items(), key=lambda kv: str(kv[0])) if str(k) != "id"]

        _CUSTOM_FMT.update(unsorted=UnsortedAttributes, reversed=ReversedAttributes, skipid=SkipId)
    return _CUSTOM_FMT[kind](entity_substitution=None)


def custom_selection(kind, items):
    """what that formatter's attributes() hands back, for (key, value) pairs in dictionary order"""
    if kind == "unsorted":
        return list(items)
    if kind == "reversed":
        return sorted(items, key=lambda kv: str(kv[0]), reverse=True)
    return [(k, v) for k, v in sorted(items, key=lambda kv: str(kv[0])) if str(k) != "id"]


def default_decode_check(tag):
    bad = _decode_check(tag, None)
    if bad:
        return bad
    for kind in ("unsorted", "reversed"):
        bad = _decode_check(tag, kind)
        if bad:
            return (f"[formatter overriding attributes(): {kind}] " + bad[0], bad[1])
    return None


def _decode_check(tag, custom):
    """the default output: list values joined by single spaces inside the quoted attribute (only for values without
    characters that need escaping). Returns None if fine / not applicable, else (expected_prefix, observed)."""
    parts = []
    pairs = sorted(tag.attrs.items(), key=lambda kv: kv[0]) if custom is None else custom_selection(custom, tag.attrs.items())
    for k, v in pairs:
        if v is None:
            parts.append(f" {k}")
            continue
        if isinstance(v, (list, tuple)):
            if not all(isinstance(x, str) for x in v):
                return None
            s = " ".join(v)
        elif isinstance(v, str):
            s = str(v)
        else:
            return None
        if not set(s) <= SAFE or not set(str(k)) <= SAFE:
            return None
        parts.append(f' {k}="{s}"')
    want = "<" + (tag.prefix + ":" if tag.prefix else "") + tag.name + "".join(parts)
    try:
        got = tag.decode() if custom is None else tag.decode(formatter=custom_formatter(custom))
    except Exception as e:  # pragma: no cover
        return (want, f"raised {type(e).__name__}")
    if got.startswith(want + ">") or got.startswith(want + "/>"):
        return None
    return (want, got)


# --------------------------------------------------------------------------------------
# configurations
# --------------------------------------------------------------------------------------

def accumulate(attrs, key, value):
    if not isinstance(attrs[key], list):
        attrs[key] = [attrs[key]]
    attrs[key].append(value)


def cb_noop(attrs, key, value):
    pass


def cb_drop(attrs, key, value):
    del attrs[key]


def cb_upper(attrs, key, value):
    attrs[key] = value + "!"


class FalsyAccumulate(list):
    """a callable handler OBJECT whose truth value is False (an empty list subclass): it must still be consulted"""
    def __call__(self, attrs, key, value):
        accumulate(attrs, key, value)

    def __bool__(self):
        return False


class ZeroLenNoop:
    """a callable with __len__ == 0 (falsy) that keeps the first value"""
    def __len__(self):
        return 0

    def __call__(self, attrs, key, value):
        pass


class DropHandler:
    def drop(self, attrs, key, value):
        del attrs[key]


_DROP_HANDLER = DropHandler()
import functools  # noqa: E402

ONDUP = {"falsy-accumulate": FalsyAccumulate(), "falsy-noop": ZeroLenNoop(), "partial-upper": functools.partial(cb_upper),
         "method-drop": _DROP_HANDLER.drop, "absent": None, "replace": "replace", "None": None, "ignore": "ignore", "Replace": "Replace", "keep": "keep",
         "accumulate": accumulate,
         "noop": cb_noop, "drop": cb_drop, "upper": cb_upper}
ONDUP_MODEL = {"falsy-accumulate": "cb:accumulate", "falsy-noop": "cb:noop", "partial-upper": "cb:upper",
               "method-drop": "cb:drop", "absent": "absent", "replace": "replace", "None": "None", "ignore": "ignore", "Replace": "Replace",
               "keep": "keep", "accumulate": "cb:accumulate", "noop": "cb:noop", "drop": "cb:drop", "upper": "cb:upper"}


OPTION_FORMS = ["literal", "join", "lower", "subclass", "json", "slice"]


def form_str(x, form):
    """an option string in a given argument form: the source literal, or an EQUAL string made at run time (a different
    object: options must be compared by value)"""
    if not isinstance(x, str) or form in (None, "literal"):
        return x
    if form == "join":
        return "".join(list(x))
    if form == "lower":
        return x.swapcase().swapcase()
    if form == "subclass":
        return _mystr()(x)
    if form == "json":
        return json.loads(json.dumps(x))
    if form == "slice":
        return ("<" + x + ">")[1:-1]
    raise ValueError(form)


def builder_kwargs(cfg):
    dc, lc = _classes()
    kw = {}
    if cfg["mva"] != "default":
        # the attribute collections in several legal forms (set, frozenset, list, tuple): only membership is needed
        forms = (set, frozenset, list, tuple)
        kw["multi_valued_attributes"] = None if cfg["mva"] is None else {k: forms[(len(k) + len(v)) % 4](v) for k, v in cfg["mva"]}
    if cfg.get("dcls", "absent") != "absent":
        # under the "subclass" argument form the dictionary class is a user's subclass of the named class
        kw["attribute_dict_class"] = (_dict_subclasses() if cfg.get("form") == "subclass" else dc)[cfg["dcls"]]
    if cfg.get("lcls", 0) != 0:
        kw["attribute_value_list_class"] = lc[cfg["lcls"]]
    od = cfg.get("ondup", "absent")
    if od != "absent":
        kw["on_duplicate_attribute"] = form_str(ONDUP[od], cfg.get("form"))
    if "pk" in cfg:
        # a fresh dictionary each time (the constructor writes into the caller's dictionary)
        kw["parser_kwargs"] = {} if cfg["pk"] == "empty" else {"on_duplicate_attribute": form_str(ONDUP[cfg["pk"]], cfg.get("form"))}
    if cfg.get("form") not in (None, "literal") and "multi_valued_attributes" in kw and kw["multi_valued_attributes"]:
        # map keys and attribute names as run-time strings too
        kw["multi_valued_attributes"] = {form_str(k, "join"): type(v)(form_str(a, "slice") for a in v)
                                         for k, v in kw["multi_valued_attributes"].items()}
    return kw


_XMLISH = None


def xmlish_builder_class():
    """An XML-flavoured builder that can run here (lxml is not installed): html.parser's tokenizer, but `is_xml = True`
    and no multi-valued table of its own, i.e. the base TreeBuilder default, as bs4's XML builders have."""
    global _XMLISH
    if _XMLISH is None:
        from bs4.builder import TreeBuilder
        from bs4.builder._htmlparser import HTMLParserTreeBuilder
        global XmlishBuilder
        XmlishBuilder = _XMLISH = type("XmlishBuilder", (HTMLParserTreeBuilder,), {
            "is_xml": True, "NAME": "xmlish", "features": ["xmlish"], "ALTERNATE_NAMES": [],
            "DEFAULT_CDATA_LIST_ATTRIBUTES": TreeBuilder.DEFAULT_CDATA_LIST_ATTRIBUTES})
    return _XMLISH


BUILDER_VIAS = ["pickle", "copy", "deepcopy", "soup-pickle", "soup-copy"]


def make_builder(cfg):
    """the configured builder object, possibly after a round trip that must preserve its configuration: pickling,
    copying, or being carried by a pickled / copied BeautifulSoup object"""
    import pickle
    from bs4 import BeautifulSoup
    from bs4.builder._htmlparser import HTMLParserTreeBuilder
    cls = xmlish_builder_class() if cfg.get("xml") else HTMLParserTreeBuilder
    b = cls(**builder_kwargs(cfg))
    via = cfg.get("via")
    if via == "pickle":
        b = pickle.loads(pickle.dumps(b))
    elif via == "copy":
        b = copy.copy(b)
    elif via == "deepcopy":
        b = copy.deepcopy(b)
    elif via in ("soup-pickle", "soup-copy"):
        with warnings.catch_warnings():
            warnings.simplefilter("ignore")
            s0 = BeautifulSoup('<p class="a b" id="x">first document</p>', builder=b)
            s1 = pickle.loads(pickle.dumps(s0)) if via == "soup-pickle" else copy.copy(s0)
        b = s1.builder
        _spy_log.clear()          # the start tags of this first document are not the case's
    return b


def make_soup(markup, cfg, shared=None):
    """the documented route (`BeautifulSoup(markup, "html.parser", **options)`) for the HTML flavour, a builder object for
    a shared builder or the XML flavour"""
    from bs4 import BeautifulSoup
    with warnings.catch_warnings():
        warnings.simplefilter("ignore")
        if shared is not None:
            return BeautifulSoup(markup, builder=shared)
        if cfg.get("xml") or cfg.get("via"):
            return BeautifulSoup(markup, builder=make_builder(cfg))
        return BeautifulSoup(markup, "html.parser", **builder_kwargs(cfg))


def cfg_model(cfg):
    """the builder options as given (the model's mkBuilder resolves the defaults)"""
    return (enc_map(cfg["mva"]), cfg.get("dcls", "absent"), str(cfg.get("lcls", 0) or 0) + ("x" if cfg.get("xml") else ""))


def live_table(cfg):
    """the map in force, as a dict name -> set (None when disabled)"""
    if cfg["mva"] == "default":
        if cfg.get("xml"):
            return xmlish_builder_class().DEFAULT_CDATA_LIST_ATTRIBUTES
        from bs4.builder import HTMLParserTreeBuilder
        return HTMLParserTreeBuilder.DEFAULT_CDATA_LIST_ATTRIBUTES
    if cfg["mva"] is None:
        return None
    return {k: set(v) for k, v in cfg["mva"]}


def effective_policy(cfg) -> str:
    """which setting is in force: the builder keyword when it is passed (even None), else the parser_kwargs entry, else
    the default"""
    od = cfg.get("ondup", "absent")
    if od != "absent":
        return od
    pk = cfg.get("pk", "empty")
    return "absent" if pk == "empty" else pk


def covered(table, tag, attr) -> bool:
    """the property's reading: listed under `*` or under the lower-cased element name"""
    if not table:
        return False
    return attr in table.get("*", ()) or attr in table.get(tag.lower(), ())


# --------------------------------------------------------------------------------------
# oracle side: plain-Python statement of the property
# --------------------------------------------------------------------------------------

def oracle_store(cls, d, key, v):
    """documented coercion of one assignment into an ordinary dict `d` (keys by their str value)"""
    from bs4.element import NamespacedAttribute
    if cls == "html":
        if v is False or v is None:
            d.pop(str(key), None)
            return
        if v is True:
            v = key.name if isinstance(key, NamespacedAttribute) else key
        elif isinstance(v, (int, float)):
            v = str(v)
    elif cls == "xml":
        if v is None:
            v = ""
        elif isinstance(v, (int, float)) and not isinstance(v, bool):
            v = str(v)
    d[str(key)] = v


def oracle_multi(table, name, d, lcls):
    _, lc = _classes()
    for k in list(d):
        if covered(table, name, k) and isinstance(d[k], str):
            d[k] = lc[lcls](d[k].split())      # str.split(): runs of non-whitespace


def oracle_render(d) -> str:
    if not d:
        return "-"
    out = []
    for k, v in d.items():
        e = enc_val(v)
        if v is None:
            r = "bare"
        elif isinstance(v, (list, tuple)):
            r = "t:" + tok(" ".join(v))
        elif isinstance(v, str):
            r = "t:" + tok(v)
        elif e.startswith("o:"):
            r = "o:" + e.split(":")[1]
        else:
            try:
                r = "t:" + tok(str(v))
            except ValueError:
                return "err"
        out.append(f"{tok(k)}={r}")
    return "&".join(out)


def oracle(case) -> str:
    kind = case["kind"]
    if kind == "pkshare":
        return oracle_pkshare(case)
    if kind == "format":
        return oracle_format(case)
    if kind == "access":
        return oracle_access(case)
    if kind == "history":
        states = simulate_history(case)[1]
        return " ## ".join(states[-1]) if states and states[-1] else "-"
    if kind == "split":
        r = case["s"].split()
        return "/".join(tok(t) for t in r) if r else "-"
    if kind == "multi":
        return "1" if covered(live_table(case["cfg"]), case["tag"], case["attr"]) else "0"
    if kind == "dict":
        d = {}
        try:
            for kd, vd in case["sets"]:
                oracle_store(case["cls"], d, mk_key(kd), mk(vd))
        except ValueError:
            return "valueError"
        return "ok " + enc_items(d)
    if kind == "parse":
        cfg = case["cfg"]
        d = {}
        pol = effective_policy(cfg)
        for k, v in case["attrs"]:
            v = "" if v is None else v
            if k in d:
                if pol == "ignore":
                    continue
                if pol in ("absent", "replace", "None"):
                    d[k] = v            # the last one survives, at the position of the first
                elif isinstance(ONDUP[pol], str):
                    return "raised TypeError"       # a string that is no policy cannot decide anything
                else:
                    ONDUP[pol](d, k, v)
            else:
                d[k] = v
        lcls = cfg.get("lcls", 0) or 1
        oracle_multi(live_table(cfg), case["name"], d, lcls)
        dcls = cfg.get("dcls", "absent")
        return f"ok {'plain' if dcls == 'absent' else dcls} {lcls} x{1 if cfg.get('xml') else 0} {enc_items(d)} R {oracle_render(d)}"
    if kind == "tag":
        cfg = case["cfg"]
        if cfg is None:
            cls = "xml" if case["isxml"] else "html"
            lcls = 1
            x = 1 if case["isxml"] else 0
        else:
            dcls = cfg.get("dcls", "absent")
            cls = "plain" if dcls == "absent" else dcls
            lcls = cfg.get("lcls", 0) or 1
            x = 1 if cfg.get("xml") else 0
        d = {}
        try:
            if case.get("via") == "copy":
                # a copy holds the original's values in the same kind of dictionary (lists in new lists), assigned
                # through that dictionary's own rules; it keeps is_xml and gets the default list class
                cls = case["acls"]
                for k, vd in case["attrs"]:
                    oracle_store(cls, d, key_str(k), _copy_val(mk(vd)))
            elif combined_attrs(case) is not None:
                table = live_table(cfg) if cfg is not None else None
                if table:
                    # the dictionary passed in is kept; covered string values are split; assignments go through its class
                    acls = case["acls"]
                    d = {key_str(k): mk(vd) for k, vd in combined_attrs(case)}
                    for k in list(d):
                        if covered(table, case["name"], k):
                            v = d[k]
                            _, lc = _classes()
                            nv = lc[lcls](v.split()) if isinstance(v, str) else v
                            oracle_store(acls, d, k, nv)
                    cls = acls
                else:
                    for k, vd in combined_attrs(case):
                        oracle_store(cls, d, key_str(k), mk(vd))
            for kd, vd in case["sets"]:
                oracle_store(cls, d, mk_key(kd), mk(vd))
        except ValueError:
            return "valueError"
        return f"ok {cls} {lcls} x{x} {enc_items(d)} R {oracle_render(d)}"
    raise ValueError(kind)


# --------------------------------------------------------------------------------------
# real side
# --------------------------------------------------------------------------------------

_spy_installed = False
_spy_log = []


def install_spy():
    """record what html.parser's tokenizer hands to handle_starttag (the model starts from that list)"""
    global _spy_installed
    if _spy_installed:
        return
    from bs4.builder._htmlparser import BeautifulSoupHTMLParser
    orig = BeautifulSoupHTMLParser.handle_starttag

    def handle_starttag(self, name, attrs, handle_empty_element=True):
        _spy_log.append((name, list(attrs)))
        return orig(self, name, attrs, handle_empty_element)

    handle_starttag.__wrapped__ = orig
    BeautifulSoupHTMLParser.handle_starttag = handle_starttag
    _spy_installed = True


def markup_for(name, attrs):
    out = "<" + name
    for k, v in attrs:
        out += " " + k if v is None else f' {k}="{v}"'
    return out + ">"


def execute(case):
    """run the real code; returns (canonical observation, extra checks failed [list of (what, expected, observed)])"""
    from bs4 import BeautifulSoup
    from bs4.element import Tag, nonwhitespace_re
    dc, lc = _classes()
    kind = case["kind"]
    extra = []
    if kind == "history":
        return exec_history(case)
    if kind == "pkshare":
        return exec_pkshare(case)
    if kind == "format":
        return exec_format(case)
    if kind == "access":
        return exec_access(case)
    if kind == "split":
        r = nonwhitespace_re.findall(case["s"])
        return ("/".join(tok(t) for t in r) if r else "-"), extra
    if kind == "multi":
        cfg = case["cfg"]
        soup = make_soup("", cfg)
        attrs = dc["plain"]()
        dict.__setitem__(attrs, case["attr"], "a b")
        out = soup.builder._replace_cdata_list_attribute_values(case["tag"], attrs)
        v = out[case["attr"]]
        if isinstance(v, list):
            if list(v) != ["a", "b"]:
                extra.append(("split value", ["a", "b"], list(v)))
            return "1", extra
        if v != "a b":
            extra.append(("verbatim value", "a b", v))
        return "0", extra
    if kind == "dict":
        d = (_dict_subclasses() if case.get("sub") else dc)[case["cls"]]()      # "sub": a user's subclass of the container
        try:
            for kd, vd in case["sets"]:
                d[mk_key(kd)] = mk(vd)
        except ValueError:
            return "valueError", extra
        case["_human"] = (type(d).__name__, d)
        return "ok " + enc_items(d), extra
    if kind == "parse":
        cfg = case["cfg"]
        install_spy()
        _spy_log.clear()
        soup = make_soup(case["markup"], cfg)
        tag = soup.find(True)
        seen = _spy_log[0] if _spy_log else None
        case["_seen"] = seen
        if tag is None:
            return "no-tag", extra
        case["_human"] = (type(tag.attrs).__name__, tag.attrs)
        for k, v in tag.attrs.items():
            gl = tag.get_attribute_list(k)
            want = v if isinstance(v, list) else [v]
            if gl != want:
                extra.append(("get_attribute_list " + k, want, gl))
        bad = default_decode_check(tag)
        if bad:
            extra.append(("default decode joins with single spaces", bad[0], bad[1]))
        return show_tag(tag), extra
    if kind == "tag":
        cfg = case["cfg"]
        try:
            if cfg is None:
                attrs = None
                if case["attrs"] is not None:
                    attrs = dc[case["acls"]]()
                    for k, vd in case["attrs"]:
                        dict.__setitem__(attrs, key_obj(k), mk(vd))
                if case.get("via") == "copy":
                    # a tag holding `attrs` (raw, in a dictionary of class acls), copied with Tag.copy_self
                    src = Tag(name=case["name"], is_xml=case["isxml"])
                    src.attrs = attrs if attrs is not None else dc["plain"]()
                    tag = copy.copy(src)
                else:
                    tag = Tag(name=case["name"], is_xml=case["isxml"], attrs=attrs)
            else:
                soup = make_soup("", cfg)
                extra_kw = {"nsprefix": case["nsprefix"]} if case.get("nsprefix") else {}
                extra_kw.update({k: mk(vd) for k, vd in case.get("kw") or []})      # keyword attributes
                if case["attrs"] is None:
                    tag = soup.new_tag(case["name"], **extra_kw)
                else:
                    tag = soup.new_tag(case["name"], attrs={key_obj(k): mk(vd) for k, vd in case["attrs"]}, **extra_kw)
            for kd, vd in case["sets"]:
                tag[mk_key(kd)] = mk(vd)
        except ValueError:
            return "valueError", extra
        bad = default_decode_check(tag)
        if bad:
            extra.append(("default decode joins with single spaces", bad[0], bad[1]))
        case["_human"] = (type(tag.attrs).__name__, tag.attrs)
        return show_tag(tag), extra
    raise ValueError(kind)


def model_line(case) -> str:
    kind = case["kind"]
    if kind == "history":
        return history_line(case)
    if kind == "pkshare":
        return pkshare_line(case)
    if kind == "format":
        return format_line(case)
    if kind == "access":
        return access_line(case)
    if kind == "split":
        return "c17 split " + tok(case["s"])
    if kind == "multi":
        return f"c17 multi {enc_map(case['cfg']['mva'])} {tok(case['tag'])} {tok(case['attr'])}"
    if kind == "dict":
        sets = "&".join(f"{enc_key(kd)}={enc_val(mk(vd))}" for kd, vd in case["sets"]) or "-"
        return f"c17 dict {case['cls']} {sets}"
    if kind == "parse":
        m, d, l = cfg_model(case["cfg"])
        name, attrs = case["name"], case["attrs"]
        raw = "&".join(f"{tok(k)}={'~' if v is None else tok(v)}" for k, v in attrs) or "-"
        if "pk" in case["cfg"]:
            od = case["cfg"].get("ondup", "absent")
            kwt = "-" if od == "absent" else ONDUP_MODEL[od]
            pkt = "-" if case["cfg"]["pk"] == "empty" else ONDUP_MODEL[case["cfg"]["pk"]]
            return f"c17 parse2 {m} {d} {l} {kwt} {pkt} {tok(name)} {raw}"
        return f"c17 parse {m} {d} {l} {ONDUP_MODEL[case['cfg'].get('ondup', 'absent')]} {tok(name)} {raw}"
    if kind == "tag" and case.get("via") == "copy":
        items = "&".join(f"{tok(key_str(k))}={enc_val(mk(vd))}" for k, vd in case["attrs"]) or "-"
        sets = "&".join(f"{enc_key(kd)}={enc_val(mk(vd))}" for kd, vd in case["sets"]) or "-"
        return f"c17 copy {case['acls']} 1 {1 if case['isxml'] else 0} {tok(case['name'])} {items} {sets}"
    if kind == "tag" and case["cfg"] is not None and case.get("kw"):
        m, d, l = cfg_model(case["cfg"])
        kw = "&".join(f"{tok(k)}={enc_val(mk(vd))}" for k, vd in case["kw"])
        attrs = "~" if case["attrs"] is None else ("&".join(f"{tok(key_str(k))}={enc_val(mk(vd))}" for k, vd in case["attrs"]) or "-")
        sets = "&".join(f"{enc_key(kd)}={enc_val(mk(vd))}" for kd, vd in case["sets"]) or "-"
        return f"c17 newtag {m} {d} {l} {tok(case['name'])} {kw} {attrs} {sets}"
    if kind == "tag":
        cfg = case["cfg"]
        if cfg is None:
            b, m, d, l = "nb", "-", "-", "-"
        else:
            b = "b"
            m, d, l = cfg_model(cfg)
        if case["attrs"] is None:
            attrs = "~"
        else:
            items = "&".join(f"{tok(key_str(k))}={enc_val(mk(vd))}" for k, vd in case["attrs"]) or "-"
            attrs = f"{case['acls']}@{items}"
        sets = "&".join(f"{enc_key(kd)}={enc_val(mk(vd))}" for kd, vd in case["sets"]) or "-"
        return f"c17 tag {b} {m} {d} {l} {1 if case['isxml'] else 0} {tok(case['name'])} {attrs} {sets}"
    raise ValueError(kind)


def canon_model(case, reply):
    if case["kind"] == "pkshare":
        return " ## ".join(canon_model_tag(x) for x in reply.split(" ## "))
    if case["kind"] == "format":
        return canon_format_reply(reply)
    return canon_model_tag(reply) if case["kind"] in ("parse", "tag") else reply


# --------------------------------------------------------------------------------------
# generators
# --------------------------------------------------------------------------------------

WS = [c for c in range(sys.maxunicode + 1) if chr(c).isspace()]          # independent of `re`
LOOKALIKES = [0x200B, 0x200C, 0x200D, 0x2060, 0xFEFF, 0x180E, 0x00AD, 0x034F, 0x3164, 0x2800, 0x1D, 0x7F, 0x84, 0x86]
TOKCH = "abcxyzAZ09-_.:+"

VALUE_GRID = (
    [("s", s) for s in ["", "x", "a b", " a  b ", "0", "False", "k"]] + [("S", " p  q "), ("S", "")]
    + [("b", True), ("b", False), ("n",)]
    + [("i", d) for d in ["0", "1", "-1", "7", "-12", "255", "E30", "-E30", "E4299", "E4300", "-E4300", "-E4299"]]
    + [("f", d) for d in ["0.0", "-0.0", "1.5", "-2.25", "1e300", "1e-07", "inf", "-inf", "nan", "3.0"]]
    + [("l", 0, []), ("l", 0, ["a"]), ("l", 0, ["a", "b"]), ("l", 1, ["x", "y"]), ("l", 2, ["p"]), ("l", 1, []), ("l", 0, [""])]
    + [("I", "px", "0"), ("I", "px", "-7"), ("I", "px", "12"), ("I", "level", "0"), ("I", "level", "2"), ("I", "level", "-5"),
       ("I", "flag", "1"), ("I", "flag", "4"), ("F", "0.0"), ("F", "1.5"), ("F", "-0.0"), ("F", "nan")]
    + [("t", ["a", "b"]), ("t", [])]
    + [("o", n) for n, _ in OTHERS]
)
LIGHT_GRID = [v for v in VALUE_GRID if not (v[0] == "i" and "E4" in v[1])]


def pick_value(r):
    """mostly the light grid (huge ints are slow to ship through the line protocol)"""
    return list(r.choice(VALUE_GRID if r.random() < 0.03 else LIGHT_GRID))


KEYS = [("p", "k"), ("p", "j"), ("p", "class"), ("q", "xml", "lang"), ("q", "xmlns", None), ("q", "xmlns", ""),
        ("q", "", "x"), ("q", None, "y"), ("p", "xml:lang"), ("p", "")]

TAGS_IN_TABLE = None


def table_names():
    from bs4.builder import HTMLParserTreeBuilder
    t = HTMLParserTreeBuilder.DEFAULT_CDATA_LIST_ATTRIBUTES
    tags = sorted(k for k in t if k != "*")
    attrs = sorted({a for s in t.values() for a in s})
    return t, tags, attrs


def case_variants(name):
    out = {name, name.upper(), name.title(), name[:1] + name[1:].upper()}
    if "k" in name:
        out.add(name.replace("k", "K"))       # KELVIN SIGN lower-cases to k
    if "i" in name:
        out.add(name.replace("i", "İ"))       # lower-cases to i + U+0307: must NOT match
    return sorted(out)


def gen_ws_string(r, lead_trail=True, exotic=True):
    n = r.choice([0, 1, 1, 2, 2, 3, 4])
    pool = WS if exotic else [32, 9, 10, 12, 13]

    def sep(lo=1):
        return "".join(chr(r.choice(pool)) for _ in range(r.randint(lo, 3)))

    def token():
        k = r.randint(1, 4)
        return "".join(chr(r.choice(LOOKALIKES)) if r.random() < 0.15 else r.choice(TOKCH) for _ in range(k))

    toks = [token() for _ in range(n)]
    s = ""
    if lead_trail and r.random() < 0.4:
        s += sep()
    for i, t in enumerate(toks):
        s += t
        if i + 1 < n:
            s += sep()
    if lead_trail and r.random() < 0.4:
        s += sep()
    return s


CUSTOM_MAPS = [
    [],
    [("*", ["id"])],
    [("p", ["class"])],
    [("*", ["data-x"]), ("a", ["href", "rel"])],
    [("TD", ["headers"])],                 # an upper-case key can never be reached: lookup lower-cases the element name
    [("td", ["HEADERS", "headers"])],
    [("*", []), ("a", [])],
    [("a", ["class"]), ("*", ["rel"])],
    [("", ["x"]), ("div", [""])],
    [("straße", ["class"]), ("é", ["rel"]), ("ǆ", ["id"])],     # non-ASCII keys: str.lower, not casefold / ASCII lowering
]


def gen_cfg(r, allow_ondup=True):
    mva = r.choice(["default", "default", "default", None] + CUSTOM_MAPS)
    cfg = {"mva": mva, "dcls": r.choice(["absent", "absent", "plain", "html", "xml"]), "lcls": r.choice([0, 0, 1, 2])}
    if allow_ondup:
        cfg["ondup"] = r.choice(["absent", "replace", "None", "ignore", "accumulate", "noop", "drop", "upper", "Replace", "keep",
                                 "falsy-accumulate", "falsy-noop", "partial-upper", "method-drop"])
        if r.random() < 0.3:
            # the other route of the option: parser_kwargs={"on_duplicate_attribute": …} ("empty": parser_kwargs={})
            cfg["pk"] = r.choice(["ignore", "replace", "accumulate", "falsy-noop", "upper", "None", "empty", "keep"])
            if r.random() < 0.6:
                cfg["ondup"] = "absent"          # parser_kwargs alone
    if r.random() < 0.15:
        cfg["xml"] = True      # XML-flavoured builder (is_xml, the empty base table unless a map is given)
    if r.random() < 0.4:
        cfg["form"] = r.choice(OPTION_FORMS)       # option strings equal to, but not the same objects as, the constants
    if r.random() < 0.25:
        cfg["via"] = r.choice(BUILDER_VIAS)        # the builder went through pickle / copy / a pickled or copied soup
    return cfg


def gen_parse_case(r, dup=True):
    t, tags, attrs = table_names()
    name = r.choice(tags + ["p", "div", "span", "tr", "x-y", "b", "svg:a", "x:td", "svg:svg"])
    apool = attrs + ["id", "href", "title", "data-x", "style", "xlink:href", "xml:lang", "svg:class", "x:rel"]
    n = r.randint(1, 4)
    names = [r.choice(apool) for _ in range(n)]
    if dup and r.random() < 0.7:
        k = r.choice(names)
        for _ in range(r.randint(1, 3)):
            names.insert(r.randint(0, len(names)), k)
    al = []
    for k in names:
        x = r.random()
        if x < 0.1:
            v = None
        elif x < 0.2:
            v = ""
        else:
            v = gen_ws_string(r)
        al.append([k, v])
    cfg = gen_cfg(r)
    return {"kind": "parse", "cfg": cfg, "name": name, "attrs": al, "markup": markup_for(name, al)}


def gen_malformed_case(r):
    """start tags in untidy syntax: mixed-case names (the tokenizer lower-cases them, which can create duplicates),
    single-quoted / unquoted / valueless attributes, character references standing for whitespace, missing blanks,
    self-closing slash. The model and the oracle start from whatever list the tokenizer delivers."""
    t, tags, attrs = table_names()
    name = r.choice(tags + ["p", "div", "br", "input", "x-y"])
    if r.random() < 0.4:
        name = r.choice([name.upper(), name.title()])
    apool = attrs + ["id", "href", "title", "data-x"]
    out = "<" + name
    n = r.randint(1, 5)
    prev = None
    for i in range(n):
        k = prev if (prev and r.random() < 0.35) else r.choice(apool)
        prev = k
        if r.random() < 0.35:
            k = r.choice([k.upper(), k.title()])
        style = r.choice(["dq", "dq", "sq", "bare", "none", "entity", "empty"])
        v = gen_ws_string(r, exotic=r.random() < 0.5)
        if style == "dq":
            a = f'{k}="{v}"'
        elif style == "sq":
            a = f"{k}='{v}'"
        elif style == "bare":
            a = f"{k}=" + (v.split() or ["v"])[0]
        elif style == "none":
            a = k
        elif style == "empty":
            a = f'{k}=""'
        else:
            ent = r.choice(["&#32;", "&nbsp;", "&#x9;", "&#10;", "&#160;", "&#x200b;", "&ensp;", "&amp;"])
            a = f'{k}="' + ent.join(v.split() or ["a", "b"]) + '"'
        out += r.choice([" ", " ", " ", "\n", "\t ", "" if (i and style in ("dq", "sq")) else " ", " / "]) + a
    out += r.choice([">", ">", " >", "/>", " />"])
    return {"kind": "parse", "cfg": gen_cfg(r), "name": name.lower(), "attrs": [], "markup": out}


def gen_tag_case(r):
    t, tags, attrs = table_names()
    mode = r.choice(["nb", "nb", "copy", "b", "b"])
    name = r.choice([v for tg in tags for v in case_variants(tg)] + ["p", "DIV", "span"])
    apool = attrs + ["id", "k", "j", "href"]
    pre = None
    if r.random() < 0.7:
        ks = r.sample(apool, r.randint(0, 3))
        pre = [[k, pick_value(r)] for k in ks]
    sets = [[list(r.choice(KEYS + [("p", a) for a in apool[:4]])), pick_value(r)] for _ in range(r.randint(0, 3))]
    if mode == "b":
        cfg = gen_cfg(r, allow_ondup=False)
        dcls = cfg["dcls"]
        acls = "plain" if dcls == "absent" else dcls
        c = {"kind": "tag", "cfg": cfg, "isxml": False, "name": name, "attrs": pre, "acls": acls, "sets": sets}
        if r.random() < 0.35:
            kws = r.sample(["id", "k", "class", "rel", "headers", "title"], r.randint(1, 3))
            c["kw"] = [[k, pick_value(r) if r.random() < 0.5 else ["s", gen_ws_string(r, exotic=False)]] for k in kws]
        if r.random() < 0.3:
            c["nsprefix"] = r.choice(["svg", "x"])       # the prefix is not part of tag.name: the table lookup ignores it
        if pre is not None and r.random() < 0.4:
            # NamespacedAttribute keys, as an XML builder would deliver them
            nk = r.choice([["q", "xlink", "href"], ["q", None, "class"], ["q", "svg", "class"], ["q", "", "rel"], ["q", "xml", "lang"]])
            if key_str(nk) not in [key_str(k) for k, _ in pre]:
                pre.append([nk, ["s", gen_ws_string(r, exotic=False)]])      # string values, as a parser delivers them
        return c
    c = {"kind": "tag", "cfg": None, "isxml": r.random() < 0.4, "name": name, "attrs": pre,
         "acls": r.choice(["plain", "plain", "html", "xml"]), "sets": sets}
    if mode == "copy":
        c["via"] = "copy"
        if pre is None:
            c["attrs"] = []
    return c


# --------------------------------------------------------------------------------------
# running
# --------------------------------------------------------------------------------------

# --------------------------------------------------------------------------------------
# histories: several tags with the same raw values under one builder, lists changed in place
# --------------------------------------------------------------------------------------

LIST_OPS = ["append", "remove", "clear", "sort", "iadd", "reverse", "pop", "insert0"]


def doc_markup(tags):
    """tags = [[name, [[k, v], ...]], ...] -> a flat document, one element per entry"""
    void = {"link", "area", "br", "input", "img", "hr", "meta"}
    out = ""
    for i, (name, attrs) in enumerate(tags):
        out += markup_for(name, attrs)
        if name not in void:
            out += f"t{i}</{name}>"
    return out


def _otag_canon(t) -> str:
    return f"{tok(t['name'])} ok {t['cls']} {t['lcls']} x{t['x']} {enc_items(t['attrs'])} R {oracle_render(t['attrs'])}"


def _copy_val(v):
    return v.__class__(v) if isinstance(v, list) else v


def apply_list_op(lst, op, arg):
    """the in-place operation, on a Python list (used on the real list and on the oracle's own list alike)"""
    if op == "append":
        lst.append(arg)
    elif op == "remove":
        lst.remove(arg)
    elif op == "clear":
        lst.clear()
    elif op == "sort":
        lst.sort()
    elif op == "iadd":
        lst += list(arg)
    elif op == "reverse":
        lst.reverse()
    elif op == "pop":
        lst.pop()
    elif op == "insert0":
        lst.insert(0, arg)
    else:
        raise ValueError(op)


def simulate_history(case):
    """The property statement over a history, in plain Python: every attribute owns a fresh list of its own tokens;
    an in-place change touches that list only.  Returns (valid flags per step, canonical state after each step,
    model steps)."""
    cfg = case["cfg"]
    table = live_table(cfg)
    dcls = cfg.get("dcls", "absent")
    dcls = "plain" if dcls == "absent" else dcls
    lcls = cfg.get("lcls", 0) or 1
    bx = 1 if cfg.get("xml") else 0
    _, lc = _classes()
    tags, valid, states, msteps = [], [], [], []
    for st in case["steps"]:
        ok = True
        if st[0] == "doc":
            for name, attrs in st[1]:
                d = {}
                for k, v in attrs:
                    d[k] = "" if v is None else v          # replace policy: last value, first position
                oracle_multi(table, name, d, lcls)
                tags.append({"name": name, "cls": dcls, "lcls": lcls, "x": bx, "attrs": d})
                raw = "&".join(f"{tok(k)}={'~' if v is None else tok(v)}" for k, v in attrs) or "-"
                msteps.append(f"P!{tok(name)}!{raw}")
        elif st[0] == "new":
            name, attrs = st[1], st[2]
            d = {k: v for k, v in attrs}
            oracle_multi(table, name, d, lcls)
            tags.append({"name": name, "cls": dcls, "lcls": lcls, "x": bx, "attrs": d})
            items = "&".join(f"{tok(k)}={enc_val(v)}" for k, v in attrs) or "-"
            msteps.append(f"N!{tok(name)}!{items}")
        elif st[0] == "copy":
            i = st[1]
            if i >= len(tags):
                ok = False
            else:
                d = {}
                ccls = tags[i]["cls"]      # a copy holds the same kind of dictionary as the original
                for k, v in tags[i]["attrs"].items():
                    oracle_store(ccls, d, k, _copy_val(v))
                tags.append({"name": tags[i]["name"], "cls": ccls, "lcls": 1, "x": tags[i]["x"], "attrs": d})
                msteps.append(f"C!{i}")
        elif st[0] == "mut":
            _, i, key, op, arg = st
            v = tags[i]["attrs"].get(key) if i < len(tags) else None
            if not isinstance(v, list) or (op == "remove" and arg not in v) or (op == "pop" and not v):
                ok = False
            else:
                apply_list_op(v, op, arg)
                a = "_" if op in ("clear", "sort", "reverse", "pop") else ("/".join(tok(x) for x in arg) or "_") if op == "iadd" else tok(arg)
                msteps.append(f"M!{i}!{tok(key)}!{op}!{a}")
        elif st[0] == "set":
            _, i, kd, vd = st
            if i >= len(tags):
                ok = False
            else:
                oracle_store(tags[i]["cls"], tags[i]["attrs"], mk_key(kd), mk(vd))
                msteps.append(f"S!{i}!{enc_key(kd)}={enc_val(mk(vd))}")
        elif st[0] == "del":
            _, i, key = st
            if i >= len(tags):
                ok = False
            else:
                tags[i]["attrs"].pop(key, None)          # deleting a missing attribute is not an error
                msteps.append(f"D!{i}!{tok(key)}")
        elif st[0] == "ctor":
            _, i, isx = st
            if i >= len(tags):
                ok = False
            else:
                # Tag(name=…, attrs=other.attrs, is_xml=…): a builder-less tag, HTML/XML container by is_xml, the values
                # assigned through it, lists in new lists
                ccls = "xml" if isx else "html"
                d = {}
                for k, v in tags[i]["attrs"].items():
                    oracle_store(ccls, d, k, _copy_val(v))
                tags.append({"name": tags[i]["name"], "cls": ccls, "lcls": 1, "x": 1 if isx else 0, "attrs": d})
                msteps.append(f"T!{i}!{1 if isx else 0}")
        valid.append(ok)
        states.append([_otag_canon(t) for t in tags])
    return valid, states, msteps, tags


def history_line(case) -> str:
    msteps = simulate_history(case)[2]
    m, d, l = cfg_model(case["cfg"])
    return f"c17 hist {m} {d} {l} " + ("|".join(msteps) or "-")


def exec_history(case):
    """the same history on the real code, with the checks a history needs: state after every step against the oracle,
    other attributes against a snapshot taken before each in-place change, no list object shared, search results"""
    from bs4 import BeautifulSoup
    from bs4.builder._htmlparser import HTMLParserTreeBuilder
    cfg = case["cfg"]
    kw = builder_kwargs(cfg)
    valid, states = simulate_history(case)[:2]
    shared = make_builder(cfg) if case["reuse"] else None
    install_spy()
    soups, tags, owner, extra = [], [], [], []

    def real_state():
        return [f"{tok(t.name)} " + show_tag(t) for t in tags]

    def aliasing():
        seen = {}
        for j, t in enumerate(tags):
            for k, v in t.attrs.items():
                if isinstance(v, list):
                    if id(v) in seen:
                        return (seen[id(v)], (j, str(k)))
                    seen[id(v)] = (j, str(k))
        return None

    for n, (st, ok) in enumerate(zip(case["steps"], valid)):
        if not ok:
            continue
        if st[0] == "doc":
            _spy_log.clear()
            soup = make_soup(doc_markup(st[1]), cfg, shared)
            found = soup.find_all(True)
            want = [(nm, [(k, v) for k, v in al]) for nm, al in st[1]]
            if [(a, list(b)) for a, b in _spy_log] != want or len(found) != len(want):
                case["_skip"] = True         # the tokenizer read the markup differently: not a history we can speak about
                return "skip", []
            for t in found:
                tags.append(t)
                owner.append(len(soups))
            soups.append(soup)
        elif st[0] == "new":
            tags.append(soups[-1].new_tag(st[1], attrs={k: v for k, v in st[2]}))
            owner.append(None)
        elif st[0] == "copy":
            tags.append(copy.copy(tags[st[1]]))
            owner.append(None)
        elif st[0] == "ctor":
            from bs4.element import Tag
            tags.append(Tag(name=tags[st[1]].name, attrs=tags[st[1]].attrs, is_xml=bool(st[2])))
            owner.append(None)
        elif st[0] == "mut":
            _, i, key, op, arg = st
            before = real_state()
            lst = tags[i].attrs.get(key)
            if not isinstance(lst, list):
                extra.append(("a multi-valued attribute does not hold a list when it is changed in place",
                              f"step {n}: tag {i}[{key!r}] is a list", repr(lst)))
                break
            try:
                if op == "iadd":
                    tags[i][key] += list(arg)
                else:
                    apply_list_op(lst, op, arg)
            except (ValueError, IndexError) as ex:
                extra.append(("an in-place list operation that is valid on the attribute's documented tokens raised",
                              f"step {n}: tag {i}[{key!r}].{op}({arg!r}) applies to {states[n - 1][i] if n else '?'}",
                              f"raised {type(ex).__name__}: {ex}; the tag holds {before[i]}"))
                break
            after = real_state()
            for j, (b, a) in enumerate(zip(before, after)):
                if j != i and a != b:
                    extra.append(("an in-place change of one attribute's list changed another tag that was never assigned to",
                                  f"step {n} ({op} on tag {i}[{key!r}]) leaves tag {j} as it was: {b}", f"tag {j} is now: {a}"))
                    break
        elif st[0] == "set":
            _, i, kd, vd = st
            tags[i][mk_key(kd)] = mk(vd)
        elif st[0] == "del":
            before = real_state()
            del tags[st[1]][st[2]]
            after = real_state()
            for j, (b, a) in enumerate(zip(before, after)):
                if j != st[1] and a != b:
                    extra.append(("deleting one tag's attribute changed another tag", f"step {n}: tag {j} stays {b}", f"tag {j} is now {a}"))
                    break
            if tags[st[1]].has_attr(st[2]):
                extra.append(("del tag[key] leaves the attribute in place", f"step {n}: no {st[2]!r}", "has_attr is still true"))
        al = aliasing()
        if al and not any("share one list object" in e[0] for e in extra):
            extra.append(("two attributes share one list object (each attribute must own the list of its own tokens)",
                          "distinct list objects", f"after step {n}: (tag, attribute) {al[0]} `is` {al[1]}"))
        got = real_state()
        if got != states[n] and not any(e[0].startswith("a tag's attributes differ") for e in extra):
            k = next((j for j, (a, b) in enumerate(zip(got, states[n])) if a != b), min(len(got), len(states[n])))
            extra.append(("a tag's attributes differ from the documented values in the course of a history",
                          f"after step {n} ({st[0]}), tag {k}: " + (states[n][k] if k < len(states[n]) else "<none>"),
                          f"tag {k}: " + (got[k] if k < len(got) else "<none>")))
    # search results: every tag of each tree is found by exactly its own tokens
    if not extra and valid:
        cur = {}
        fin = states[-1]
        for si, soup in enumerate(soups):
            mine = [j for j in range(len(tags)) if owner[j] == si]
            for key in ("class", "rel", "headers"):
                vals = [tags[j].attrs.get(key) for j in mine]
                if any(v is not None and not isinstance(v, (str, list)) for v in vals) or \
                        any(isinstance(v, list) and not all(isinstance(x, str) for x in v) for v in vals):
                    continue
                toks = sorted({x for v in vals if isinstance(v, list) for x in v if x and not any(c.isspace() for c in x)})[:6]
                for tk in toks + ["zz-absent"]:
                    want = [j for j in mine if _oracle_matches(case, fin, j, key, tk, cur)]
                    res = soup.find_all(True, attrs={key: tk})
                    gotj = [j for j in mine if any(tags[j] is x for x in res)]
                    if gotj != want:
                        extra.append(("search by attribute token does not find exactly the tags holding that token",
                                      f"find_all({key}={tk!r}) in document {si}: tags {want}", f"tags {gotj}"))
                        break
    return " ## ".join(real_state()) or "-", extra


def _oracle_matches(case, fin, j, key, tk, cache):
    """does the documented value of tag j's attribute match the token? (a list matches by any element or by its joined
    form, a string by equality)"""
    if "tags" not in cache:
        cache["tags"] = _final_oracle_tags(case)
    v = cache["tags"][j]["attrs"].get(key)
    if isinstance(v, list):
        return tk in v or " ".join(v) == tk
    return v == tk


def _final_oracle_tags(case):
    """the oracle's final tags as Python objects"""
    return simulate_history(case)[3]


def gen_history_case(r):
    t, tags, attrs = table_names()
    # a small pool of raw values, so that identical source strings meet often
    pool = []
    for _ in range(r.randint(1, 3)):
        s = gen_ws_string(r, exotic=r.random() < 0.4)
        pool.append(s if s.split() else "note\tbig")
    if r.random() < 0.2:
        pool.append(r.choice(["", " ", "one"]))
    pairs = [("p", "class"), ("div", "class"), ("a", "rel"), ("a", "class"), ("link", "rel"), ("td", "headers"),
             ("th", "headers"), ("span", "accesskey"), ("td", "class"), ("p", "id"), ("a", "href"), ("p", "title")]
    mva = r.choice(["default"] * 6 + [None, [("*", ["id", "class"])], [("p", ["class", "title"]), ("a", ["href"])]])
    cfg = {"mva": mva, "dcls": r.choice(["absent", "absent", "plain", "html", "xml"]), "lcls": r.choice([0, 0, 1, 2])}
    if r.random() < 0.2:
        cfg["xml"] = True          # XML-flavoured builder: is_xml, no table of its own (mva "default" = the empty base table)
        cfg["mva"] = r.choice(["default", [("*", ["class"])], [("p", ["class", "title"]), ("a", ["rel"])]])
    if r.random() < 0.25:
        cfg["via"] = r.choice(BUILDER_VIAS)        # the (shared or per-document) builder after a pickle / copy round trip
        cfg["form"] = r.choice(OPTION_FORMS)

    def a_tag():
        name, key = r.choice(pairs)
        al = [[key, r.choice(pool)]]
        if r.random() < 0.4:
            k2 = r.choice(["class", "rel", "id", "title", "headers"])
            if k2 != key:
                al.append([k2, r.choice(pool)])
        return [name, al]

    def a_doc():
        return ["doc", [a_tag() for _ in range(r.randint(2, 4))]]

    steps = [a_doc()]
    tagkeys = [[k for k, _ in al] for _, al in steps[0][1]]      # the attributes each tag carries (targets of changes)
    for _ in range(r.randint(3, 9)):
        x = r.random()
        if x < 0.5:
            i = r.randrange(len(tagkeys))
            key = r.choice(tagkeys[i]) if r.random() < 0.85 else r.choice(["class", "rel", "headers", "accesskey", "id", "title"])
            op = r.choice(LIST_OPS)
            arg = None
            if op in ("append", "insert0"):
                arg = r.choice(["seen", "x", "a", "big"])
            elif op == "remove":
                arg = r.choice([w for s in pool for w in s.split()] * 3 + ["seen", "x"])
            elif op == "iadd":
                arg = [r.choice(["u", "v", "a"]) for _ in range(r.randint(0, 2))]
            steps.append(["mut", i, key, op, arg])
        elif x < 0.7:
            d = a_doc()
            steps.append(d)
            tagkeys += [[k for k, _ in al] for _, al in d[1]]
        elif x < 0.8:
            name, key = r.choice(pairs)
            steps.append(["new", name, [[key, r.choice(pool)]]])
            tagkeys.append([key])
        elif x < 0.9:
            i = r.randrange(len(tagkeys))
            steps.append(["copy", i] if r.random() < 0.6 else ["ctor", i, r.random() < 0.3])
            tagkeys.append(list(tagkeys[i]))
        elif x < 0.95:
            i = r.randrange(len(tagkeys))
            steps.append(["del", i, r.choice(tagkeys[i] + ["class", "nope"])])
        else:
            vd = r.choice([["s", r.choice(pool)], ["l", 0, ["q", "r"]], ["b", True], ["n"], ["i", "0"], ["i", "7"], ["l", 1, []]])
            i = r.randrange(len(tagkeys))
            k = r.choice(["class", "rel", "id"])
            steps.append(["set", i, ["p", k], vd])
            if k not in tagkeys[i]:
                tagkeys[i].append(k)
    return {"kind": "history", "cfg": cfg, "reuse": r.random() < 0.6, "steps": steps}


def directed_history_cases():
    """the shapes named in the property's history reading, for every in-place operation"""
    out = []
    for reuse in (True, False):
        for dcls in ("absent", "html"):
            for op, arg in (("append", "seen"), ("remove", "note"), ("clear", None), ("sort", None), ("iadd", ["u"]),
                            ("reverse", None), ("pop", None), ("insert0", "x")):
                cfg = {"mva": "default", "dcls": dcls, "lcls": 0}
                steps = [["doc", [["p", [["class", "note\tbig"]]], ["p", [["class", "note\tbig"]]], ["a", [["rel", "note\tbig"]]]]],
                         ["mut", 0, "class", op, arg],
                         ["new", "span", [["class", "note\tbig"]]],
                         ["doc", [["td", [["headers", "note\tbig"]]], ["p", [["class", "note\tbig"]]]]],
                         ["copy", 1],
                         ["mut", 6, "class", op, arg],
                         ["mut", 3, "class", "append", "late"],
                         ["doc", [["th", [["headers", "note\tbig"]]]]]]
                out.append({"kind": "history", "cfg": cfg, "reuse": reuse, "steps": steps})
    return out


# --------------------------------------------------------------------------------------
# output of the attribute part of a tag; reading and deleting attributes
# --------------------------------------------------------------------------------------

FORMATTERS = ["id0", "id1", "None", "minimal", "html", "html5", "html5-4.12", "unsorted", "reversed", "skipid"]
CUSTOM_FORMATTERS = ("unsorted", "reversed", "skipid")


def _tag_holding(case):
    """a builder-less tag whose dictionary holds exactly the given (key, value) pairs (stored without coercion)"""
    from bs4.element import Tag
    dc, lc = _classes()
    t = Tag(name=case.get("name", "a"), is_xml=bool(case.get("isxml")))
    d = dc[case.get("acls", "plain")]()
    for k, vd in case["items"]:
        dict.__setitem__(d, key_obj(k), mk(vd))
    t.attrs = d
    if case.get("lcls"):
        t.attribute_value_list_class = lc[case["lcls"]]
    return t


def _formatter_for(case, tag):
    from bs4.formatter import HTMLFormatter
    f = case["fmt"]
    if f in CUSTOM_FORMATTERS:
        return custom_formatter(f)
    if f in ("id0", "id1"):
        return HTMLFormatter(entity_substitution=None, empty_attributes_are_booleans=(f == "id1"))
    return tag.formatter_for_name(None if f == "None" else f)


def _attr_string_of(out, name):
    """the text between `<name` and the end of the start tag of an element without contents"""
    assert out.startswith("<" + name), out
    body = out[len(name) + 1:]
    for tail in (f"></{name}>", "/>", ">"):
        if body.endswith(tail):
            return body[:-len(tail)]
    return body


def exec_format(case):
    tag = _tag_holding(case)
    fm = _formatter_for(case, tag)
    try:
        out = tag.decode(formatter=fm)
    except ValueError:
        return "valueError", []
    return "ok " + tok(_attr_string_of(out, tag.name)), []


def oracle_format(case):
    """the documented attribute string, written independently: attributes in key order, None (and "" for a formatter
    with empty_attributes_are_booleans) as the bare key, lists joined by single spaces, other values by str(); double
    quotes unless the text has a double quote and no single quote; with both, the double quotes as &quot;"""
    tag = _tag_holding(case)
    eb = _formatter_for(case, tag).empty_attributes_are_booleans
    parts = []
    try:
        pairs = custom_selection(case["fmt"], tag.attrs.items()) if case["fmt"] in CUSTOM_FORMATTERS else \
            sorted(tag.attrs.items(), key=lambda kv: str(kv[0]))
        for k, v in pairs:
            if v is None or (eb and isinstance(v, str) and v == ""):
                parts.append(str(k))
                continue
            text = " ".join(v) if isinstance(v, (list, tuple)) else v if isinstance(v, str) else str(v)
            if '"' in text and "'" in text:
                q = '"' + text.replace('"', "&quot;") + '"'
            elif '"' in text:
                q = "'" + text + "'"
            else:
                q = '"' + text + '"'
            parts.append(f"{k}={q}")
    except ValueError:
        return "valueError"
    return "ok " + tok("".join(" " + p for p in parts))


def format_line(case):
    tag = _tag_holding(case)
    eb = _formatter_for(case, tag).empty_attributes_are_booleans     # the registry flag is generated into Lean too
    if case["fmt"] in CUSTOM_FORMATTERS:
        sel = custom_selection(case["fmt"], [(key_str(k), vd) for k, vd in case["items"]])
        return "c17 fmtsel " + ("&".join(f"{tok(k)}={enc_val(mk(vd))}" for k, vd in sel) or "-")
    items = "&".join(f"{tok(key_str(k))}={enc_val(mk(vd))}" for k, vd in case["items"]) or "-"
    return f"c17 fmt {1 if eb else 0} {items}"


def canon_format_reply(rep):
    """the model writes str() of an opaque object as one private-use code point"""
    if not rep.startswith("ok "):
        return rep
    cpsl = [] if rep[3:] == "-" else rep[3:].split(",")
    out = []
    for c in cpsl:
        n = int(c)
        if 0xE000 <= n < 0xE000 + len(OTHERS):
            out += [str(ord(ch)) for ch in str(OTHERS[n - 0xE000][1])]
        else:
            out.append(c)
    return "ok " + (",".join(out) if out else "-")


FMT_SAFE_STRS = ["", "x", "a b", " a  b ", "0", "it's", 'say "hi"', "both \" and '", "'", '"', "q'\"'q"]
FMT_KEYS = ["id", "class", "Z", "a", "href", "data-x", "xml:lang", "é", "ab", "aB", "_x", ["q", "xlink", "href"],
            ["q", "xmlns", None], ["q", None, "class"], "10", "9"]


def gen_format_case(r):
    ks = r.sample(FMT_KEYS, r.randint(0, 5))
    seen, items = set(), []
    for k in ks:
        if key_str(k) in seen:
            continue
        seen.add(key_str(k))
        x = r.random()
        if x < 0.45:
            vd = ["s", r.choice(FMT_SAFE_STRS)]
        elif x < 0.7:
            vd = ["l", r.choice([0, 1, 2]), [r.choice(["a", "b", "it's", 'q"', "", "x y"]) for _ in range(r.randint(0, 3))]]
        else:
            vd = list(r.choice(LIGHT_GRID))
        items.append([k, vd])
    fmt = r.choice(FORMATTERS)
    return {"kind": "format", "fmt": fmt, "isxml": fmt in ("minimal", "html", "None") and r.random() < 0.3,
            "name": r.choice(["a", "p", "x-y"]), "items": items}


def exec_access(case):
    tag = _tag_holding(case)

    def probe(k):
        try:
            gi = enc_val(tag[k])
        except KeyError:
            gi = "KeyError"
        def al(v):
            if not isinstance(v, list):
                return "notalist:" + repr(v)
            c = 0 if type(v) is list else lcls_id(type(v))
            if all(isinstance(x, str) for x in v):
                return f"l:{c}:" + "/".join(tok(x) for x in v)
            return f"L:{c}:" + enc_val(v[0])
        return (f"{tok(k)} h{1 if tag.has_attr(k) else 0} g={enc_val(tag.get(k))} gd={enc_val(tag.get(k, 'd'))} "
                f"a={al(tag.get_attribute_list(k))} ad={al(tag.get_attribute_list(k, ['d']))} i={gi}")

    first = " | ".join(probe(k) for k in case["probes"])
    for k in case["dels"]:
        del tag[k]
    return first + " || " + enc_items(tag.attrs) + " || " + " | ".join(probe(k) for k in case["probes"]), []


def oracle_access(case):
    """the documented meaning of has_attr / get / get_attribute_list / tag[key] / del over an ordinary dict"""
    d = {key_str(k): mk(vd) for k, vd in case["items"]}
    lcls = case.get("lcls") or 1

    def probe(k):
        def al(v):
            if v is None:
                return f"l:{lcls}:"
            if isinstance(v, list):
                c = 0 if type(v) is list else lcls_id(type(v))
                return f"l:{c}:" + "/".join(tok(x) for x in v)
            if isinstance(v, str):
                return f"l:{lcls}:{tok(v)}"
            return f"L:{lcls}:{enc_val(v)}"
        has = k in d
        return (f"{tok(k)} h{1 if has else 0} g={enc_val(d.get(k))} gd={enc_val(d.get(k, 'd'))} "
                f"a={al(d.get(k))} ad={al(d.get(k, ['d']))} i={enc_val(d[k]) if has else 'KeyError'}")

    first = " | ".join(probe(k) for k in case["probes"])
    for k in case["dels"]:
        d.pop(k, None)
    return first + " || " + enc_items(d) + " || " + " | ".join(probe(k) for k in case["probes"])


def access_line(case):
    items = "&".join(f"{tok(key_str(k))}={enc_val(mk(vd))}" for k, vd in case["items"]) or "-"
    pr = ";".join(tok(k) for k in case["probes"]) or "-"
    dl = ";".join(tok(k) for k in case["dels"]) or "-"
    return f"c17 acc {case.get('acls', 'plain')} {case.get('lcls') or 1} {items} {pr} {dl}"


def gen_access_case(r):
    ks = r.sample(["id", "class", "rel", "k", "xml:lang", ["q", "xlink", "href"], ["q", None, "class"], "x"], r.randint(0, 4))
    seen, items = set(), []
    for k in ks:
        if key_str(k) in seen:
            continue
        seen.add(key_str(k))
        items.append([k, pick_value(r) if r.random() < 0.6 else ["l", r.choice([0, 1, 2]), [r.choice(["a", "b", ""]) for _ in range(r.randint(0, 3))]]])
    pool = [key_str(k) for k, _ in items] + ["missing", "class", "id"]
    probes = []
    for _ in range(r.randint(1, 4)):
        k = r.choice(pool)
        if k not in probes:
            probes.append(k)
    return {"kind": "access", "acls": r.choice(["plain", "html", "xml"]), "lcls": r.choice([0, 1, 2]), "items": items,
            "probes": probes, "dels": [r.choice(pool) for _ in range(r.randint(0, 2))]}


# --------------------------------------------------------------------------------------
# one caller-owned parser_kwargs dictionary handed to several builders
# --------------------------------------------------------------------------------------

VALID_POLICIES = ["replace", "ignore", "None", "accumulate", "noop", "drop", "upper", "falsy-accumulate", "falsy-noop",
                  "partial-upper", "method-drop"]


def _pk_entry(case):
    return {} if case["pk"] == "empty" else {"on_duplicate_attribute": ONDUP[case["pk"]]}


def exec_pkshare(case):
    """every builder gets the SAME dictionary object as parser_kwargs (and its own keyword); each then parses the
    document. The caller's dictionary must come back from every constructor exactly as it went in."""
    from bs4 import BeautifulSoup
    from bs4.builder._htmlparser import HTMLParserTreeBuilder
    cfg = case["cfg"]
    pk = _pk_entry(case)
    before = dict(pk)
    extra, outs = [], []
    install_spy()
    for n, kwp in enumerate(case["kws"]):
        kw = builder_kwargs(cfg)
        if kwp != "absent":
            kw["on_duplicate_attribute"] = ONDUP[kwp]
        _spy_log.clear()
        try:
            with warnings.catch_warnings():
                warnings.simplefilter("ignore")
                if case["route"] == "builder":
                    cls = xmlish_builder_class() if cfg.get("xml") else HTMLParserTreeBuilder
                    b = cls(parser_kwargs=pk, **kw)
                    changed = dict(pk) != before
                    soup = BeautifulSoup(case["markup"], builder=b)
                else:
                    soup = BeautifulSoup(case["markup"], "html.parser", parser_kwargs=pk, **kw)
                    changed = dict(pk) != before
            outs.append(show_tag(soup.find(True)))
        except TypeError:
            changed = dict(pk) != before
            outs.append("raised TypeError")
        if changed and not extra:
            extra.append(("the constructor changed the caller's parser_kwargs dictionary",
                          f"after builder {n} (keyword {kwp}): {sorted(before)}", f"{sorted(pk)}"))
    if _spy_log:
        case["_seen"] = _spy_log[0]
    return " ## ".join(outs), extra


def oracle_pkshare(case):
    """each builder's configuration is what ITS arguments say: its keyword if passed, else the dictionary's entry as the
    caller wrote it"""
    outs = []
    for kwp in case["kws"]:
        c = {"kind": "parse", "cfg": dict(case["cfg"], ondup=kwp, pk=case["pk"]), "name": case["name"], "attrs": case["attrs"]}
        outs.append(oracle(c))
    return " ## ".join(outs)


def pkshare_line(case):
    m, d, l = cfg_model(case["cfg"])
    pkt = "-" if case["pk"] == "empty" else ONDUP_MODEL[case["pk"]]
    kws = ";".join("-" if k == "absent" else ONDUP_MODEL[k] for k in case["kws"])
    raw = "&".join(f"{tok(k)}={'~' if v is None else tok(v)}" for k, v in case["attrs"]) or "-"
    return f"c17 pkshare {m} {d} {l} {pkt} {kws} {tok(case['name'])} {raw}"


def gen_pkshare_case(r):
    base = gen_parse_case(r)
    cfg = {k: v for k, v in base["cfg"].items() if k in ("mva", "dcls", "lcls", "xml")}
    pols = VALID_POLICIES + ["keep"]
    # the feature-string route ("html.parser") always gives the HTML flavour: XML-flavoured cases use the builder route
    return {"kind": "pkshare", "cfg": cfg, "route": "builder" if cfg.get("xml") else r.choice(["builder", "soup"]),
            "pk": r.choice(["empty", "empty"] + pols), "kws": [r.choice(["absent", "absent"] + pols) for _ in range(r.randint(2, 3))],
            "name": base["name"], "attrs": base["attrs"], "markup": base["markup"]}


def zero_defect_class(case, observed, expected):
    """Does this failing case fall into the class `a number equal to False assigned through HTMLAttributeDict`?
    (Only used to word the report; the defect is marked "fix", not a known finding, so nothing is suppressed.)"""
    def zeroish(vd):
        try:
            v = mk(vd)
        except Exception:
            return False
        try:
            return v is not False and v is not None and not isinstance(v, (str, list)) and v == False  # noqa: E712
        except Exception:
            return False
    vals = [vd for _, vd in case.get("sets", [])] + [vd for _, vd in (case.get("attrs") or []) if case["kind"] == "tag"]
    return any(zeroish(vd) for vd in vals)


def known_finding_class(case, observed, expected):
    """Classifier for recorded findings (computed from the case itself). None are recorded for C17 at present."""
    return None


def nontrivial_key(case):
    k = case["kind"]
    if k == "split":
        return ("split", case["s"]) if any(c.isspace() for c in case["s"]) and case["s"].split() else None
    if k == "multi":
        return ("multi", json.dumps(case["cfg"]["mva"]), case["tag"], case["attr"])
    if k == "dict":
        return ("dict", case["cls"], json.dumps(case["sets"]))
    if k == "parse":
        return ("parse", json.dumps(case["cfg"]), case["markup"])
    if k == "pkshare":
        return ("pkshare", json.dumps(case, sort_keys=True, default=str))
    if k in ("format", "access"):
        return (k, json.dumps(case, sort_keys=True, default=str)) if case["items"] else None
    if k == "history":
        return ("history", json.dumps(case, sort_keys=True, default=str)) if any(st[0] == "mut" for st in case["steps"]) else None
    return ("tag", json.dumps(case, sort_keys=True, default=str))


NUMBERLIKE_OTHERS = {"0j", "1+2j", "dec0", "dec1.5", "frac0", "frac1/3"}


def numberlike_free(c, o):
    """complex / Decimal / Fraction are numbers of types the property's quantifier does not list (str, bool, int/float, None, list): whether
    a container keeps such an object or turns it into its str() like the int/float it resembles is free, per place where one is assigned
    (a constructor's attrs and a later item assignment go through different code). True iff `o` is what the documented rule gives once
    SOME occurrences of such values in the case are replaced by their str() (free-behaviour round: Decimal/Fraction coerced like
    int/float by the containers' __setitem__, complex kept)."""
    import copy as _copy, itertools as _it
    base = {k: v for k, v in c.items() if not k.startswith("_")}

    def occurrences(x, acc):
        if isinstance(x, list):
            if len(x) == 2 and x[0] == "o" and x[1] in NUMBERLIKE_OTHERS:
                acc.append(x)
            else:
                for y in x:
                    occurrences(y, acc)
        elif isinstance(x, dict):
            for y in x.values():
                occurrences(y, acc)
        return acc
    n = len(occurrences(base, []))
    if n == 0:
        return False
    if c.get("kind") == "tag" or n > 8:
        # on a Tag the value also passes the multi-valued split, which looks at str values only: a coerced Decimal under `class`/`headers`
        # is a plain "0", not the token list ["0"] - no single documented rule covers an input the quantifier does not list. Cases holding
        # such an object are compared on the unchanged tree (model = implementation) and otherwise left free.
        return True
    for mask in range(1, 2 ** n):
        c2 = _copy.deepcopy(base)
        occ = occurrences(c2, [])
        for i, x in enumerate(occ):
            if mask >> i & 1:
                x[:] = ["s", str(OTHERS[OTHER_ID[x[1]]][1])]
        try:
            if oracle(c2) == o:
                return True
        except Exception:
            pass
    return False


def check_cases(ctx: Ctx, stream: str, cases: list):
    """real vs oracle vs model for a batch of cases"""
    obs, exts = [], []
    for c in cases:
        try:
            o, e = execute(c)
        except Exception as ex:      # an exception the property does not provide for is an observation, not a harness error
            o, e = f"raised {type(ex).__name__}", []
            c["_exc"] = str(ex)[:120]
            if c["kind"] == "parse" and _spy_log:
                c["_seen"] = _spy_log[0]
        obs.append(o)
        exts.append(e)
    # the model starts from what the tokenizer delivered
    kept = []
    for c, o, e in zip(cases, obs, exts):
        c.pop("_human", None)
        c.pop("_exc", None)
        if c.pop("_skip", False):
            ctx.count(f"{stream}:skipped-tokenizer-read-other-markup")
            continue
        if c["kind"] in ("parse", "pkshare"):
            seen = c.pop("_seen", None)
            if seen is None:
                ctx.count(f"{stream}:no-start-tag-delivered")      # nothing for the property to speak about
                continue
            sname, sattrs = seen[0], [[k, v] for k, v in seen[1]]
            if sname != c["name"] or sattrs != [list(a) for a in c["attrs"]]:
                ctx.count(f"{stream}:tokenizer-delivered-other-list")
                c["name"], c["attrs"] = sname, sattrs
        kept.append((c, o, e))
    cases, obs, exts = [k[0] for k in kept], [k[1] for k in kept], [k[2] for k in kept]
    lines = [model_line(c) for c in cases]
    replies = Driver().ask(lines)
    for c, o, ex, line, rep in zip(cases, obs, exts, lines, replies):
        want = oracle(c)
        rep = canon_model(c, rep)
        ctx.case(nontrivial_key(c), sample={"case": c, "observed": o} if len(ctx.samples) < 12 and ctx.evaluations % 997 == 3 else None)
        if o != want and numberlike_free(c, o):
            ctx.count(f"{stream}:free:numberlike-object-coerced")
            continue
        if o != want:
            what = "attribute value differs from the documented rule"
            if zero_defect_class(c, o, want):
                what += " (a number equal to False assigned through HTMLAttributeDict is dropped)"
            ctx.violation(what, case=c | {"line": line}, expected=want, observed=o, model=rep, stream=stream,
                          kf=known_finding_class(c, o, want))
            ctx.count(f"{stream}:oracle-fail")
        elif o != rep:
            ctx.corr_disagreements += 1
            ctx.violation("model and implementation disagree (the direct oracle agrees with the implementation)",
                          case=c | {"line": line}, expected=want, observed=o, model=rep, stream=stream + "-correspondence",
                          no_failing_input=True)
        for what, w, g in ex:
            ctx.violation(what, case=c | {"line": line}, expected=w, observed=g, stream=stream + "-extra")
    ctx.count(f"{stream}:cases", len(cases))


def run(ctx: Ctx):
    ctx.rule = ("split: a string with at least one whitespace character and one token; multi: every (map, element, attribute) "
                "triple; dict/tag: every distinct assignment history; parse: every distinct (configuration, start tag)")
    ctx.assumptions = [
        "str(float) is the runtime's (carried in the value, not modelled); str(int) is modelled incl. sys.get_int_max_str_digits()",
        "str.lower() is modelled per code point from a generated table; element names with U+03A3 (final-sigma rule) are not generated",
        "html.parser's tokenizer is outside the property: the model starts from the (name, attrs) list handle_starttag received (recorded by a pass-through wrapper)",
        "list/tuple elements that are not str are not generated (the join in _format_tag would raise TypeError)",
        "dictionary keys are compared by their str value (NamespacedAttribute is a str subclass); which key object is retained is not observed",
    ]
    t, tags, attrs = table_names()

    # ---- 0. corpus of minimised past disagreements -----------------------------------------------------------------
    from .common import CORPUS
    cdir = CORPUS / "C17"
    if cdir.is_dir():
        cc = [json.load(open(f))["case"] for f in sorted(cdir.glob("*.json"))]
        check_cases(ctx, "corpus", cc)

    # ---- 1. split: exhaustive single separators, then generated patterns ------------------------------------------
    lim = 0x110000 if ctx.thorough else 0x3200
    cases = []
    for c in list(range(lim)) + [w for w in WS if w >= lim] + [x for x in LOOKALIKES if x >= lim]:
        cases.append({"kind": "split", "s": "a" + chr(c) + "b"})
    ctx.exhaustive_parts.append(f"split: 'a'+chr(c)+'b' for every code point c < {hex(lim)} and every whitespace/lookalike code point")
    for c in cases:
        ctx.count("split:sep-is-ws" if c["s"][1].isspace() else "split:sep-not-ws")
    check_cases(ctx, "split-exhaustive", cases)
    r = ctx.rng("split")
    cases = [{"kind": "split", "s": gen_ws_string(r)} for _ in range(ctx.n(10000, 100000))]
    cases += [{"kind": "split", "s": s} for s in ["", " ", "\t\n", "a", " a", "a ", "a  b", " ", "a b", "a​b", "\x1c\x1d\x1e\x1f", "a\x85b"]]
    for c in cases:
        ctx.count(f"split:tokens={min(len(c['s'].split()), 4)}")
    check_cases(ctx, "split-generated", cases)
    # the regex-engine reading of the model (findallNonWs, proved equal to splitWs) against the real findall
    reps = Driver().ask(["c17 findall " + tok(c["s"]) for c in cases])
    from bs4.element import nonwhitespace_re
    for c, rep in zip(cases, reps):
        got = nonwhitespace_re.findall(c["s"])
        want = "/".join(tok(t) for t in got) if got else "-"
        ctx.case(None)
        if rep != want:
            ctx.corr_disagreements += 1
            ctx.violation("model (findallNonWs) and implementation disagree", case=c, expected=oracle(c), observed=want, model=rep,
                          stream="findall-correspondence", no_failing_input=(want == oracle(c)))

    # ---- 2. which attributes are multi-valued: the grid in and around the table --------------------------------------
    cases = []
    tag_pool = sorted({v for tg in tags for v in case_variants(tg)} | {"p", "div", "DIV", "tr", "span", "", "*", "tD ", " td", "tıd",
                                                                        "STRASSE", "strasse", "Straße", "STRAẞE", "É", "é", "Ǆ", "ǅ"})
    attr_pool = sorted(set(attrs) | {a.upper() for a in attrs} | {"id", "href", "style", "", "*", "class ", "Class", "acceptcharset"})
    for mva in ["default", None] + CUSTOM_MAPS:
        cfg = {"mva": mva}
        extra_tags = [k for k, _ in mva] + [k.lower() for k, _ in mva] if isinstance(mva, list) else []
        extra_attrs = [a for _, s in mva for a in s] if isinstance(mva, list) else []
        for tg in sorted(set(tag_pool) | set(extra_tags)):
            for a in sorted(set(attr_pool) | set(extra_attrs)):
                cases.append({"kind": "multi", "cfg": cfg, "tag": tg, "attr": a})
    ctx.exhaustive_parts.append(f"multi: {len(cases)} (map, element, attribute) triples: every table entry, case variants, neighbours, x default/None/custom maps")
    check_cases(ctx, "multi-grid", cases)
    for c in cases:
        ctx.count("multi:" + ("covered" if oracle(c) == "1" else "not-covered"))

    # every entry of the live table and the documented entries, through a real parse (the statement's own examples)
    documented = [("p", "class"), ("div", "accesskey"), ("div", "dropzone"), ("a", "rel"), ("a", "rev"), ("link", "rel"),
                  ("link", "rev"), ("td", "headers"), ("th", "headers"), ("form", "accept-charset"), ("object", "archive"),
                  ("area", "rel"), ("icon", "sizes"), ("iframe", "sandbox"), ("output", "for")]
    live = [(("p" if k == "*" else k), a) for k, s in t.items() for a in s]
    from bs4 import BeautifulSoup
    for tg, a in sorted(set(documented + live)):
        soup = BeautifulSoup(f'<{tg} {a}=" x\ty\n z " id=" x\ty ">', "html.parser")
        tag = soup.find(True)
        ctx.case(("doc", tg, a))
        if tag.get(a) != ["x", "y", "z"] or tag.get("id") != " x\ty " or f'{a}="x y z"' not in tag.decode():
            ctx.violation("documented multi-valued attribute is not split into its tokens / joined by single spaces",
                          case={"kind": "documented-entry", "tag": tg, "attr": a}, expected=["x", "y", "z"],
                          observed=[tag.get(a), tag.get("id"), tag.decode()], stream="documented-entries")

    # ---- 3. the value-type grid through the containers -------------------------------------------------------------
    cases = []
    for cls in ("html", "xml", "plain"):
        for kd in KEYS:
            for vd in VALUE_GRID:
                cases.append({"kind": "dict", "cls": cls, "sets": [[list(kd), list(vd)]]})
                # onto an existing value with a neighbour before and after (position kept / removed)
                cases.append({"kind": "dict", "cls": cls, "sets": [[["p", "a"], ["s", "1"]], [list(kd), ["s", "old"]],
                                                                     [["p", "z"], ["s", "2"]], [list(kd), list(vd)]]})
    ctx.exhaustive_parts.append(f"dict: every key form x every grid value x 3 container classes, on an empty and on a populated dictionary ({len(cases)} cases)")
    r = ctx.rng("dict")
    for _ in range(ctx.n(5000, 40000)):
        cases.append({"kind": "dict", "cls": r.choice(["html", "xml", "plain"]), "sub": r.random() < 0.25,
                      "sets": [[list(r.choice(KEYS)), pick_value(r)] for _ in range(r.randint(2, 5))]})
    for c in cases:
        for _, vd in c["sets"]:
            ctx.count("dict:value:" + vd[0])
    check_cases(ctx, "dict-grid", cases)
    # documentation of the defect: when the tree under test still has the membership test `value in (False, None)`,
    # the Lean mirror of the unrepaired code (htmlSetOld, theorem old_membership_test_drops_zero) must describe it exactly
    dc, _ = _classes()
    probe = dc["html"]()
    probe["k"] = 0
    if "k" not in probe:
        hc = [c for c in cases if c["cls"] == "html"]
        lines = [model_line(c).replace("c17 dict html", "c17 dictold", 1) for c in hc]
        reps = Driver().ask(lines)
        agree = 0
        for c, rep in zip(hc, reps):
            try:
                o, _e = execute(c)
            except Exception as ex:
                o = f"raised {type(ex).__name__}"
            c.pop("_human", None)
            agree += (o == rep)
        ctx.notes.append(f"unrepaired HTMLAttributeDict detected (0 is dropped): the Lean mirror of the unrepaired test (htmlSetOld) "
                         f"agrees with the implementation on {agree}/{len(hc)} HTML container histories")
        ctx.count("dict:old-mirror-agrees", agree)
        ctx.count("dict:old-mirror-cases", len(hc))

    # ---- 4. Tag.__init__ / Tag.__setitem__ / new_tag / copy ---------------------------------------------------------
    cases = []
    for vd in VALUE_GRID:
        for isxml in (False, True):
            cases.append({"kind": "tag", "cfg": None, "isxml": isxml, "name": "a", "attrs": None, "acls": "plain",
                          "sets": [[["p", "k"], list(vd)]]})
            cases.append({"kind": "tag", "cfg": None, "isxml": isxml, "name": "a", "attrs": [["k", list(vd)], ["class", ["s", "x y"]]],
                          "acls": "plain", "sets": []})
            for acls in ("plain", "html", "xml"):
                cases.append({"kind": "tag", "cfg": None, "isxml": isxml, "name": "a", "attrs": [["k", list(vd)]],
                              "acls": acls, "sets": [], "via": "copy"})
        for dcls in ("absent", "plain", "html", "xml"):
            for mva in ("default", None):
                cfg = {"mva": mva, "dcls": dcls, "lcls": 0}
                acls = "plain" if dcls == "absent" else dcls
                cases.append({"kind": "tag", "cfg": cfg, "isxml": False, "name": "TD", "attrs": [["headers", list(vd)], ["k", list(vd)]],
                              "acls": acls, "sets": [[["p", "class"], list(vd)]]})
    ctx.exhaustive_parts.append(f"tag: every grid value through builder-less Tag (html/xml), copy, new_tag under 4 dict classes x default/None ({len(cases)} cases)")
    r = ctx.rng("tag")
    cases += [gen_tag_case(r) for _ in range(ctx.n(8000, 60000))]
    for c in cases:
        ctx.count("tag:" + ("builder" if c["cfg"] is not None else c.get("via", "builderless")))
    check_cases(ctx, "tag-grid", cases)

    # ---- 5. start tags through html.parser ---------------------------------------------------------------------------
    cases = []
    # every table entry x every whitespace code point x default/None
    for tg, a in live:
        for w in WS:
            for mva in ("default", None):
                v = "x" + chr(w) + "y"
                al = [[a, v]]
                cases.append({"kind": "parse", "cfg": {"mva": mva}, "name": tg, "attrs": al, "markup": markup_for(tg, al)})
    # duplicates: 2-4 repeats x every policy x dict classes
    for pol in ONDUP:
        for dcls in ("absent", "html", "xml"):
            for reps in (2, 3, 4):
                for a in ("class", "id"):
                    al = [["title", "t"]] + [[a, f"v{i} w{i}"] for i in range(reps)]
                    al.insert(2, ["href", None])
                    cfg = {"mva": "default", "dcls": dcls, "lcls": 0, "ondup": pol}
                    cases.append({"kind": "parse", "cfg": cfg, "name": "a", "attrs": al, "markup": markup_for("a", al)})
    for pol in ONDUP:
        for pk in [p for p in ONDUP if p != "absent"] + ["empty"]:
            for kwp in ("absent", pol):
                al = [["href", "first"], ["class", "a b"], ["href", None], ["href", "third"], ["class", "c"]]
                cfg = {"mva": "default", "dcls": "absent", "lcls": 0, "ondup": kwp, "pk": pk}
                cases.append({"kind": "parse", "cfg": cfg, "name": "a", "attrs": al, "markup": markup_for("a", al)})
    for pol in ONDUP:
        for form in OPTION_FORMS:
            for via in [None] + BUILDER_VIAS:
                for xml in (False, True):
                    al = [["class", "a b"], ["id", "1"], ["class", "c"], ["id", None], ["class", " d "]]
                    cfg = {"mva": "default", "dcls": "absent", "lcls": 0, "ondup": pol, "form": form}
                    if via:
                        cfg["via"] = via
                    if xml:
                        cfg["xml"] = True
                        cfg["mva"] = [["*", ["class"]]]
                    cases.append({"kind": "parse", "cfg": cfg, "name": "p", "attrs": al, "markup": markup_for("p", al)})
    ctx.exhaustive_parts.append(f"parse: every live table entry x every whitespace code point x default/None; 2-4 repeats x {len(ONDUP)} duplicate policies x 3 dict classes; "
                                f"{len(ONDUP)} policies x {len(OPTION_FORMS)} argument forms x {1 + len(BUILDER_VIAS)} builder round trips x HTML/XML flavour")
    r = ctx.rng("parse")
    cases += [gen_parse_case(r) for _ in range(ctx.n(12000, 100000))]
    for c in cases:
        ks = [k for k, _ in c["attrs"]]
        ctx.count("parse:dup" if len(set(ks)) < len(ks) else "parse:nodup")
        ctx.count("parse:ondup=" + c["cfg"].get("ondup", "absent"))
        ctx.count("parse:route=" + ("parser_kwargs" if "pk" in c["cfg"] and c["cfg"].get("ondup", "absent") == "absent" else
                                    "both" if "pk" in c["cfg"] else "keyword"))
        ctx.count("parse:mva=" + ("default" if c["cfg"]["mva"] == "default" else "none" if c["cfg"]["mva"] is None else "custom"))
        ctx.count("parse:dcls=" + c["cfg"].get("dcls", "absent"))
        ctx.count("parse:form=" + str(c["cfg"].get("form", "literal")))
        ctx.count("parse:via=" + str(c["cfg"].get("via", "direct")))
    check_cases(ctx, "parse", cases)
    r = ctx.rng("parse-malformed")
    cases = [gen_malformed_case(r) for _ in range(ctx.n(5000, 40000))]
    check_cases(ctx, "parse-malformed", cases)
    for c in cases:
        ks = [k for k, _ in c["attrs"]]
        ctx.count("parse-malformed:dup" if len(set(ks)) < len(ks) else "parse-malformed:nodup")
        ctx.count("parse-malformed:valueless" if any(v is None for _, v in c["attrs"]) else "parse-malformed:all-valued")

    # ---- 5a'. one caller-owned parser_kwargs dictionary handed to several builders in a row ------------------------
    cases = []
    al = [["href", "first"], ["class", "a b"], ["href", None], ["href", "third"], ["class", "c"]]
    for pk in ["empty"] + VALID_POLICIES:
        for k1 in ["absent"] + VALID_POLICIES:
            for k2 in ("absent", "ignore", "accumulate"):
                for route in ("builder", "soup"):
                    cases.append({"kind": "pkshare", "cfg": {"mva": "default", "dcls": "absent", "lcls": 0}, "route": route, "pk": pk,
                                  "kws": [k1, k2, "absent"], "name": "a", "attrs": al, "markup": markup_for("a", al)})
    ctx.exhaustive_parts.append(f"pkshare: {len(cases)} directed sequences (dictionary entry x first keyword x second keyword x route), third builder without keyword")
    r = ctx.rng("pkshare")
    cases += [gen_pkshare_case(r) for _ in range(ctx.n(2000, 12000))]
    for c in cases:
        ctx.count("pkshare:builders", len(c["kws"]))
    check_cases(ctx, "pkshare", cases)

    # ---- 5b. histories: identical raw values under one builder, lists changed in place ------------------------------
    r = ctx.rng("history")
    cases = directed_history_cases() + [gen_history_case(r) for _ in range(ctx.n(2000, 12000))]
    for c in cases:
        v = simulate_history(c)[0]
        ctx.count("history:reused-builder" if c["reuse"] else "history:fresh-builders")
        ctx.count("history:inplace-changes-applied", sum(1 for st, ok in zip(c["steps"], v) if ok and st[0] == "mut"))
        ctx.count("history:documents", sum(1 for st in c["steps"] if st[0] == "doc"))
        ctx.count("history:new_tag+copy+ctor", sum(1 for st, ok in zip(c["steps"], v) if ok and st[0] in ("new", "copy", "ctor")))
        ms = [n for n, (st, ok) in enumerate(zip(c["steps"], v)) if ok and st[0] == "mut"]
        if ms and any(st[0] == "doc" for st in c["steps"][ms[0] + 1:]):
            ctx.count("history:document-parsed-after-an-inplace-change")
    check_cases(ctx, "history", cases)

    # ---- 5c. the attribute part of the output, for every formatter; reading and deleting ----------------------------
    r = ctx.rng("format")
    cases = []
    for fmt in FORMATTERS:
        for vd in LIGHT_GRID + [["s", x] for x in FMT_SAFE_STRS] + [["l", 1, ["it's", 'q"']], ["l", 0, ["x y", ""]]]:
            cases.append({"kind": "format", "fmt": fmt, "isxml": False, "name": "a", "items": [["k", list(vd)], ["Z", ["s", ""]], ["b", ["n"]]]})
    ctx.exhaustive_parts.append(f"format: every grid value x every formatter ({len(cases)} cases)")
    cases += [gen_format_case(r) for _ in range(ctx.n(3000, 20000))]
    for c in cases:
        ctx.count("format:fmt=" + c["fmt"])
    check_cases(ctx, "format", cases)
    r = ctx.rng("access")
    cases = [gen_access_case(r) for _ in range(ctx.n(3000, 20000))]
    check_cases(ctx, "access", cases)

    # ---- 6. str.lower table: the model's per-code-point lower against the runtime ------------------------------------
    pts = [c for c in range(sys.maxunicode + 1) if not (0xD800 <= c <= 0xDFFF) and chr(c).lower() != chr(c)]
    r = ctx.rng("lower")
    pts += [r.randrange(0x110000) for _ in range(2000)]
    pts = [c for c in pts if not (0xD800 <= c <= 0xDFFF) and c != 0x3A3]
    lines = ["c17 lower " + tok("t" + chr(c) + "d") for c in pts]
    reps = Driver().ask(lines)
    for c, rep in zip(pts, reps):
        ctx.case(None)
        want = tok(("t" + chr(c) + "d").lower())
        if rep != want:
            ctx.corr_disagreements += 1
            ctx.violation("model's str.lower differs from the runtime", case={"kind": "lower", "cp": c}, expected=want,
                          observed=want, model=rep, stream="lower-correspondence", no_failing_input=True)
    ctx.count("lower:cases", len(pts))

    if ctx.lean is not None and not ctx.lean.ok:
        ctx.notes.append("Lean obligations did not check: the table-driven streams above (documented entries, every live entry x every "
                         "whitespace code point, the multi grid) were run in full against the oracle")


def replay(path):
    v = json.load(open(path))
    c = v["case"]
    if c.get("kind") in ("split", "multi", "dict", "parse", "tag", "history", "format", "access", "pkshare"):
        c = {k: x for k, x in c.items() if k != "line"}
        def human(cc):
            if cc["kind"] == "dict":
                return "; ".join(f"d[{mk_key(kd)!r}] = {vd!r}"[:80] for kd, vd in cc["sets"]) + f"   (d = {cc['cls']} attribute dict)"
            if cc["kind"] == "tag":
                how = "Tag(name=%r, is_xml=%r, attrs=...)" % (cc["name"], cc["isxml"]) if cc["cfg"] is None else "soup.new_tag(%r, attrs=...) with builder options %r" % (cc["name"], cc["cfg"])
                if cc.get("via") == "copy":
                    how = "copy.copy of a tag whose attrs are"
                pre = None if cc["attrs"] is None else {k: vd for k, vd in cc["attrs"]}
                return f"{how} attrs={pre!r}"[:300] + "; then " + "; ".join(f"tag[{mk_key(kd)!r}] = {vd!r}"[:80] for kd, vd in cc["sets"])
            if cc["kind"] == "parse":
                return f"BeautifulSoup({cc['markup']!r}, 'html.parser', options={cc['cfg']!r})"
            if cc["kind"] == "pkshare":
                how = "HTMLParserTreeBuilder(parser_kwargs=pk, on_duplicate_attribute=<kw>)" if cc["route"] == "builder" else \
                    "BeautifulSoup(markup, 'html.parser', parser_kwargs=pk, on_duplicate_attribute=<kw>)"
                return (f"pk = {{}} with entry {cc['pk']!r}; for kw in {cc['kws']!r} ('absent' = keyword not passed): {how}; "
                        f"each parses {cc['markup']!r}; options {cc['cfg']!r}")
            if cc["kind"] == "history":
                out = [f"builder options {cc['cfg']!r}; " + ("ONE builder object for all documents" if cc["reuse"] else "a fresh builder per document")]
                n = 0
                for st in cc["steps"]:
                    if st[0] == "doc":
                        out.append(f"  parse {doc_markup(st[1])!r}  -> tags {n}..{n + len(st[1]) - 1}")
                        n += len(st[1])
                    elif st[0] == "new":
                        out.append(f"  tag {n} = soup.new_tag({st[1]!r}, attrs={dict(st[2])!r})")
                        n += 1
                    elif st[0] == "copy":
                        out.append(f"  tag {n} = copy.copy(tag {st[1]})")
                        n += 1
                    elif st[0] == "mut":
                        out.append(f"  tag {st[1]}[{st[2]!r}].{st[3]}({'' if st[4] is None else repr(st[4])})   (skipped when not applicable)")
                    elif st[0] == "del":
                        out.append(f"  del tag {st[1]}[{st[2]!r}]")
                    elif st[0] == "ctor":
                        out.append(f"  tag {n} = Tag(name=tag{st[1]}.name, attrs=tag{st[1]}.attrs, is_xml={bool(st[2])})")
                        n += 1
                    else:
                        out.append(f"  tag {st[1]}[{mk_key(st[2])!r}] = {st[3]!r}")
                return "\n".join(out)
            return json.dumps(cc)
        print("input:", human(c))
        try:
            obs, extra = execute(c)
        except Exception as ex:
            obs, extra = f"raised {type(ex).__name__}: {str(ex)[:80]}", []
        c.pop("_seen", None)
        if "_human" in c:
            n, d = c.pop("_human")
            print(f"implementation (Python): attributes held in {n}: {safe_repr(d)}")
        want = oracle(c)
        print("implementation:", obs)
        print("property demands:", want)
        for what, w, g in extra:
            print("extra check failed:", what, "expected", w, "observed", g)
        return 0 if obs == want and not extra else 1
    if c.get("kind") == "documented-entry":
        from bs4 import BeautifulSoup
        tag = BeautifulSoup(f'<{c["tag"]} {c["attr"]}=" x\ty\n z ">', "html.parser").find(True)
        print("implementation:", tag.get(c["attr"]), " property demands: ['x', 'y', 'z']")
        return 0 if tag.get(c["attr"]) == ["x", "y", "z"] else 1
    print(json.dumps(v, indent=1))
    return 1
