"""C18 — sourceline/sourcepos. Documents are written by C04's independent writer, which records the offset of every
start tag's '<'; the real tags' (sourceline, sourcepos), in document order, must equal the 1-based line / 0-based
column of those offsets — computed directly in Python and by the Lean specification `lineCol` — and be None for
every tag with store_line_numbers=False."""
import json

from .common import Ctx, Driver, cps
from . import c04, tk

MANIFEST = dict(
    text=("Lean: (1) the adapter passes the tokenizer's getpos() through unchanged for every start-tag callback (<x> and <x/>) and stores "
          "nothing with store_line_numbers off (pos_pass_through, no_positions_when_off, one_info_per_start over ALL callback streams); "
          "(2) the arithmetic of CPython's ParserBase.updatepos, for ANY chunking of the consumed text, yields the 1-based line and 0-based "
          "column of the offset (updatepos_any_chunking, start_tag_position, lineCol_spec). Tie: for written documents with arbitrary newline "
          "placement (text, attribute values, in-tag whitespace, comments, CDATA) every real tag's position is compared with the writer's "
          "recorded offset, in both settings of store_line_numbers, and chunked replays of updatepos are compared with CPython's."),
    design="7/C18",
    note=("The tokenizer's bookkeeping is no longer only recorded: start_tag_positions_are_offsets_tokenized composes the tokenizer model's position "
          "invariant (Props/TK.lean) with pos_pass_through; what remains a tie by correspondence is that the Lean tokenizer model is html.parser "
          "(stream tokenizer-model on every generated document, plus ./check TK)."),
    technique="Lean 4 proof (pass-through over all callback streams; updatepos = line/column for any chunking) + writer-offset differential check",
)


def tags_in_order(soup):
    from bs4.element import Tag
    out, stack = [], list(reversed(soup.contents))
    while stack:
        o = stack.pop()
        if isinstance(o, Tag):
            out.append(o)
            stack.extend(reversed(o.contents))
    return out


STRAY = ["R&#D", "&#x;", "&# ", "&#", "AT&#T;", "&#xz", "&#12ab;", "a&b", "&;", "&#;", "&", "&#x", "\n", "<p>", "</p>", "<b k=v>", "<br>", "<i>",
         "x", " ", "<!--c-->", "<a href='&#'>", "&#65", "&amp", "<td>"]


def malformed_positions(ctx):
    """Arbitrary text (token soup incl. stray `&#`, which the tokenizer handles in its own ways): no writer knows the offsets here, but the
    property can be read off the text itself - every tag's (sourceline, sourcepos) is a place where `<` + its name stands - and off the
    standard library's own bookkeeping: a plain HTMLParser (no bs4) fed the same text reports the same positions, in the same order."""
    import warnings
    from bs4 import BeautifulSoup
    for i in range(ctx.n(2500, 40000)):
        r = ctx.rng("malformed-pos", i)
        if r.random() < 0.5:
            text = "".join(r.choice(STRAY) for _ in range(r.randint(2, 14)))
        else:
            text = c04.gen_soup(r) + r.choice(STRAY) + r.choice(["<p>", "<b>x</b>", "<i k=1>"])
        try:
            with warnings.catch_warnings():
                warnings.simplefilter("ignore")
                soup = BeautifulSoup(text, "html.parser", multi_valued_attributes=None)
        except Exception:
            ctx.count("malformed:rejected")
            continue
        tags = tags_in_order(soup)
        lines_ = text.split("\n")
        ctx.case(("M", text) if len(tags) >= 2 and "&#" in text else None)
        ctx.count("malformed:documents")
        bad = None
        for t in tags:
            ln, col = t.sourceline, t.sourcepos
            here = lines_[ln - 1][col:col + 1 + len(t.name)] if ln is not None and 1 <= ln <= len(lines_) else None
            if here is None or here[:1] != "<" or here[1:].lower() != t.name.lower():
                bad = f"<{t.name}> reports line {ln} column {col}, where the text has {here!r}"
                break
        if bad is None:
            evs = c04.record(text)
            if evs is not None:
                want = [(int(e.split("|")[2]), int(e.split("|")[3])) for e in evs if e[:3] in ("ST|", "SE|")]
                got = sorted((t.sourceline, t.sourcepos) for t in tags)
                if sorted(want) != got:
                    bad = f"tags at {got[:8]}, the standard library's parser reports start tags at {sorted(want)[:8]}"
        if bad:
            ctx.violation("malformed text: " + bad, case={"text": text, "store": True}, observed=bad, stream="malformed-positions")


REJECTED_FIRST = ["\n\n<zz a='1'>\n <yy>text<![x[ ]]>", "<zz><![weird[ ]]>", "\n<q>\n\n\n<r><s></s><![a[ ]]>"]


def subclass_builder(form, setting, rejected=0):
    """A user's subclass of the html.parser builder. form 'notrack': the class-level default TRACKS_LINE_NUMBERS is False - positions are
    stored exactly when store_line_numbers=True is passed; form 'retry': prepare_markup first offers a text that html.parser rejects after
    a few tags (ParserRejectedMarkup), then the document - the tree, and every position in it, is that of the text finally parsed.
    setting: None (argument not given) | True | False. Returns (builder, positions stored?)."""
    from bs4.builder import HTMLParserTreeBuilder
    kw = {} if setting is None else {"store_line_numbers": setting}
    if form == "notrack":
        cls = type("NoTrack", (HTMLParserTreeBuilder,), {"TRACKS_LINE_NUMBERS": False})
        return cls(multi_valued_attributes=None, **kw), bool(setting)

    class Retry(HTMLParserTreeBuilder):
        def prepare_markup(self, markup, *a, **k):
            yield (REJECTED_FIRST[rejected], None, None, False)
            yield from super().prepare_markup(markup, *a, **k)
    return Retry(multi_valued_attributes=None, **kw), (True if setting is None else bool(setting))


def linecol(text, off):
    return (text.count("\n", 0, off) + 1, off - (text.rfind("\n", 0, off) + 1))


def run(ctx: Ctx):
    ctx.rule = ("documents from C04's tree model written with random newline placement (\\n in text, attribute values, in-tag whitespace, "
                "comments, CDATA, after \\r); every tag's (sourceline, sourcepos) vs the writer's recorded '<' offset; both settings of "
                "store_line_numbers; plus random chunkings of random texts through CPython's ParserBase.updatepos vs the Lean model. "
                "non-trivial = a document with at least one newline before some tag and at least 3 tags")
    ctx.assumptions = ["the tokenizer's bookkeeping (when updatepos is called, with which chunk) is modelled (Model/Tokenizer.lean) and proved to yield "
                       "the line/column of each start tag's '<' (Props/TK.lean); the model is tied to CPython's html.parser by the tokenizer-model "
                       "stream (identical callback streams incl. positions on every generated document) and harness/tk.py's corpus",
                       "html.unescape and str.lower are parameters of the tokenizer model"]
    drv = Driver()
    lines, wants, cases = [], [], []
    shared = {}
    tk_docs = []           # (text, writer's offsets) of every generated document, for the tokenizer-model stream
    for i in range(ctx.n(4000, 80000)):
        r = ctx.rng("doc", i)
        nodes = c04.gen_tree(r)
        if r.random() < 0.5:
            nodes = [("t", r.choice(["\n", "\n\n", "a\nb", "\r\n", " "]))] + nodes
        offsets = []
        text = c04.write(r, nodes, offsets, [0])
        if r.random() < 0.12:
            # a str document may begin with U+FEFF (a BOM that survived decoding): it is a character of the parsed text like any other
            # ... and so are surrogate code points (a str can hold a pair, or a lone one) and astral characters: one character each
            lead = r.choice(["\ufeff", "\ufeff\n", "\u200b", "\x00", "\ud83d\ude00", "a\ud83d\ude00\ud83d\ude00b", "\ud800", "\U0001F600", "\x93x\x94"])
            text = lead + text
            offsets = [o + len(lead) for o in offsets]
        store = r.random() < 0.75
        prev_text = None
        enc = None
        sub = None
        if r.random() < 0.25 and not any(0xD800 <= ord(ch) <= 0xDFFF for ch in text):
            # bytes input in a declared encoding: the parsed text is the decoded document, character for character (characters the
            # encoding lacks are swapped, one for one, for characters it has - among them the Windows-1252 "smart quote" range)
            enc = r.choice(["utf-8", "windows-1252", "iso-8859-1", "iso-8859-2", "koi8-r", "utf-16-le", "windows-1252"])
            pool = {"utf-8": "é☃“”", "windows-1252": "\u201c\u201d\u2018\u2019\u20ac\u2026é", "iso-8859-1": "\x93\x94\x80é\xa0",
                    "iso-8859-2": "\x93\x94ł\xa0", "koi8-r": "я─", "utf-16-le": "é☃“\U0001F600"}[enc]
            def fit(ch):
                try:
                    ch.encode(enc)
                    return ch if (ord(ch) < 128 or r.random() < 0.5) else r.choice(pool)
                except UnicodeEncodeError:
                    return r.choice(pool)
            text = "".join(fit(ch) for ch in text)
            if text[:1] == "\ufeff":
                text = "x" + text[1:]          # a byte order mark is detection's business (C07), not a character of the parsed text
        tk_docs.append((text, list(offsets)))
        try:
            if enc is not None:
                from bs4 import BeautifulSoup
                import warnings as _w
                data = text.encode(enc)
                assert data.decode(enc) == text
                if enc in ("utf-8", "utf-16-le") and r.random() < 0.35 and not text.startswith("\x00"):     # FF FE 00 00 is the UTF-32 mark
                    # a byte order mark in front of bytes whose encoding the caller names: it is removed before parsing, so the parsed
                    # text - and every position in it - is the document without it
                    data = {"utf-8": b"\xef\xbb\xbf", "utf-16-le": b"\xff\xfe"}[enc] + data
                    ctx.count("bytes-input:bom+from_encoding")
                with _w.catch_warnings():
                    _w.simplefilter("ignore")
                    soup = BeautifulSoup(data, "html.parser", from_encoding=enc, multi_valued_attributes=None,
                                         **({} if store else {"store_line_numbers": False}))
                if (soup.original_encoding or "").lower() != enc:
                    ctx.count("bytes:declared-encoding-not-used")
                    continue
                ctx.count("bytes-input:" + enc)
            elif r.random() < 0.15:
                # a user's subclass of the builder: its own class-level default, or several candidate texts of which the first is rejected
                from bs4 import BeautifulSoup
                import warnings as _w
                sub = (r.choice(["notrack", "retry"]), r.choice([None, True, False]), r.randrange(len(REJECTED_FIRST)))
                b, store = subclass_builder(*sub)
                with _w.catch_warnings():
                    _w.simplefilter("ignore")
                    soup = BeautifulSoup(text, builder=b)
                ctx.count(f"builder-subclass:{sub[0]}:{sub[1]}")
            elif r.random() < 0.2:
                # one builder INSTANCE parsing document after document (as unpickling or a long-lived application does):
                # positions must not carry over from the previous document
                from bs4 import BeautifulSoup
                import warnings as _w
                key = "on" if store else "off"
                if key not in shared:
                    from bs4.builder import HTMLParserTreeBuilder
                    shared[key] = HTMLParserTreeBuilder(multi_valued_attributes=None, **({} if store else {"store_line_numbers": False}))
                b = shared[key]
                how = r.random()
                if how < 0.25:
                    # the setting is an attribute of the builder, read when a document is parsed: switch it on the live instance
                    # (and back afterwards), or set it in a subclass after the base constructor ran
                    store = not store
                    b.store_line_numbers = store
                    ctx.count("setting-switched-on-live-builder")
                elif how < 0.4:
                    from bs4.builder import HTMLParserTreeBuilder as _H

                    class Late(_H):
                        def __init__(self, want, **kw):
                            super().__init__(**kw)
                            self.store_line_numbers = want
                    store = not store
                    b = Late(store, multi_valued_attributes=None)
                    ctx.count("setting-assigned-after-base-constructor")
                with _w.catch_warnings():
                    _w.simplefilter("ignore")
                    soup = BeautifulSoup(text, builder=b)
                if how < 0.25:
                    b.store_line_numbers = (key == "on")
                ctx.count("shared-builder-instance")
                prev_text = shared.get(key + ":prev")
                shared[key + ":prev"] = text
            else:
                soup = c04.real_parse(text, {} if store else {"lines": 0})
        except Exception as e:
            ctx.violation(f"parse raised {type(e).__name__}", case={"text": text}, stream="written")
            continue
        tags = tags_in_order(soup)
        nontrivial = len(tags) >= 3 and any("\n" in text[:o] for o in offsets)
        ctx.case(("D", text, store) if nontrivial else None,
                 sample={"text": text, "positions": [(t.name, t.sourceline, t.sourcepos) for t in tags][:6]} if nontrivial and len(ctx.samples) < 4 else None)
        ctx.count("store:" + str(store))
        if len(tags) != len(offsets):
            ctx.violation("number of tags differs from the number of start tags written", case={"text": text, "store": store, "builder_subclass": sub},
                          expected=len(offsets), observed=len(tags), stream="written")
            continue
        for t, off in zip(tags, offsets):
            want = linecol(text, off) if store else (None, None)
            got = (t.sourceline, t.sourcepos)
            if got != want:
                ctx.violation(f"<{t.name}> written at offset {off}: sourceline/sourcepos {got}, true position {want}",
                              case={"text": text, "store": store, "offset": off, "previous_document_same_builder": prev_text, "bytes_in": enc,
                                    "builder_subclass": sub},
                              expected=want, observed=got, stream="written")
                break
        if store and offsets:
            lines.append(f"c18 linecol {cps(text) or '-'} {','.join(map(str, offsets))}")
            wants.append(",".join(f"{t.sourceline}.{t.sourcepos}" for t in tags))
            cases.append({"text": text, "store": store})
    rep = drv.ask(lines)
    for l, a, b, c in zip(lines, wants, rep, cases):
        if a != b:
            ctx.corr_disagreements += 1
            ctx.violation("Lean lineCol and the implementation's positions disagree", case=c, observed=a, model=b, stream="linecol",
                          no_failing_input=True)
    malformed_positions(ctx)
    # tokenizer-model: on every generated document the Lean tokenizer (Model/Tokenizer.lean, the subject of
    # start_tag_positions_are_offsets_tokenized) must produce html.parser's callback stream, positions included, and the offsets
    # the theorem speaks of (startOffsets = starts of the model's ST/SE spans) must be the offsets the writer put the tags at
    got = []
    tk.stream(ctx, [t for t, _ in tk_docs], name="tokenizer-model", drv=drv, collect=got)
    for (text, offs), (_, real, mt, ms) in zip(tk_docs, got):
        if real == mt and tk.start_offsets(ms) != offs:
            ctx.violation("the tokenizer model's start-tag offsets are not the offsets the writer put the start tags at",
                          case={"text": text}, expected=offs, observed=tk.start_offsets(ms), stream="tokenizer-model",
                          no_failing_input=True)
    # updatepos under random chunkings vs CPython's ParserBase
    import _markupbase
    lines, wants, cases = [], [], []
    for i in range(ctx.n(2000, 40000)):
        r = ctx.rng("chunk", i)
        chunks = ["".join(r.choice(["a", "\n", "\r", " ", "<", "é", "\n\n"]) for _ in range(r.randint(0, 6))) for _ in range(r.randint(0, 6))]
        pb = type("PB", (_markupbase.ParserBase,), {})()
        pb.reset()
        pb.rawdata = "".join(chunks)
        j = 0
        for ch in chunks:
            pb.updatepos(j, j + len(ch))
            j += len(ch)
        got = pb.getpos()
        ctx.case(("U", tuple(chunks)) if sum("\n" in c for c in chunks) >= 2 else None)
        want = linecol(pb.rawdata, len(pb.rawdata))
        if got != want:
            ctx.violation("CPython's updatepos differs from the line/column of the offset", case={"chunks": chunks}, expected=want, observed=got,
                          stream="updatepos")
        lines.append("c18 posafter " + (";".join(cps(c) or "-" for c in chunks) if chunks else "-"))
        wants.append(f"{got[0]}.{got[1]}")
        cases.append({"chunks": chunks})
    rep = drv.ask(lines)
    for l, a, b, c in zip(lines, wants, rep, cases):
        if a != b:
            ctx.corr_disagreements += 1
            ctx.violation("Lean updatepos model and CPython's ParserBase.updatepos disagree", case=c, observed=a, model=b, stream="updatepos",
                          no_failing_input=True)


def replay(path):
    v = json.load(open(path))
    c = v["case"]
    if "text" not in c:
        print(json.dumps(v, indent=1)[:2000]); return 1
    if c.get("builder_subclass"):
        from bs4 import BeautifulSoup
        soup = BeautifulSoup(c["text"], builder=subclass_builder(*c["builder_subclass"])[0])
    elif c.get("previous_document_same_builder") is not None:
        from bs4 import BeautifulSoup
        from bs4.builder import HTMLParserTreeBuilder
        b = HTMLParserTreeBuilder(multi_valued_attributes=None, **({} if c.get("store", True) else {"store_line_numbers": False}))
        BeautifulSoup(c["previous_document_same_builder"], builder=b)
        soup = BeautifulSoup(c["text"], builder=b)
    elif c.get("bytes_in"):
        from bs4 import BeautifulSoup
        soup = BeautifulSoup(c["text"].encode(c["bytes_in"]), "html.parser", from_encoding=c["bytes_in"], multi_valued_attributes=None,
                             **({} if c.get("store", True) else {"store_line_numbers": False}))
    else:
        soup = c04.real_parse(c["text"], {} if c.get("store", True) else {"lines": 0})
    print("text:", repr(c["text"]), "given as bytes in", c.get("bytes_in"))
    for t in tags_in_order(soup):
        print(f"  <{t.name}> sourceline={t.sourceline} sourcepos={t.sourcepos}")
    print("expected for the reported tag:", v.get("expected"), "observed:", v.get("observed"))
    if "offset" in c:
        want = linecol(c["text"], c["offset"]) if c.get("store", True) else (None, None)
        ok = any((t.sourceline, t.sourcepos) == want for t in tags_in_order(soup))
        return 0 if ok else 1
    if isinstance(v.get("expected"), int):          # "number of tags differs from the number of start tags written"
        return 0 if len(tags_in_order(soup)) == v["expected"] else 1
    return 1
