"""C19 — smart-quote conversion and detwingle preserve every character.

Real code: UnicodeDammit(bytes, [enc], smart_quotes_to=mode).unicode_markup and UnicodeDammit.detwingle(bytes).
Oracle: the property statement checked directly with html.unescape / CPython's cp1252 and utf-8 codecs.
Model: BS.Detwingle (unicodeMarkup / detwingleImpl / detwingle / decodeUtf8 / unescapeRef) through the driver."""
import html
import json
import logging
import re

from .common import Ctx, Driver, CORPUS

MANIFEST = dict(
    text=("Lean theorems over the tables generated from the live bs4: for each of the 32 bytes 0x80-0x9F, the three carrier "
          "encodings and modes xml/html, un-escaping the emitted reference gives the byte's Windows-1252 character "
          "(xml_/html_reference_denotes_cp1252; the five bytes cp1252 leaves undefined get a plain placeholder), ascii emits the "
          "documented substitute, no mode / a non-carrier encoding is plain decoding, conversion is byte-wise for whole inputs "
          "(smart_quotes_preserve_characters); detwingle: the Python index loop refines a structural scan (detwingleImpl_refines), "
          "terminates (detwingle_total), returns every valid UTF-8 byte list unchanged (detwingle_valid_id, and detwingle_inert_id "
          "for anything made of lead-byte-sized chunks), and maps UTF-8 text with embedded convertible cp1252 bytes to the valid "
          "UTF-8 of the text with each byte replaced by its character (detwingle_embedded, _valid; "
          "table_agrees_with_cp1252_where_reachable, lead_byte_entries_are_dead). Tie: exhaustive 32 bytes x 4 modes x carrier and "
          "non-carrier encodings through UnicodeDammit against model and oracle, random whole inputs, every scalar value through "
          "detwingle (thorough; stride in quick), random interleavings with every convertible byte, arbitrary bytes, and the Lean "
          "UTF-8 decoder / un-escaper against CPython's."),
    design="7/C19",
    note=("Inputs to UnicodeDammit carry no BOM and no '<' (no in-document declaration), chardet absent: the candidate order is "
          "known, utf-8, windows-1252. Bytes 81 8D 8F 90 9D denote no cp1252 character and are outside the claim (recorded). "
          "detwingle never converts bytes C2-F4 (UTF-8 lead bytes: ambiguous, read as UTF-8); every other byte >= 0x80 that Windows-1252 defines is 'convertible', whatever the library's tables say."),
    technique="Lean 4 proofs (kernel-decided table obligations + induction over character decomposition + loop refinement) with exhaustive/random correspondence and a direct oracle",
)

MODES = [None, "xml", "html", "ascii"]
# "the three encodings treated as smart-quote carriers" (property text; dammit.py:924-928)
DOCUMENTED_CARRIERS = ["windows-1252", "iso-8859-1", "iso-8859-2"]
NON_CARRIERS = ["latin-1", "cp1252", "iso-8859-5"]
XML_REF = re.compile(r"&#x([0-9A-Fa-f]+);\Z")
HTML_REF = re.compile(r"&#?\w+;\Z")

logging.getLogger("bs4.dammit").setLevel(logging.ERROR)


# ----------------------------------------------------------------------------------------------
# helpers
# ----------------------------------------------------------------------------------------------
def L(xs):
    xs = list(xs)
    return ",".join(map(str, xs)) if xs else "-"


def S(s):
    return L(ord(c) for c in s)


def cp1252_char(b):
    try:
        return bytes([b]).decode("windows-1252")
    except UnicodeDecodeError:
        return None


def real_markup(data: bytes, enc: str, mode):
    from bs4.dammit import UnicodeDammit
    d = UnicodeDammit(data, [enc], smart_quotes_to=mode)
    return d.unicode_markup, bool(d.contains_replacement_characters)


def show_markup(u, repl):
    return ("none" if u is None else "some " + S(u)) + f" repl={1 if repl else 0}"


def markup_line(data, enc, mode):
    return f"c19 markup {S(enc)} {mode or 'none'} {L(data)}"


def carriers():
    """The documented three, plus whatever else the live list names (if CPython knows the codec as a single-byte one we generated)."""
    from bs4.dammit import UnicodeDammit
    extra = [e for e in UnicodeDammit.ENCODINGS_WITH_SMART_QUOTES if e not in DOCUMENTED_CARRIERS and e in NON_CARRIERS]
    return DOCUMENTED_CARRIERS + extra


def smart_oracle(b: int, enc: str, mode, out):
    """The property statement for one byte 0x80-0x9F under a carrier encoding. Returns (ok, expected-description)."""
    from bs4.dammit import UnicodeDammit
    ch = cp1252_char(b)
    if mode == "ascii":
        want = UnicodeDammit.MS_CHARS_TO_ASCII.get(bytes([b]))
        ok = want is not None and out == want and out != "" and all(" " <= c <= "~" for c in out)
        return ok, f"documented ASCII substitute {want!r}"
    if mode is None:
        if enc == "windows-1252":
            if ch is None:
                return None, "undefined in cp1252 (outside the claim)"
            return out == ch, f"the character itself {ch!r}"
        try:
            want = bytes([b]).decode(enc)
        except UnicodeDecodeError:
            return None, "undefined in this codec (outside the claim)"
        return out == want, f"the character itself {want!r}"
    if ch is None:
        return None, "undefined in cp1252 (outside the claim)"
    if out is None:
        return False, f"a reference to {ch!r}"
    if mode == "xml":
        m = XML_REF.match(out)
        ok = bool(m) and chr(int(m.group(1), 16)) == ch and html.unescape(out) == ch
        return ok, f"an XML numeric reference to U+{ord(ch):04X}"
    ok = bool(HTML_REF.match(out)) and html.unescape(out) == ch
    return ok, f"an HTML reference to U+{ord(ch):04X}"


def convertible_bytes():
    """Fixed by the property and by the two standards it names, NOT by the library's own tables: a byte >= 0x80 that
    Windows-1252 (CPython's codec) gives a character to and that cannot begin a UTF-8 character (UTF-8 lead bytes are
    exactly C2..F4; those are ambiguous and are read as UTF-8)."""
    out = []
    for b in range(0x80, 0x100):
        if 0xC2 <= b <= 0xF4:
            continue
        if cp1252_char(b) is None:
            continue
        out.append(b)
    return out


def is_scalar(c):
    return 0 <= c < 0xD800 or 0xE000 <= c < 0x110000


def real_detwingle(data: bytes):
    from bs4.dammit import UnicodeDammit
    return UnicodeDammit.detwingle(data)


def py_utf8_decode(data: bytes):
    try:
        return data.decode("utf-8")
    except UnicodeDecodeError:
        return None


def show_opt_bytes(x):
    return "none" if x is None else "some " + L(x)


def whole_input_oracle(data, enc, mode, piece):
    """Independent of the model: the in-order concatenation of what each byte denotes; plus the smart bytes whose own
    conversion fails the single-byte oracle."""
    parts, bad = [], []
    for b in data:
        if 0x80 <= b <= 0x9F:
            p = piece(b, enc, mode)
            if smart_oracle(b, enc, mode, p)[0] is False:
                bad.append(b)
            parts.append(p if p is not None else "")
        else:
            parts.append(bytes([b]).decode(enc))
    return "".join(parts), bad


_LIMIT = {}


def limited(ctx, what, stream, **kw):
    """At most 3 reported violations per random stream (the exhaustive streams report everything)."""
    _LIMIT[stream] = _LIMIT.get(stream, 0) + 1
    ctx.count(f"violations:{stream}")
    if _LIMIT[stream] <= 3:
        ctx.violation(what, stream=stream, **kw)


# ----------------------------------------------------------------------------------------------
# generators
# ----------------------------------------------------------------------------------------------
INTERESTING_CPS = [0x00, 0x41, 0x7F, 0x80, 0xA0, 0xE9, 0xFF, 0x100, 0x7FF, 0x800, 0xFFF, 0x1000, 0x20AC, 0xD7FF, 0xE000, 0xFFFD,
                   0xFFFF, 0x10000, 0x1F600, 0x3FFFF, 0x40000, 0xFFFFF, 0x100000, 0x10FFFF]


def rand_scalar(r):
    k = r.random()
    if k < 0.35:
        return r.randrange(0x20, 0x7F)
    if k < 0.5:
        return r.randrange(0x80, 0x800)
    if k < 0.7:
        c = r.randrange(0x800, 0x10000)
        return c if is_scalar(c) else 0x4E2D
    if k < 0.85:
        return r.randrange(0x10000, 0x110000)
    return r.choice(INTERESTING_CPS)


def rand_smart_input(r):
    """ASCII + smart bytes + other high bytes; first byte an ASCII letter (no BOM), never '<'."""
    n = r.randrange(1, 14)
    out = [r.choice(b"abcXYZ")]
    for _ in range(n):
        k = r.random()
        if k < 0.4:
            out.append(r.randrange(0x80, 0xA0))
        elif k < 0.6:
            out.append(r.choice(b"az &;#x09\n"))
        elif k < 0.8:
            out.append(r.randrange(0xA0, 0x100))
        elif k < 0.9:
            out += list(chr(rand_scalar(r)).encode("utf-8"))      # sometimes valid UTF-8 (second candidate)
        else:
            out.append(r.randrange(0x20, 0x7F) if r.random() < 0.9 else r.randrange(0, 0x20))
    return bytes(b for b in out if b != 0x3C)


def rand_garbage(r):
    n = r.randrange(0, 24)
    out = []
    for _ in range(n):
        k = r.random()
        if k < 0.25:
            out.append(r.randrange(0xC2, 0xF5))
        elif k < 0.5:
            out.append(r.randrange(0x80, 0xC0))
        elif k < 0.65:
            out.append(r.randrange(0xF5, 0x100))
        elif k < 0.75:
            out.append(r.choice([0xC0, 0xC1, 0xE0, 0xED, 0xF0, 0xF4, 0x81, 0x8D, 0x8F, 0x90, 0x9D, 0xFF]))
        elif k < 0.9:
            out += list(chr(rand_scalar(r)).encode("utf-8"))
        else:
            out.append(r.randrange(0, 0x80))
    return bytes(out)


def near_valid_utf8(r):
    s = "".join(chr(rand_scalar(r)) for _ in range(r.randrange(1, 6))).encode("utf-8")
    s = bytearray(s)
    for _ in range(r.randrange(0, 3)):
        if not s:
            break
        i = r.randrange(len(s))
        k = r.random()
        if k < 0.4:
            s[i] = r.choice([0x7F, 0x80, 0x8F, 0x90, 0x9F, 0xA0, 0xBF, 0xC0, 0xC1, 0xC2, 0xDF, 0xE0, 0xED, 0xEF, 0xF0, 0xF4, 0xF5, 0xFF])
        elif k < 0.7:
            del s[i]
        else:
            s.insert(i, r.randrange(0x80, 0x100))
    return bytes(s)


# ----------------------------------------------------------------------------------------------
def run(ctx: Ctx):
    from bs4.dammit import UnicodeDammit as U
    ctx.rule = ("smart quotes: a case is non-trivial when the input holds at least one byte 0x80-0x9F, a mode is set and the encoding is a "
                "carrier (distinct (bytes, enc, mode)); detwingle: the input holds at least one multi-byte character (identity cases) or at "
                "least one convertible byte next to UTF-8 text (embedded cases); garbage/decoder streams count as correspondence only")
    ctx.assumptions = [
        "UnicodeDammit inputs: non-empty, no byte-order mark, no '<' (no in-document declaration), chardet/charset_normalizer absent, "
        "lower-case codec names CPython knows: the candidate order is [known, utf-8, windows-1252]",
        "CPython's single-byte decoders (windows-1252, iso-8859-1, iso-8859-2, latin-1, cp1252, iso-8859-5) are taken as generated tables; "
        "CPython's utf-8 codec is compared with the Lean decoder on every decoder/garbage case",
        "'un-escaping' = html.unescape (and, for xml mode, the reference must be a numeric &#xH; reference)",
    ]
    import bs4.dammit as dm
    if getattr(dm, "chardet_module", None) is not None or getattr(dm, "_chardet_dammit", lambda s: None)(b"abc") is not None:
        ctx.notes.append("a character detection library is importable: fallback cases may differ from the model's candidate order")
    _LIMIT.clear()
    drv = Driver()
    lean_broken = ctx.lean is not None and not ctx.lean.ok
    if lean_broken:
        ctx.notes.append("Lean obligations did not build: the exhaustive table oracles below are the search for a failing input")

    # ---------------- A. exhaustive: 32 bytes x 4 modes x (carriers + non-carriers), alone and in context ------------------
    car = carriers()
    encs = car + [e for e in NON_CARRIERS if e not in car]
    lines, impl, cases = [], [], []
    undefined_record = {}
    for enc in encs:
        for mode in MODES:
            for b in range(0x80, 0xA0):
                data = bytes([b])
                u, repl = real_markup(data, enc, mode)
                lines.append(markup_line(data, enc, mode)); impl.append(show_markup(u, repl))
                case = {"op": "smart", "enc": enc, "mode": mode, "bytes": list(data)}
                cases.append(case)
                nontriv = enc in car and mode is not None
                ctx.case(("A", enc, mode, b) if nontriv else None,
                         sample={"enc": enc, "mode": mode, "byte": hex(b), "unicode_markup": u} if nontriv and b in (0x93, 0x9F) and enc == car[0] else None)
                ctx.count(f"smart:{'carrier' if enc in car else 'non-carrier'}:{mode}")
                if enc in car:
                    ok, want = smart_oracle(b, enc, mode, u)
                    if ok is None:
                        undefined_record.setdefault(hex(b), {})[f"{enc}/{mode}"] = u
                        ctx.count("smart:undefined-in-cp1252")
                    elif not ok:
                        ctx.violation(f"byte {hex(b)} with smart_quotes_to={mode!r} under {enc}: output does not denote the byte's character",
                                      case=case, expected=want, observed=u, stream="smart-exhaustive")
                else:
                    # a non-carrier encoding: the mode must make no difference (plain decoding / fallback chain)
                    u0, repl0 = real_markup(data, enc, None)
                    if enc != "cp1252" and (u, repl) != (u0, repl0):
                        # (for 'cp1252' the fallback candidate 'windows-1252' is itself a carrier, so a mode may show after a failed strict decode)
                        ctx.violation(f"non-carrier encoding {enc}: smart_quotes_to={mode!r} changed the result", case=case,
                                      expected=u0, observed=u, stream="smart-exhaustive")
                # in context: the surrounding text is untouched
                if enc in car and mode is not None:
                    for pre, post in ((b"a", b"z"), (b"q&amp;", b";1")):
                        d2 = pre + data + post
                        u2, repl2 = real_markup(d2, enc, mode)
                        lines.append(markup_line(d2, enc, mode)); impl.append(show_markup(u2, repl2))
                        c2 = {"op": "smart", "enc": enc, "mode": mode, "bytes": list(d2)}
                        cases.append(c2)
                        ctx.case(("A2", enc, mode, d2))
                        if u is not None and u2 != pre.decode() + u + post.decode():
                            ctx.violation("surrounding text changed by the smart-quote conversion", case=c2,
                                          expected=pre.decode() + u + post.decode(), observed=u2, stream="smart-exhaustive")
    ctx.extra["undefined_cp1252_bytes_observed"] = undefined_record
    corpus = [json.load(open(f)) | {"file": f.name} for f in sorted((CORPUS / "C19").glob("*.json"))]
    for v in corpus:
        c = v["case"]
        if c.get("op") != "smart":
            continue
        data, enc, mode = bytes(c["bytes"]), c["enc"], c["mode"]
        u, repl = real_markup(data, enc, mode)
        lines.append(markup_line(data, enc, mode)); impl.append(show_markup(u, repl)); cases.append(c)
        ctx.case(("corpus", v["file"]))
        ctx.count("corpus:smart")
        if enc in car and mode is not None:
            want, badb = whole_input_oracle(data, enc, mode, lambda b, e, m: real_markup(bytes([b]), e, m)[0])
            if u != want or badb:
                ctx.violation(f"corpus {v['file']}: conversion of byte(s) {[hex(b) for b in badb]} does not denote their Windows-1252 character",
                              case=c, expected=want if not badb else "each byte 0x80-0x9F replaced by a reference to its cp1252 character",
                              observed=u, stream="corpus")
    ctx.exhaustive_parts.append(f"smart quotes: 32 bytes x 4 modes x {len(encs)} encodings ({', '.join(encs)}), alone and (carriers) in two contexts")

    # the un-escaper of the theorems vs html.unescape, on every reference the live table can emit
    ulines, uimpl, ucases = [], [], []
    for k, v in U.MS_CHARS.items():
        outs = []
        if type(v) is tuple:
            outs = ["&#x" + v[1] + ";", "&" + v[0] + ";"]
        else:
            outs = [v]
        for o in outs:
            un = html.unescape(o)
            is_ref = bool(XML_REF.match(o) or HTML_REF.match(o)) and len(un) == 1 and un != o
            ulines.append(f"c19 unescape {S(o) or '-'}")
            uimpl.append(f"some {ord(un)}" if is_ref else "none")
            ucases.append({"op": "unescape", "text": o})
    for b in range(0x80, 0xA0):
        ch = cp1252_char(b)
        ulines.append(f"c19 cp1252 {b}"); uimpl.append("none" if ch is None else f"some {ord(ch)}"); ucases.append({"op": "cp1252", "byte": b})
    for l, a, m, c in zip(ulines, uimpl, drv.ask(ulines), ucases):
        ctx.case(None)
        if a != m:
            ctx.corr_disagreements += 1
            ctx.violation("Lean un-escaper/cp1252 table disagrees with html.unescape/CPython", case=c | {"line": l}, observed=a, model=m,
                          stream="unescape-correspondence", no_failing_input=True)

    # ---------------- B. random whole inputs through UnicodeDammit --------------------------------------------------------
    r = ctx.rng("smart-random")
    nB = ctx.n(6000, 60000)
    single = {}

    def piece(b, enc, mode):
        key = (b, enc, mode)
        if key not in single:
            single[key] = real_markup(bytes([b]), enc, mode)[0]
        return single[key]

    for i in range(nB):
        data = rand_smart_input(r)
        enc = r.choice(encs) if r.random() < 0.25 else r.choice(car)
        mode = r.choice(MODES) if r.random() < 0.3 else r.choice(MODES[1:])
        u, repl = real_markup(data, enc, mode)
        lines.append(markup_line(data, enc, mode)); impl.append(show_markup(u, repl))
        case = {"op": "smart", "enc": enc, "mode": mode, "bytes": list(data)}
        cases.append(case)
        has_smart = any(0x80 <= b <= 0x9F for b in data)
        nontriv = has_smart and mode is not None and enc in car
        ctx.case(("B", data, enc, mode) if nontriv else None,
                 sample={"enc": enc, "mode": mode, "bytes": data.hex(), "unicode_markup": u} if nontriv and i < 3 else None)
        ctx.count("smart-random:" + ("carrier+mode+smart" if nontriv else "other"))
        if repl:
            ctx.count("smart-random:fallback-with-replacement")
        if enc in car and mode is not None:
            want, badb = whole_input_oracle(data, enc, mode, piece)
            if u != want or repl:
                limited(ctx, "whole input: result is not the in-order concatenation of each byte's conversion", case=case,
                        expected=want, observed=u, stream="smart-random")
            elif badb:
                limited(ctx, f"whole input: the conversion of byte(s) {[hex(b) for b in badb]} does not denote their Windows-1252 character",
                        case=case, expected="each byte 0x80-0x9F replaced by a reference to its cp1252 character", observed=u,
                        stream="smart-random")
    # correspondence for A + B
    rep = drv.ask(lines)
    nd = 0
    for l, a, m, c in zip(lines, impl, rep, cases):
        if a != m:
            nd += 1
            ctx.corr_disagreements += 1
            already = any(v["case"] == c for v in ctx.violations)
            if not already and nd <= 10:
                ctx.violation("model and implementation disagree (UnicodeDammit conversion)", case=c | {"line": l}, observed=a, model=m,
                              stream="smart-correspondence", no_failing_input=True)
    ctx.count("smart:requests", len(lines))

    # ---------------- C. detwingle ------------------------------------------------------------------------------------------
    conv = convertible_bytes()
    ctx.extra["convertible_bytes"] = [hex(b) for b in conv]
    tbl = U.WINDOWS_1252_TO_UTF8
    lo, hi = U.FIRST_MULTIBYTE_MARKER, U.LAST_MULTIBYTE_MARKER
    ctx.extra["table_entries_wrong_but_unreachable"] = {
        hex(b): v.hex() for b, v in sorted(tbl.items())
        if lo <= b <= hi and (cp1252_char(b) is None or v != cp1252_char(b).encode("utf-8"))}
    ctx.extra["cp1252_bytes_without_entry"] = [hex(b) for b in range(0x80, 0x100) if b not in tbl and cp1252_char(b) is not None]

    # C0. exhaustive over the table (also the search when a Lean obligation broke): every byte 0x80-0xFF alone in ASCII context
    dl, di, dc = [], [], []

    def det_case(data: bytes, stream, key=None, expect_text=None, pieces=None, sample=False):
        out = real_detwingle(data)
        case = {"op": "detwingle", "bytes": list(data)}
        if pieces is not None:
            case["pieces"] = pieces
        ctx.case(key, sample={"in": data.hex(), "out": out.hex()} if sample else None)
        if expect_text is not None:
            got = py_utf8_decode(out)
            if got != expect_text:
                report = (lambda what, **kw: ctx.violation(what, **kw)) if stream == "detwingle-table" else (lambda what, **kw: limited(ctx, what, **kw))
                report("detwingle: result is not the UTF-8 of the text with each embedded byte replaced by its Windows-1252 character"
                       if got is not None else "detwingle: result is not valid UTF-8",
                       case=case, expected=expect_text.encode("utf-8", "surrogatepass").hex(), observed=out.hex(), stream=stream)
        dl.append(f"c19 detwingle {L(data)}"); di.append(f"impl={show_opt_bytes(out)} spec={show_opt_bytes(out)}"); dc.append(case)
        if pieces is not None:
            dl.append("c19 pieces " + ",".join(pieces))
            di.append(f"ok=1 src={L(data)} out={L(out)}"); dc.append(case)
        return out

    for b in range(0x80, 0x100):
        data = b"a" + bytes([b]) + b"z"
        if b in conv:
            det_case(data, "detwingle-table", key=("C0", b), expect_text="a" + cp1252_char(b) + "z" if cp1252_char(b) else "\0never",
                     pieces=["c97", f"b{b}", "c122"])
            ctx.count("detwingle:table-byte-convertible")
        else:
            out = det_case(data, "detwingle-table")
            ctx.count("detwingle:table-byte-not-convertible")
            if lo <= b <= hi:
                pass  # taken as a lead byte: outside the claim (skips the following bytes)
            elif out != data:
                ctx.violation("detwingle changed a byte that has no table entry", case={"op": "detwingle", "bytes": list(data)},
                              expected=data.hex(), observed=out.hex(), stream="detwingle-table")
    dl += [f"c19 convertible {b}" for b in range(0x80, 0x100)]
    di += [f"{1 if b in conv else 0} marker={1 if lo <= b <= hi else 0}" for b in range(0x80, 0x100)]
    dc += [{"op": "convertible", "byte": b} for b in range(0x80, 0x100)]
    ctx.exhaustive_parts.append("detwingle: every byte 0x80-0xFF embedded in ASCII context")

    # C1. every Unicode scalar value as UTF-8 is unchanged (thorough: all; quick: stride + boundaries), singly and in runs
    stride = 1 if ctx.thorough else 23
    off = 0 if ctx.thorough else ctx.rng("stride").randrange(stride)
    scal = [c for c in range(off, 0x110000, stride) if is_scalar(c)]
    if not ctx.thorough:
        scal = sorted(set(scal) | {c for c in INTERESTING_CPS if is_scalar(c)} | set(range(0, 0x100)) | set(range(0x7F0, 0x810)) | set(range(0xFFF0, 0x10010)))
    bad = 0
    for c in scal:
        e = chr(c).encode("utf-8")
        if real_detwingle(e) != e:
            bad += 1
            if bad <= 5:
                ctx.violation(f"detwingle changed the valid UTF-8 encoding of U+{c:04X}", case={"op": "detwingle", "bytes": list(e)},
                              expected=e.hex(), observed=real_detwingle(e).hex(), stream="detwingle-scalars")
    ctx.evaluations += len(scal)
    ctx.count("detwingle:scalar-singly", len(scal))
    ctx.nontrivial.update(0x1000000 + c for c in scal if c >= 0x80)   # int keys: one per multi-byte scalar value
    run_len = 64
    for i in range(0, len(scal), run_len):
        chunk = scal[i:i + run_len]
        e = "".join(map(chr, chunk)).encode("utf-8")
        det_case(e, "detwingle-scalars", key=("C1run", i), expect_text="".join(map(chr, chunk)), sample=(i == run_len * 40))
    ctx.count("detwingle:scalar-runs", (len(scal) + run_len - 1) // run_len)
    (ctx.exhaustive_parts.append if ctx.thorough else ctx.notes.append)(
        f"detwingle identity: {'all' if ctx.thorough else 'every ' + str(stride) + 'th (+ boundaries) of the'} 1,112,064 scalar values, each alone and in runs of {run_len}"
        + ("" if ctx.thorough else f" = {len(scal)} values"))

    # C2. interleavings: UTF-8 text with convertible bytes; every convertible byte in several positions
    r = ctx.rng("interleave")

    def interleaving(force=None):
        n = r.randrange(1, 9)
        ps = []
        for _ in range(n):
            if r.random() < 0.4:
                ps.append(("b", r.choice(conv)))
            else:
                ps.append(("c", rand_scalar(r)))
        if force is not None:
            ps.insert(r.randrange(len(ps) + 1), ("b", force))
        return ps

    def run_pieces(ps, stream, idx):
        data = b"".join(bytes([v]) if k == "b" else chr(v).encode("utf-8") for k, v in ps)
        text = "".join(cp1252_char(v) if k == "b" else chr(v) for k, v in ps)
        has_b = any(k == "b" for k, _ in ps)
        has_mb = any(k == "c" and v >= 0x80 for k, v in ps)
        ctx.count(f"detwingle:interleaving:{'emb' if has_b else 'noemb'}+{'multibyte' if has_mb else 'ascii'}")
        det_case(data, stream, key=("C2", data) if has_b else None, expect_text=text, pieces=[f"{k}{v}" for k, v in ps], sample=(idx < 2))

    for v in corpus:
        c = v["case"]
        if c.get("op") == "detwingle" and "pieces" in c:
            ps = [(p[0], int(p[1:])) for p in c["pieces"]]
            if all((k == "b" and v_ in conv) or (k == "c" and is_scalar(v_)) for k, v_ in ps):
                run_pieces(ps, "corpus", 99)
                ctx.count("corpus:detwingle")
    if conv:
        for b in conv:
            for j in range(ctx.n(3, 12)):
                run_pieces(interleaving(force=b), "detwingle-interleave", 99)
            run_pieces([("b", b)], "detwingle-interleave", 99)
            run_pieces([("b", b), ("b", b)], "detwingle-interleave", 99)
            run_pieces([("c", 0x20AC), ("b", b), ("c", 0x1F600)], "detwingle-interleave", 99)
        for i in range(ctx.n(3000, 40000)):
            run_pieces(interleaving(), "detwingle-interleave", i)

    # C3. arbitrary bytes: pure correspondence (the real code never raises; truncated sequences are copied)
    r = ctx.rng("garbage")
    for i in range(ctx.n(4000, 50000)):
        data = rand_garbage(r)
        try:
            det_case(data, "detwingle-garbage")
        except Exception as e:  # the real code is total on bytes; anything else is a finding
            ctx.violation(f"detwingle raised {type(e).__name__} on a byte string", case={"op": "detwingle", "bytes": list(data)},
                          expected="a bytes result", observed=repr(e), stream="detwingle-garbage")
        ctx.count("detwingle:garbage")
    # argument checks
    for main, emb in [("utf8", "windows-1252"), ("UTF-8", "WINDOWS_1252"), ("utf-8", "windows_1252"), ("Utf8", "Windows-1252"),
                      ("latin-1", "windows-1252"), ("utf8", "iso-8859-1"), ("utf8", "cp1252"), ("utf_8", "windows-1252")]:
        try:
            got = "ok " + L(U.detwingle(b"a\x93", main, emb))
        except NotImplementedError:
            got = "NotImplementedError"
        dl.append(f"c19 detcall 97,147 {S(main)} {S(emb)}"); di.append(got); dc.append({"op": "detcall", "main": main, "embedded": emb})
        ctx.case(None)
        ctx.count("detwingle:argcheck:" + got.split()[0])

    # C4. the Lean strict UTF-8 decoder (the theorems' notion of validity) vs CPython's
    r = ctx.rng("utf8dec")
    for i in range(ctx.n(4000, 40000)):
        data = near_valid_utf8(r) if i % 2 else rand_garbage(r)
        s = py_utf8_decode(data)
        dl.append(f"c19 utf8dec {L(data)}"); di.append("none" if s is None else "some " + S(s)); dc.append({"op": "utf8dec", "bytes": list(data)})
        ctx.case(None)
        ctx.count("utf8dec:" + ("valid" if s is not None else "invalid"))
    for c in INTERESTING_CPS + [0xD800, 0xDFFF]:
        if is_scalar(c):
            dl.append(f"c19 utf8enc {c}"); di.append(L(chr(c).encode("utf-8"))); dc.append({"op": "utf8enc", "cp": c})

    rep = drv.ask(dl)
    nd = 0
    for l, a, m, c in zip(dl, di, rep, dc):
        if a != m:
            nd += 1
            ctx.corr_disagreements += 1
            already = any(v["case"].get("bytes") == c.get("bytes") and v["case"].get("op") == c.get("op") and not v.get("no_failing_input_found")
                          for v in ctx.violations)
            if not already and nd <= 10:
                ctx.violation("model and implementation disagree (" + c["op"] + ")", case=c | {"line": l}, observed=a, model=m,
                              stream="detwingle-correspondence", no_failing_input=True)
    ctx.count("detwingle:requests", len(dl))


# ----------------------------------------------------------------------------------------------
def replay(path):
    v = json.load(open(path))
    c = v["case"]
    op = c.get("op")
    if op == "smart":
        data = bytes(c["bytes"])
        enc, mode = c["enc"], c["mode"]
        u, repl = real_markup(data, enc, mode)
        print(f"UnicodeDammit({data!r}, [{enc!r}], smart_quotes_to={mode!r}).unicode_markup = {u!r}")
        print("property demands:", v.get("expected"))
        if enc in carriers() and mode is not None:
            want, badb = whole_input_oracle(data, enc, mode, lambda b, e, m: real_markup(bytes([b]), e, m)[0])
            for b in badb:
                print(f"  byte {hex(b)} -> {real_markup(bytes([b]), enc, mode)[0]!r}, expected {smart_oracle(b, enc, mode, None)[1]}")
            return 1 if (badb or u != want) else 0
        if enc in carriers() and len(data) == 1:
            return 1 if smart_oracle(data[0], enc, mode, u)[0] is False else 0
        return 1 if v.get("expected") is not None and u != v["expected"] else 0
    if op == "detwingle":
        data = bytes(c["bytes"])
        out = real_detwingle(data)
        print(f"detwingle({data!r}) = {out!r}")
        print("property demands (hex):", v.get("expected"), " observed (hex):", out.hex())
        if v.get("expected") is not None and not v.get("no_failing_input_found"):
            return 0 if out.hex() == v["expected"] else 1
        return 1
    print(json.dumps(v, indent=1))
    return 1
