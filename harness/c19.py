"""C19 — smart-quote conversion and detwingle preserve every character.

Real code: UnicodeDammit(bytes, [enc], smart_quotes_to=mode).unicode_markup and UnicodeDammit.detwingle(bytes).
Oracle: the property statement checked directly with html.unescape / CPython's cp1252 and utf-8 codecs.
Model: BS.Detwingle (unicodeMarkup / detwingleImpl / detwingle / decodeUtf8 / unescapeRef) through the driver."""
import html
import json
import logging
import re
import warnings

from .common import Ctx, Driver, CORPUS

MANIFEST = dict(
    text=("Lean theorems over tables generated from the live bs4 (MS_CHARS, MS_CHARS_TO_ASCII, ENCODINGS_WITH_SMART_QUOTES, CHARSET_ALIASES, "
          "WINDOWS_1252_TO_UTF8, MULTIBYTE_MARKERS_AND_SIZES) and from CPython (single-byte decoders, codec registry on a finite universe of "
          "spellings, html5 names). Smart quotes: for the 32 bytes x 3 carriers x xml/html the emitted reference un-escapes to the byte's "
          "cp1252 character (xml_/html_reference_denotes_cp1252), undefined bytes get a placeholder, ascii emits the pinned documented "
          "substitutes (ascii_substitutes_are_the_documented_ones), no mode / non-carrier = plain decoding; lifted to every byte string "
          "(smart_quotes_preserve_characters, unescaping_the_conversion_gives_the_characters, windows1252_conversion_unescapes_to_plain_decoding) "
          "and to the observable constructor for every spelling find_codec resolves to a carrier, every BOM/declaration/extra encodings "
          "(constructor_preserves_characters, constructor_ascii_substitutes, stripBom_removes_only_a_bom, call_outcome_independent_of_history). "
          "detwingle, for ALL byte lists: the Python index loop refines a structural scan (detwingleImpl_refines), terminates, only replaces "
          "embeddable bytes by their table value (detwingle_only_replaces_embedded_bytes), is idempotent, its result is valid UTF-8 iff the "
          "input is UTF-8 text with embedded cp1252 bytes (detwingle_output_valid_iff), identity on valid UTF-8 (detwingle_valid_id, "
          "detwingle_inert_id), embedded bytes become their characters (detwingle_embedded); whole-table obligations with a "
          "standards-based notion of embeddable byte (embeddable_bytes_converted, convertible_iff_embeddable, windows1252_table_whole). "
          "Tie: histories of calls in one process vs the same call in a pristine forked process (with the property oracle on both), a "
          "spelling grid, exhaustive 32 x 4 x encodings, random documents with BOMs/declarations/tags, every scalar value through detwingle "
          "(thorough; stride in quick), interleavings with every embeddable byte, arbitrary bytes with the all-input clauses checked "
          "directly on the real code, Lean UTF-8 decoder / un-escapers against CPython's."),
    design="7/C19",
    note=("The model covers the whole constructor for bytes input (BOM stripping, candidate order, find_codec, tried_encodings, both passes); "
          "what find_declared_encoding returns is a parameter of the model (theorems hold for every value; the harness passes the real one; "
          "the regex itself is C07's), chardet absent, user/exclude encodings empty. Codecs the model does not decode byte by byte (UTF-16/32, "
          "multi-byte, UTF-8 with errors=replace) make the model answer 'beyond' and the case is counted, not compared. Bytes 81 8D 8F 90 9D "
          "denote no cp1252 character and are outside the claim (recorded). Spellings other than the three documented names in any letter "
          "case (ISO_8859-1, latin-1, cp1252, ...) are not treated as carriers by the code (name comparison, dammit.py:942): outside the "
          "statement, modelled as is, recorded in evidence. detwingle never converts bytes C2-F4 (UTF-8 lead bytes: read as UTF-8)."),
    technique="Lean 4 proofs (kernel-decided whole-table obligations + induction over byte lists + loop refinement) with history/exhaustive/random correspondence and a direct oracle",
)

MODES = [None, "xml", "html", "ascii"]
# "the three encodings treated as smart-quote carriers" (property text; dammit.py:924-928)
DOCUMENTED_CARRIERS = ["windows-1252", "iso-8859-1", "iso-8859-2"]
NON_CARRIERS = ["latin-1", "cp1252", "iso-8859-5"]
# the documented plain substitutes (bs4 4.13.0 source documentation of MS_CHARS_TO_ASCII, keys 0x80-0x9F), pinned here
DOCUMENTED_ASCII = {0x80: "EUR", 0x81: " ", 0x82: ",", 0x83: "f", 0x84: ",,", 0x85: "...", 0x86: "+", 0x87: "++", 0x88: "^", 0x89: "%",
                    0x8A: "S", 0x8B: "<", 0x8C: "OE", 0x8D: "?", 0x8E: "Z", 0x8F: "?", 0x90: "?", 0x91: "'", 0x92: "'", 0x93: '"',
                    0x94: '"', 0x95: "*", 0x96: "-", 0x97: "--", 0x98: "~", 0x99: "(TM)", 0x9A: "s", 0x9B: ">", 0x9C: "oe", 0x9D: "?",
                    0x9E: "z", 0x9F: "Y"}
XML_REF = re.compile(r"&#x([0-9A-Fa-f]+);\Z")
HTML_REF = re.compile(r"&#?\w+;\Z")

logging.getLogger("bs4.dammit").setLevel(logging.ERROR)


# ----------------------------------------------------------------------------------------------
# helpers
# ----------------------------------------------------------------------------------------------
def L(xs):
    xs = list(xs)
    return ",".join(map(str, xs)) if xs else "-"


def S(s):
    return L(ord(c) for c in s)


def cp1252_char(b):
    try:
        return bytes([b]).decode("windows-1252")
    except UnicodeDecodeError:
        return None


def real_dammit(data: bytes, known, mode):
    """(unicode_markup, contains_replacement_characters, original_encoding) of the real constructor."""
    from bs4.dammit import UnicodeDammit
    d = UnicodeDammit(data, list(known), smart_quotes_to=mode)
    return d.unicode_markup, bool(d.contains_replacement_characters), d.original_encoding


def real_markup(data: bytes, enc: str, mode):
    return real_dammit(data, [enc], mode)[:2]


def show_dammit(u, repl, orig):
    if u is None:
        return "failed"
    return f"ok {S(u)} repl={1 if repl else 0} enc={'none' if orig is None else S(orig)}"


def declared_of(data: bytes):
    """What the document declares (the model takes it as a parameter; its theorems hold for every value)."""
    from bs4.dammit import EncodingDetector
    stripped, _ = EncodingDetector.strip_byte_order_mark(data)
    return EncodingDetector.find_declared_encoding(stripped, False)


def dammit_line(data, known, mode):
    d = declared_of(data) if data else None
    return f"c19 dammit {';'.join(S(k) for k in known) if known else '-'} {S(d) if d else '-'} {mode or 'none'} {L(data)}"


def call_line(c):
    """protocol line of the model for a 'ud' call (known, override, user encodings; the declaration as observed)"""
    data = bytes(c["b"])
    d = declared_of(data) if data else None
    j = lambda xs: ";".join(S(k) for k in xs) if xs else "-"
    return f"c19 dammitf {j(c.get('known') or [])} {j(c.get('override') or [])} {j(c.get('user') or [])} {S(d) if d else '-'} {c['mode'] or 'none'} {L(data)}"


def call_nontrivial(c):
    first = effective_first(c)
    return bool(first and expected_carrier(first) and c["mode"] is not None and any(0x80 <= x <= 0x9F for x in strip_bom_oracle(bytes(c["b"]))))


def model_agrees(expected: str, reply: str):
    """None = the model does not decide this case (a codec it does not decode, or a spelling outside the generated universe)."""
    if reply.endswith(" listed=0") or reply.startswith("beyond"):
        return None
    return reply == expected + " listed=1"


def strip_bom_oracle(data: bytes):
    """The documented byte-order marks, written down independently of the code under test."""
    if data[:2] in (b"\xfe\xff", b"\xff\xfe") and data[2:4] != b"\x00\x00":
        return data[2:]
    if data[:3] == b"\xef\xbb\xbf":
        return data[3:]
    if data[:4] in (b"\x00\x00\xfe\xff", b"\xff\xfe\x00\x00"):
        return data[4:]
    return data


def carriers():
    """The documented three, plus whatever else the live list names (if CPython knows the codec as a single-byte one we generated)."""
    from bs4.dammit import UnicodeDammit
    extra = [e for e in UnicodeDammit.ENCODINGS_WITH_SMART_QUOTES if e not in DOCUMENTED_CARRIERS and e in NON_CARRIERS]
    return DOCUMENTED_CARRIERS + extra


def smart_oracle(b: int, enc: str, mode, out):
    """The property statement for one byte 0x80-0x9F under a carrier encoding. Returns (ok, expected-description)."""
    from bs4.dammit import UnicodeDammit
    ch = cp1252_char(b)
    if mode == "ascii":
        want = DOCUMENTED_ASCII[b]
        ok = out == want
        return ok, f"documented ASCII substitute {want!r}"
    if mode is None:
        if enc == "windows-1252":
            if ch is None:
                return None, "undefined in cp1252 (outside the claim)"
            return out == ch, f"the character itself {ch!r}"
        try:
            want = bytes([b]).decode(enc)
        except UnicodeDecodeError:
            return None, "undefined in this codec (outside the claim)"
        return out == want, f"the character itself {want!r}"
    if ch is None:
        return None, "undefined in cp1252 (outside the claim)"
    if out is None:
        return False, f"a reference to {ch!r}"
    if mode == "xml":
        m = XML_REF.match(out)
        ok = bool(m) and chr(int(m.group(1), 16)) == ch and html.unescape(out) == ch
        return ok, f"an XML numeric reference to U+{ord(ch):04X}"
    ok = bool(HTML_REF.match(out)) and html.unescape(out) == ch
    return ok, f"an HTML reference to U+{ord(ch):04X}"


def convertible_bytes():
    """Fixed by the property and by the two standards it names, NOT by the library's own tables: a byte >= 0x80 that
    Windows-1252 (CPython's codec) gives a character to and that cannot begin a UTF-8 character (UTF-8 lead bytes are
    exactly C2..F4; those are ambiguous and are read as UTF-8)."""
    out = []
    for b in range(0x80, 0x100):
        if 0xC2 <= b <= 0xF4:
            continue
        if cp1252_char(b) is None:
            continue
        out.append(b)
    return out


def is_scalar(c):
    return 0 <= c < 0xD800 or 0xE000 <= c < 0x110000


def real_detwingle(data: bytes):
    from bs4.dammit import UnicodeDammit
    return UnicodeDammit.detwingle(data)


def parses_as_text_with_embedded_bytes(data: bytes, conv) -> bool:
    """Is `data` a concatenation of well-formed UTF-8 characters and single embeddable Windows-1252 bytes?  (The two
    kinds cannot be confused: an embeddable byte is never a UTF-8 lead byte or an ASCII byte.)  Written with CPython's
    decoder only."""
    i, n = 0, len(data)
    while i < n:
        b = data[i]
        if b < 0x80:
            i += 1
            continue
        size = 2 if 0xC2 <= b <= 0xDF else 3 if 0xE0 <= b <= 0xEF else 4 if 0xF0 <= b <= 0xF4 else 0
        if size:
            if py_utf8_decode(data[i:i + size]) is None or len(data[i:i + size]) < size:
                return False
            i += size
        elif b in conv:
            i += 1
        else:
            return False
    return True


def replaced_only(data: bytes, out: bytes, conv) -> bool:
    """`out` is `data` with some embeddable bytes replaced by the UTF-8 of their Windows-1252 character, nothing else
    changed (dynamic programme over the two strings; independent of how the scan walks)."""
    reach = {(0, 0)}
    for i, b in enumerate(data):
        nxt = set()
        for (pi, po) in reach:
            if pi != i:
                continue
            if po < len(out) and out[po] == b:
                nxt.add((i + 1, po + 1))
            if b in conv:
                rep = cp1252_char(b).encode("utf-8")
                if out[po:po + len(rep)] == rep:
                    nxt.add((i + 1, po + len(rep)))
        reach = nxt
        if not reach:
            return False
    return (len(data), len(out)) in reach


def py_utf8_decode(data: bytes):
    try:
        return data.decode("utf-8")
    except UnicodeDecodeError:
        return None


def show_opt_bytes(x):
    return "none" if x is None else "some " + L(x)


def whole_input_oracle(data, enc, mode, piece):
    """Independent of the model: the in-order concatenation of what each byte denotes; plus the smart bytes whose own
    conversion fails the single-byte oracle."""
    parts, bad = [], []
    for b in data:
        if 0x80 <= b <= 0x9F:
            p = piece(b, enc, mode)
            if smart_oracle(b, enc, mode, p)[0] is False:
                bad.append(b)
            parts.append(p if p is not None else "")
        else:
            parts.append(bytes([b]).decode(enc))
    return "".join(parts), bad


# ----------------------------------------------------------------------------------------------
# a pristine bs4 in a child process: every request is answered by a fork of the freshly imported state
# ----------------------------------------------------------------------------------------------
UD_FORMS = ["kw", "pos3", "tuple", "gen", "allkw"]


def ud_invoke(UnicodeDammit, c):
    """One UnicodeDammit constructor call in the call form c['form'] (how the arguments are passed), with optional
    override_encodings / user_encodings; 'known' may be None (argument omitted).  Returns unicode_markup, the replacement
    flag, original_encoding, the markup attribute, and whether every list the caller passed is still what it was."""
    data, mode, form = bytes(c["b"]), c["mode"], c.get("form", "kw")
    known = None if c.get("known") is None else list(c["known"])
    ov = None if c.get("override") is None else list(c["override"])
    us = None if c.get("user") is None else list(c["user"])
    before = (None if known is None else list(known), None if ov is None else list(ov), None if us is None else list(us))
    kw = {}
    if ov is not None:
        kw["override_encodings"] = ov
    if us is not None:
        kw["user_encodings"] = us
    if form == "pos3":                      # the historical positional form: (markup, known_definite_encodings, smart_quotes_to)
        d = UnicodeDammit(data, known if known is not None else [], mode, **kw)
    elif form == "tuple" and known is not None:
        d = UnicodeDammit(data, tuple(known), smart_quotes_to=mode, **kw)
    elif form == "gen" and known is not None:
        d = UnicodeDammit(data, (k for k in known), smart_quotes_to=mode, **kw)
    elif form == "allkw":
        if known is not None:
            kw["known_definite_encodings"] = known
        d = UnicodeDammit(markup=data, smart_quotes_to=mode, **kw)
    elif known is None:
        d = UnicodeDammit(data, smart_quotes_to=mode, **kw)
    else:
        d = UnicodeDammit(data, known, smart_quotes_to=mode, **kw)
    return [d.unicode_markup, bool(d.contains_replacement_characters), d.original_encoding,
            list(d.markup) if isinstance(d.markup, (bytes, bytearray)) else repr(d.markup), (known, ov, us) == before]


SERVER_SRC = r'''
import sys, os, json, logging
sys.path.insert(0, sys.argv[1])
logging.getLogger("bs4.dammit").setLevel(logging.ERROR)
import warnings
warnings.simplefilter("ignore")
import bs4
from bs4 import BeautifulSoup
from bs4.dammit import UnicodeDammit, EncodingDetector

UD_INVOKE_SRC

def call(c):
    k = c["k"]
    if k == "ud":
        return ud_invoke(UnicodeDammit, c)
    if k == "det":
        return list(UnicodeDammit.detwingle(bytes(c["b"])))
    if k == "soup":
        soup = BeautifulSoup(bytes(c["b"]), "html.parser", from_encoding=c.get("enc"))
        return [soup.original_encoding, soup.decode()]
    if k == "fc":
        return UnicodeDammit(b"x").find_codec(c["name"])
    raise ValueError(k)

def safe(c):
    try:
        return call(c)
    except Exception as e:
        return {"exc": type(e).__name__}

for line in sys.stdin:
    req = json.loads(line)
    r, w = os.pipe()
    pid = os.fork()
    if pid == 0:
        os.close(r)
        out = json.dumps([safe(c) for c in req]).encode()
        while out:
            n = os.write(w, out)
            out = out[n:]
        os._exit(0)
    os.close(w)
    chunks = []
    while True:
        d = os.read(r, 65536)
        if not d:
            break
        chunks.append(d)
    os.close(r)
    os.waitpid(pid, 0)
    sys.stdout.write(b"".join(chunks).decode() + "\n")
sys.stdout.flush()
'''


import inspect as _inspect
SERVER_SRC = SERVER_SRC.replace("UD_INVOKE_SRC", _inspect.getsource(ud_invoke))


def pristine(requests):
    """requests: list of call lists. Each list is run, in order, in ONE fork of a process that has imported bs4 and done
    nothing else. Returns the list of result lists."""
    import subprocess, sys
    from .common import REPO
    if not requests:
        return []
    p = subprocess.run([sys.executable, "-c", SERVER_SRC, str(REPO)], input="".join(json.dumps(r) + "\n" for r in requests),
                       capture_output=True, text=True)
    out = [json.loads(l) for l in p.stdout.splitlines() if l.strip()]
    if p.returncode != 0 or len(out) != len(requests):
        raise RuntimeError(f"pristine server failed rc={p.returncode} got={len(out)}/{len(requests)} stderr={p.stderr[-400:]}")
    return out


# spellings of the carrier names (and relatives) that CPython accepts, for histories and the spelling grid
SPELLINGS = ["windows-1252", "WINDOWS-1252", "Windows-1252", "windows_1252", "Windows_1252", "WINDOWS_1252", "windows1252", "cp1252", "CP1252", "Cp1252",
             "iso-8859-1", "ISO-8859-1", "Iso-8859-1", "ISO_8859-1", "iso_8859-1", "iso8859-1", "ISO8859-1", "iso-8859_1", "latin-1", "LATIN-1", "latin1",
             "Latin1", "l1", "iso-ir-100", "IBM819", "cp819", "iso88591",
             "iso-8859-2", "ISO-8859-2", "Iso-8859-2", "ISO_8859-2", "iso_8859-2", "iso8859_2", "latin-2", "l2", "iso-ir-101",
             "utf-8", "UTF-8", "utf8", "macintosh", "mac-roman", "ascii", "iso-8859-15", "bogus-enc"]


def expected_carrier(spelling: str) -> bool:
    """By the property text: the three named encodings, in any letter case (names are case-insensitive)."""
    return spelling.lower() in DOCUMENTED_CARRIERS


def markup_attr_oracle(call, result):
    """`UnicodeDammit.markup` is documented as the original markup with any byte-order mark stripped."""
    if isinstance(result, dict) or len(result) < 4:
        return None
    want = list(strip_bom_oracle(bytes(call["b"])))
    if result[3] != want:
        return ("UnicodeDammit.markup is not the input with its byte-order mark stripped", want)
    return None


def effective_first(call):
    """The encoding the documented candidate order tries first and that cannot fail, when that is determined by the call
    alone: the first of known_definite_encodings + override_encodings; else (no byte-order mark) the first of
    user_encodings; else (no byte-order mark, no declaration, input not valid UTF-8) the documented last resort
    windows-1252.  None = not determined this simply (no oracle; model and history comparisons still apply)."""
    data = bytes(call["b"])
    names = list(call.get("known") or []) + list(call.get("override") or [])
    if names:
        return names[0]
    no_bom = strip_bom_oracle(data) == data
    if call.get("user"):
        return call["user"][0] if no_bom else None
    if no_bom and b"<?" not in data and b"encoding" not in data.lower() and py_utf8_decode(data) is None:
        return "windows-1252"
    return None


def args_oracle(call, result):
    """The constructor must not change the lists it is given."""
    if isinstance(result, dict) or len(result) < 5 or result[4]:
        return None
    return ("the constructor changed a list passed by the caller (known_definite_encodings / override_encodings / user_encodings)",
            "the caller's lists unchanged")


def ud_call_oracle(call, result, piece):
    """The property for one UnicodeDammit call whose effective first encoding is a documented carrier (any letter case)
    with a mode set: in-order concatenation of each byte's conversion over the BOM-stripped input. Returns None if
    satisfied / not applicable, else (what, expected)."""
    mode, data = call["mode"], bytes(call["b"])
    first = effective_first(call)
    if first is None or not expected_carrier(first) or mode is None or not data:
        return None
    if isinstance(result, dict):
        return ("the constructor raised " + result.get("exc", "?"), "a converted string")
    u, repl, orig = result[:3]
    enc = first.lower()
    want, badb = whole_input_oracle(strip_bom_oracle(data), enc, mode, piece)
    if badb:
        return (f"the conversion of byte(s) {[hex(b) for b in badb]} does not denote their Windows-1252 character",
                "each byte 0x80-0x9F replaced by a reference to / substitute for its cp1252 character")
    if u != want or repl:
        return ("bytes 0x80-0x9F were not converted as requested (result is not the in-order concatenation of each byte's conversion)", want)
    return None


_LIMIT = {}


def limited(ctx, what, stream, **kw):
    """At most 3 reported violations per random stream (the exhaustive streams report everything)."""
    _LIMIT[stream] = _LIMIT.get(stream, 0) + 1
    ctx.count(f"violations:{stream}")
    if _LIMIT[stream] <= 3:
        ctx.violation(what, stream=stream, **kw)


# ----------------------------------------------------------------------------------------------
# generators
# ----------------------------------------------------------------------------------------------
INTERESTING_CPS = [0x00, 0x41, 0x7F, 0x80, 0xA0, 0xE9, 0xFF, 0x100, 0x7FF, 0x800, 0xFFF, 0x1000, 0x20AC, 0xD7FF, 0xE000, 0xFFFD,
                   0xFFFF, 0x10000, 0x1F600, 0x3FFFF, 0x40000, 0xFFFFF, 0x100000, 0x10FFFF]


def rand_scalar(r):
    k = r.random()
    if k < 0.35:
        return r.randrange(0x20, 0x7F)
    if k < 0.5:
        return r.randrange(0x80, 0x800)
    if k < 0.7:
        c = r.randrange(0x800, 0x10000)
        return c if is_scalar(c) else 0x4E2D
    if k < 0.85:
        return r.randrange(0x10000, 0x110000)
    return r.choice(INTERESTING_CPS)


def rand_smart_input(r):
    """ASCII + smart bytes + other high bytes; first byte an ASCII letter (no BOM), never '<'."""
    n = r.randrange(1, 14)
    out = [r.choice(b"abcXYZ")]
    for _ in range(n):
        k = r.random()
        if k < 0.4:
            out.append(r.randrange(0x80, 0xA0))
        elif k < 0.6:
            out.append(r.choice(b"az &;#x09\n"))
        elif k < 0.8:
            out.append(r.randrange(0xA0, 0x100))
        elif k < 0.9:
            out += list(chr(rand_scalar(r)).encode("utf-8"))      # sometimes valid UTF-8 (second candidate)
        else:
            out.append(r.randrange(0x20, 0x7F) if r.random() < 0.9 else r.randrange(0, 0x20))
    return bytes(b for b in out if b != 0x3C)


BOMS = [b"\xef\xbb\xbf", b"\xff\xfe", b"\xfe\xff", b"\x00\x00\xfe\xff", b"\xff\xfe\x00\x00", b"\xff", b"\xfe", b"\xef\xbb", b"\x00\x00"]


def rand_doc(r):
    """A document for the constructor: maybe a byte-order mark (or a near miss), maybe an XML declaration naming an
    encoding in some spelling, maybe tags, then text with smart bytes. Any byte may occur."""
    out = b""
    if r.random() < 0.2:
        out += r.choice(BOMS)
    if r.random() < 0.25:
        q = r.choice(["\"", "'"])
        out += (r.choice(["", " ", "\n"]) + "<?xml version=" + q + "1.0" + q + " encoding=" + q + r.choice(SPELLINGS) + q + "?>").encode()
    if r.random() < 0.3:
        out += r.choice([b"<p>", b"<a b='", b"<!--", b"<", b"<meta charset=iso-8859-2>"])
    body = rand_smart_input(r) if r.random() < 0.8 else bytes(r.randrange(256) for _ in range(r.randrange(0, 10)))
    if r.random() < 0.5 and out:
        body = body[1:]          # drop the leading ASCII letter rand_smart_input puts in
    return out + body


def rand_call(r):
    k = r.random()
    if k < 0.72:
        known = [r.choice(SPELLINGS)]
        if r.random() < 0.2:
            known.append(r.choice(SPELLINGS))
        data = rand_doc(r) or b"\x93"
        c = {"k": "ud", "b": list(data), "known": known, "mode": r.choice(MODES)}
        q = r.random()
        if q < 0.35:
            c["form"] = r.choice(UD_FORMS[1:])
        if r.random() < 0.12:
            c["override"] = [r.choice(SPELLINGS)]
            if r.random() < 0.5:
                c["known"] = None
        if r.random() < 0.12:
            c["user"] = [r.choice(SPELLINGS)]
            if r.random() < 0.6:
                c["known"] = None
        if r.random() < 0.08:
            c["known"] = None               # the default route: utf-8, then windows-1252
        return c
    if k < 0.86:
        enc = r.choice(SPELLINGS + [None, None])
        doc = (b"<meta charset=" + r.choice(SPELLINGS).encode() + b">" if r.random() < 0.6 else b"") + b"<p>" + rand_smart_input(r)
        return {"k": "soup", "b": list(doc), "enc": enc}
    if k < 0.94:
        return {"k": "det", "b": list(rand_garbage(r))}
    return {"k": "fc", "name": r.choice(SPELLINGS)}


def rand_garbage(r):
    n = r.randrange(0, 24)
    out = []
    for _ in range(n):
        k = r.random()
        if k < 0.25:
            out.append(r.randrange(0xC2, 0xF5))
        elif k < 0.5:
            out.append(r.randrange(0x80, 0xC0))
        elif k < 0.65:
            out.append(r.randrange(0xF5, 0x100))
        elif k < 0.75:
            out.append(r.choice([0xC0, 0xC1, 0xE0, 0xED, 0xF0, 0xF4, 0x81, 0x8D, 0x8F, 0x90, 0x9D, 0xFF]))
        elif k < 0.9:
            out += list(chr(rand_scalar(r)).encode("utf-8"))
        else:
            out.append(r.randrange(0, 0x80))
    return bytes(out)


def near_valid_utf8(r):
    s = "".join(chr(rand_scalar(r)) for _ in range(r.randrange(1, 6))).encode("utf-8")
    s = bytearray(s)
    for _ in range(r.randrange(0, 3)):
        if not s:
            break
        i = r.randrange(len(s))
        k = r.random()
        if k < 0.4:
            s[i] = r.choice([0x7F, 0x80, 0x8F, 0x90, 0x9F, 0xA0, 0xBF, 0xC0, 0xC1, 0xC2, 0xDF, 0xE0, 0xED, 0xEF, 0xF0, 0xF4, 0xF5, 0xFF])
        elif k < 0.7:
            del s[i]
        else:
            s.insert(i, r.randrange(0x80, 0x100))
    return bytes(s)


# ----------------------------------------------------------------------------------------------
def run(ctx: Ctx):
    from bs4.dammit import UnicodeDammit as U
    ctx.rule = ("smart quotes: a case is non-trivial when the (BOM-stripped) input holds at least one byte 0x80-0x9F, a mode is set and the first "
                "known encoding is a documented carrier in any letter case (distinct (bytes, known, mode)); histories: every call after the first; detwingle: the input holds at least one multi-byte character (identity cases) or at "
                "least one convertible byte next to UTF-8 text (embedded cases); garbage/decoder streams count as correspondence only")
    ctx.assumptions = [
        "chardet/charset_normalizer absent; user_encodings/exclude_encodings empty; what find_declared_encoding returns is passed to the model "
        "as a parameter (the theorems hold for every value of it)",
        "CPython's single-byte decoders (cp1252, iso8859-1, iso8859-2, iso8859-5, ascii, mac-roman) and its codec registry on a finite universe "
        "of spellings are taken as generated tables; cases decided by other codecs are counted as 'model-does-not-decide'; "
        "CPython's utf-8 codec is compared with the Lean decoder on every decoder/garbage case",
        "'un-escaping' = html.unescape (and, for xml mode, the reference must be a numeric &#xH; reference)",
    ]
    import bs4.dammit as dm
    if getattr(dm, "chardet_module", None) is not None or getattr(dm, "_chardet_dammit", lambda s: None)(b"abc") is not None:
        ctx.notes.append("a character detection library is importable: fallback cases may differ from the model's candidate order")
    _LIMIT.clear()
    drv = Driver()
    lean_broken = ctx.lean is not None and not ctx.lean.ok
    if lean_broken:
        ctx.notes.append("Lean obligations did not build: the exhaustive table oracles below are the search for a failing input")

    car = carriers()
    lines, impl, cases = [], [], []
    single = {}

    def piece(b, enc, mode):
        key = (b, enc, mode)
        if key not in single:
            single[key] = real_markup(bytes([b]), enc, mode)[0]
        return single[key]

    # ---------------- H. histories: calls in ONE process vs the same call in a pristine process ------------------------------
    # (run first, and in forked children of a freshly imported bs4, so that nothing this check does earlier can mask or
    #  cause a dependence on history)
    r = ctx.rng("history")
    hists = [v["case"]["calls"] for v in (json.load(open(f)) for f in sorted((CORPUS / "C19").glob("*.json"))) if v["case"].get("op") == "history"]
    ctx.count("corpus:history", len(hists))
    # systematic: every spelling once before each canonical carrier name (and the reverse order)
    for sp in SPELLINGS:
        for canon in DOCUMENTED_CARRIERS:
            mode = r.choice(MODES[1:])
            a = {"k": "ud", "b": [0x61, 0x93, 0x80 + r.randrange(32)], "known": [sp], "mode": r.choice(MODES)}
            b_ = {"k": "ud", "b": [0x93, 0x9F, 0x62], "known": [canon], "mode": mode}
            hists.append([a, b_] if r.random() < 0.7 else [b_, a, dict(b_, known=[sp])])
    # every ordered pair of modes on the same carrier (a conversion remembered from an earlier call would show), through
    # UnicodeDammit twice and with a BeautifulSoup document in between
    for canon in DOCUMENTED_CARRIERS:
        for m1 in MODES:
            for m2 in MODES:
                a = {"k": "ud", "b": [0x61, 0x91 + r.randrange(4), 0x85], "known": [canon], "mode": m1}
                b_ = {"k": "ud", "b": [0x93, 0x80 + r.randrange(32), 0x62], "known": [r.choice([canon, canon.upper()])], "mode": m2}
                mid = {"k": "soup", "b": list(b"<meta charset=" + canon.encode() + b"><p>\x93"), "enc": r.choice([None, canon])}
                hists.append([a, b_] if r.random() < 0.5 else [a, mid, b_])
    # the other routes and call forms: an earlier call with override_encodings / user_encodings / a caller-owned list, then
    # calls that give no known encoding (default route: utf-8 then windows-1252) or only user_encodings; every call form
    for ov in ["latin-1", "iso-8859-5", "windows_1252", "utf-8", "ISO-8859-2"]:
        for form in UD_FORMS:
            first = {"k": "ud", "b": [0x61, 0x93, 0xE9], "known": r.choice([None, None, ["ascii"]]), "override": [ov], "mode": r.choice(MODES), "form": form}
            later = [{"k": "ud", "b": [0x93, 0x80 + r.randrange(32)], "known": None, "mode": m} for m in r.sample(MODES, 2)]
            later.append({"k": "ud", "b": [0x93, 0x9F, 0x62], "known": None, "user": [r.choice(DOCUMENTED_CARRIERS)], "mode": r.choice(MODES[1:])})
            later.append({"k": "ud", "b": [0x85, 0x62], "known": [r.choice(DOCUMENTED_CARRIERS)], "mode": r.choice(MODES[1:]), "form": r.choice(UD_FORMS)})
            hists.append([first] + later)
    # detwingle several times in one process (chunks or positions remembered from an earlier call would show)
    for _ in range(ctx.n(40, 300)):
        hists.append([{"k": "det", "b": list(r.choice([rand_garbage(r), b"a\x93b", b"\xe2\x82\xac\x80", "caf\u00e9".encode(), b"\x93"]))}
                      for _ in range(r.randrange(2, 5))])
    for _ in range(ctx.n(150, 1500)):
        hists.append([rand_call(r) for _ in range(r.randrange(2, 7))])
    uniq = {}
    for h in hists:
        for c in h:
            uniq.setdefault(json.dumps(c, sort_keys=True), c)
    # the spelling grid: every spelling x every mode x a few inputs, each in a pristine process
    for v in (json.load(open(f)) for f in sorted((CORPUS / "C19").glob("*.json"))):
        if v["case"].get("op") == "ud":
            c = {k: x for k, x in v["case"].items() if k not in ("op", "line")}
            uniq.setdefault(json.dumps(c, sort_keys=True), c)
    for sp in SPELLINGS:
        for mode in MODES:
            for data in (b"\x93", b"a\x80\x9fz", b"\xef\xbb\xbf<p>\x85", b"\x81\xe9", b"\xef\xbb\xbf", b"\xff\xfe"):
                c = {"k": "ud", "b": list(data), "known": [sp], "mode": mode}
                uniq.setdefault(json.dumps(c, sort_keys=True), c)
    for enc in DOCUMENTED_CARRIERS:
        for mode in MODES[1:]:
            for b in range(0x80, 0xA0):
                c = {"k": "ud", "b": [b], "known": [enc], "mode": mode}
                uniq.setdefault(json.dumps(c, sort_keys=True), c)
    # every call form x mode x carrier (how the mode and the encodings are passed must not matter), the user_encodings
    # route, the override_encodings route and the default route
    for mode in MODES:
        for data in (b"\x93", b"a\x80\x9f\xe9z"):
            for enc in DOCUMENTED_CARRIERS + ["ISO-8859-1"]:
                for form in UD_FORMS:
                    c = {"k": "ud", "b": list(data), "known": [enc], "mode": mode, "form": form}
                    uniq.setdefault(json.dumps(c, sort_keys=True), c)
                for extra in ({"user": [enc], "known": None}, {"override": [enc], "known": None}, {"override": [enc], "known": ["ascii"]},
                              {"user": ["latin-1"], "known": [enc]}, {"known": [enc, "latin-1"], "override": ["utf-8"]}):
                    for form in ("kw", "pos3", "allkw"):
                        c = {"k": "ud", "b": list(data), "known": [enc], "mode": mode, "form": form, **extra}
                        uniq.setdefault(json.dumps(c, sort_keys=True), c)
            for form in ("kw", "pos3", "allkw"):
                c = {"k": "ud", "b": list(data), "known": None, "mode": mode, "form": form}
                uniq.setdefault(json.dumps(c, sort_keys=True), c)
    keys = list(uniq)
    fresh = dict(zip(keys, [x[0] for x in pristine([[uniq[k]] for k in keys])]))

    def fresh_piece(b, enc, mode):
        """conversion of the single byte b in a pristine process (so that state left by earlier calls cannot reach the oracle)"""
        res = fresh[json.dumps({"k": "ud", "b": [b], "known": [enc], "mode": mode}, sort_keys=True)]
        return None if isinstance(res, dict) else res[0]

    hres = pristine(hists)
    ctx.count("history:histories", len(hists))
    ctx.count("history:pristine-single-calls", len(keys))
    nbad = 0
    for h, res in zip(hists, hres):
        for i, (c, got) in enumerate(zip(h, res)):
            want = fresh[json.dumps(c, sort_keys=True)]
            ctx.case(("H", json.dumps(h[:i + 1], sort_keys=True)) if i > 0 else None)
            ctx.count(f"history:call:{c['k']}")
            if c["k"] == "ud" and i > 0:
                bad = ud_call_oracle(c, got, fresh_piece) or markup_attr_oracle(c, got) or args_oracle(c, got)
                if bad and (ud_call_oracle(c, want, fresh_piece) or markup_attr_oracle(c, want) or args_oracle(c, want)):
                    bad = None      # the same call fails on its own: reported, minimal, by the pristine-ud stream below
                if bad:
                    limited(ctx, bad[0] + " (after earlier calls in the same process)", stream="history-oracle",
                            case={"op": "history", "calls": h[:i + 1]}, expected=bad[1], observed=got if isinstance(got, dict) else got[0])
            if got != want:
                nbad += 1
                if nbad <= 3:
                    # shrink to one earlier call + the affected call if that reproduces
                    minimal = h[:i + 1]
                    for j in range(i):
                        two = pristine([[h[j], c]])[0]
                        if two[1] != want:
                            minimal = [h[j], c]
                            got = two[1]
                            break
                    ctx.violation("the result of a call depends on earlier calls in the same process", stream="history",
                                  case={"op": "history", "calls": minimal}, expected=want, observed=got)
    spelling_obs = {}
    for k in keys:
        c, res = uniq[k], fresh[k]
        if c["k"] != "ud":
            continue
        known, mode, data = c.get("known"), c["mode"], bytes(c["b"])
        nontriv = call_nontrivial(c)
        ctx.case(("U", k) if nontriv else None)
        ctx.count("pristine-ud:" + ("carrier-spelling+mode+smart" if nontriv else "other"))
        ctx.count("pristine-ud:form:" + c.get("form", "kw") + ("+override" if c.get("override") else "") + ("+user" if c.get("user") else "")
                  + ("+no-known" if known is None else ""))
        if isinstance(res, dict):
            ctx.violation("the constructor raised " + res.get("exc", "?"), stream="pristine-ud", case={"op": "ud", **c},
                          expected="a result", observed=res)
            continue
        bad = ud_call_oracle(c, res, fresh_piece)
        if bad:
            limited(ctx, bad[0], stream="pristine-ud", case={"op": "ud", **c}, expected=bad[1], observed=res[0])
        bad = markup_attr_oracle(c, res) or args_oracle(c, res)
        if bad:
            limited(ctx, bad[0], stream="pristine-ud", case={"op": "ud", **c}, expected=bad[1], observed=res[3])
        lines.append(call_line(c)); impl.append(show_dammit(*res[:3])); cases.append({"op": "ud", **c})
        # record what the code does with spellings the property does not name
        if len(data) == 1 and mode == "xml" and known and c.get("form", "kw") == "kw" and not c.get("override") and not c.get("user") and not expected_carrier(known[0]):
            spelling_obs[known[0]] = {"find_codec->original_encoding": res[2], "converted": res[0] != data.decode("latin-1") and "&" in (res[0] or "")}
    ctx.extra["spellings_outside_the_documented_three"] = spelling_obs

    # ---------------- F. find_codec on the whole generated universe of spellings; strip_byte_order_mark -----------------------
    import importlib, sys as _sys
    from .common import VERIF
    if str(VERIF / "translate") not in _sys.path:
        _sys.path.insert(0, str(VERIF / "translate"))
    universe = importlib.import_module("parts_c19").name_universe()
    from bs4.dammit import EncodingDetector
    flines, fimpl, fcases = [], [], []
    probe = U(b"x")
    for name in universe:
        got = probe.find_codec(name)
        flines.append(f"c19 findcodec {S(name)}")
        fimpl.append(f"{'none' if got is None else 'some ' + S(got)} listed=1 carrier={1 if got in U.ENCODINGS_WITH_SMART_QUOTES else 0}")
        fcases.append({"op": "findcodec", "name": name})
        ctx.case(None)
        ctx.count("findcodec:" + ("carrier" if got in U.ENCODINGS_WITH_SMART_QUOTES else "other"))
        # the documented names, in any letter case, must be recognised as carriers
        if expected_carrier(name) and got not in DOCUMENTED_CARRIERS:
            ctx.violation(f"find_codec({name!r}) = {got!r}: a documented smart-quote encoding is not recognised", stream="findcodec",
                          case={"op": "findcodec", "name": name}, expected=name.lower(), observed=got)
    r = ctx.rng("bom")
    for i in range(ctx.n(600, 6000)):
        data = r.choice(BOMS + [b""]) + bytes(r.choice([0, 0, 0xFE, 0xFF, 0xEF, 0xBB, 0xBF, 0x93, 0x41]) for _ in range(r.randrange(0, 5)))
        got, enc = EncodingDetector.strip_byte_order_mark(data)
        flines.append(f"c19 stripbom {L(data)}")
        fimpl.append(f"{L(got)} {'none' if enc is None else 'some ' + S(enc)}")
        fcases.append({"op": "stripbom", "bytes": list(data)})
        ctx.case(None)
        ctx.count("stripbom:" + ("stripped" if enc else "none"))
        if got != strip_bom_oracle(data):
            ctx.violation("strip_byte_order_mark differs from the documented byte-order marks", stream="stripbom",
                          case={"op": "stripbom", "bytes": list(data)}, expected=list(strip_bom_oracle(data)), observed=list(got))
    for l, a, m, c in zip(flines, fimpl, drv.ask(flines), fcases):
        if a != m:
            ctx.corr_disagreements += 1
            limited(ctx, "model and implementation disagree (" + c["op"] + ")", case=c | {"line": l}, observed=a, model=m,
                    stream="findcodec-correspondence", no_failing_input=True)

    # ---------------- A. exhaustive: 32 bytes x 4 modes x (carriers + non-carriers), alone and in context ------------------
    encs = car + [e for e in NON_CARRIERS if e not in car]
    undefined_record = {}
    for enc in encs:
        for mode in MODES:
            for b in range(0x80, 0xA0):
                data = bytes([b])
                u, repl, o_u = real_dammit(data, [enc], mode)
                lines.append(dammit_line(data, [enc], mode)); impl.append(show_dammit(u, repl, o_u))
                case = {"op": "smart", "enc": enc, "mode": mode, "bytes": list(data)}
                cases.append(case)
                nontriv = enc in car and mode is not None
                ctx.case(("A", enc, mode, b) if nontriv else None,
                         sample={"enc": enc, "mode": mode, "byte": hex(b), "unicode_markup": u} if nontriv and b in (0x93, 0x9F) and enc == car[0] else None)
                ctx.count(f"smart:{'carrier' if enc in car else 'non-carrier'}:{mode}")
                if enc in car:
                    ok, want = smart_oracle(b, enc, mode, u)
                    if ok is None:
                        undefined_record.setdefault(hex(b), {})[f"{enc}/{mode}"] = u
                        ctx.count("smart:undefined-in-cp1252")
                    elif not ok:
                        ctx.violation(f"byte {hex(b)} with smart_quotes_to={mode!r} under {enc}: output does not denote the byte's character",
                                      case=case, expected=want, observed=u, stream="smart-exhaustive")
                else:
                    # a non-carrier encoding: the mode must make no difference (plain decoding / fallback chain)
                    u0, repl0, o_u0 = real_dammit(data, [enc], None)
                    if enc != "cp1252" and (u, repl) != (u0, repl0):
                        # (for 'cp1252' the fallback candidate 'windows-1252' is itself a carrier, so a mode may show after a failed strict decode)
                        ctx.violation(f"non-carrier encoding {enc}: smart_quotes_to={mode!r} changed the result", case=case,
                                      expected=u0, observed=u, stream="smart-exhaustive")
                # in context: the surrounding text is untouched
                if enc in car and mode is not None:
                    for pre, post in ((b"a", b"z"), (b"q&amp;", b";1"), (data, b""), (b"\x93", b"\x94")):
                        d2 = pre + data + post
                        u2, repl2, o_u2 = real_dammit(d2, [enc], mode)
                        lines.append(dammit_line(d2, [enc], mode)); impl.append(show_dammit(u2, repl2, o_u2))
                        c2 = {"op": "smart", "enc": enc, "mode": mode, "bytes": list(d2)}
                        cases.append(c2)
                        ctx.case(("A2", enc, mode, d2))
                        want2 = whole_input_oracle(d2, enc, mode, piece)[0]
                        if u is not None and u2 != want2:
                            ctx.violation("in context: the result is not the in-order concatenation of each byte's conversion", case=c2,
                                          expected=want2, observed=u2, stream="smart-exhaustive")
    ctx.extra["undefined_cp1252_bytes_observed"] = undefined_record
    corpus = [json.load(open(f)) | {"file": f.name} for f in sorted((CORPUS / "C19").glob("*.json"))]
    for v in corpus:
        c = v["case"]
        if c.get("op") != "smart":
            continue
        data, enc, mode = bytes(c["bytes"]), c["enc"], c["mode"]
        u, repl, o_u = real_dammit(data, [enc], mode)
        lines.append(dammit_line(data, [enc], mode)); impl.append(show_dammit(u, repl, o_u)); cases.append(c)
        ctx.case(("corpus", v["file"]))
        ctx.count("corpus:smart")
        if enc in car and mode is not None:
            want, badb = whole_input_oracle(data, enc, mode, lambda b, e, m: real_markup(bytes([b]), e, m)[0])
            if u != want or badb:
                ctx.violation(f"corpus {v['file']}: " + (f"conversion of byte(s) {[hex(b) for b in badb]} does not denote their Windows-1252 character"
                                                         if badb else "result is not the in-order concatenation of each byte's conversion"),
                              case=c, expected=want if not badb else "each byte 0x80-0x9F replaced by a reference to its cp1252 character",
                              observed=u, stream="corpus")
    ctx.exhaustive_parts.append(f"smart quotes: 32 bytes x 4 modes x {len(encs)} encodings ({', '.join(encs)}), alone and (carriers) in four contexts")
    # long documents: many bytes 0x80-0x9F (17, 32, 33, 100, 1000), as one run with all 32 values cycling, scattered among
    # text, and one value repeated — every mode, every carrier (a substitution that stops after some count would show)
    r = ctx.rng("long-smart")
    for enc in car:
        for mode in MODES:
            for n in (17, 32, 33, 100, 1000) + ((5000,) if ctx.thorough else ()):
                cyc = bytes(0x80 + i % 32 for i in range(n))
                one = bytes([r.randrange(0x80, 0xA0)]) * n
                layouts = [cyc, b"".join(bytes([x]) + r.choice([b"a", b" b", b"&", b"\xe9", b"<p>"]) for x in cyc), b"x" + one + b"y"]
                for d in layouts:
                    u, repl, o_u = real_dammit(d, [enc], mode)
                    lines.append(dammit_line(d, [enc], mode)); impl.append(show_dammit(u, repl, o_u))
                    c = {"op": "smart", "enc": enc, "mode": mode, "bytes": list(d)}
                    cases.append(c)
                    ctx.case(("Along", enc, mode, n, d[:3]) if mode is not None else None)
                    ctx.count("smart:long")
                    if mode is not None:
                        want, badb = whole_input_oracle(d, enc, mode, piece)
                        if u != want or repl:
                            first = next((i for i, (x, y) in enumerate(zip(u or "", want)) if x != y), min(len(u or ""), len(want)))
                            limited(ctx, f"long input ({n} bytes 0x80-0x9F): result is not the in-order concatenation of each byte's conversion "
                                    f"(first difference at output offset {first})", case=c, expected=want, observed=u, stream="smart-long")

    # the un-escaper of the theorems vs html.unescape, on every reference the live table can emit
    ulines, uimpl, ucases = [], [], []
    for k, v in U.MS_CHARS.items():
        outs = []
        if type(v) is tuple:
            outs = ["&#x" + v[1] + ";", "&" + v[0] + ";"]
        else:
            outs = [v]
        for o in outs:
            un = html.unescape(o)
            is_ref = bool(XML_REF.match(o) or HTML_REF.match(o)) and len(un) == 1 and un != o
            ulines.append(f"c19 unescape {S(o) or '-'}")
            uimpl.append(f"some {ord(un)}" if is_ref else "none")
            ucases.append({"op": "unescape", "text": o})
    for b in range(0x80, 0xA0):
        ch = cp1252_char(b)
        ulines.append(f"c19 cp1252 {b}"); uimpl.append("none" if ch is None else f"some {ord(ch)}"); ucases.append({"op": "cp1252", "byte": b})
    for l, a, m, c in zip(ulines, uimpl, drv.ask(ulines), ucases):
        ctx.case(None)
        if a != m:
            ctx.corr_disagreements += 1
            ctx.violation("Lean un-escaper/cp1252 table disagrees with html.unescape/CPython", case=c | {"line": l}, observed=a, model=m,
                          stream="unescape-correspondence", no_failing_input=True)

    # ---------------- B. random whole inputs through UnicodeDammit --------------------------------------------------------
    ulines2, uimpl2, ucases2 = [], [], []
    r = ctx.rng("smart-random")
    nB = ctx.n(6000, 60000)
    for i in range(nB):
        data = rand_smart_input(r)
        enc = r.choice(encs) if r.random() < 0.25 else r.choice(car)
        mode = r.choice(MODES) if r.random() < 0.3 else r.choice(MODES[1:])
        u, repl, o_u = real_dammit(data, [enc], mode)
        lines.append(dammit_line(data, [enc], mode)); impl.append(show_dammit(u, repl, o_u))
        case = {"op": "smart", "enc": enc, "mode": mode, "bytes": list(data)}
        cases.append(case)
        has_smart = any(0x80 <= b <= 0x9F for b in data)
        nontriv = has_smart and mode is not None and enc in car
        ctx.case(("B", data, enc, mode) if nontriv else None,
                 sample={"enc": enc, "mode": mode, "bytes": data.hex(), "unicode_markup": u} if nontriv and i < 3 else None)
        ctx.count("smart-random:" + ("carrier+mode+smart" if nontriv else "other"))
        if repl:
            ctx.count("smart-random:fallback-with-replacement")
        if enc in car and mode is not None:
            want, badb = whole_input_oracle(data, enc, mode, piece)
            if u != want or repl:
                limited(ctx, "whole input: result is not the in-order concatenation of each byte's conversion", case=case,
                        expected=want, observed=u, stream="smart-random")
            elif badb:
                limited(ctx, f"whole input: the conversion of byte(s) {[hex(b) for b in badb]} does not denote their Windows-1252 character",
                        case=case, expected="each byte 0x80-0x9F replaced by a reference to its cp1252 character", observed=u,
                        stream="smart-random")
            # the whole-string clause: un-escaping the result gives the characters (inputs without a literal '&' whose
            # bytes 0x80-0x9F are all defined in Windows-1252)
            if mode in ("xml", "html") and 0x26 not in data and all(cp1252_char(b) is not None for b in data if 0x80 <= b <= 0x9F) and u is not None:
                meant = "".join(cp1252_char(b) if 0x80 <= b <= 0x9F else bytes([b]).decode(enc) for b in data)
                ctx.count("smart-random:unescape-whole")
                if html.unescape(u) != meant:
                    limited(ctx, "un-escaping the converted text does not give the characters of the input", case=case,
                            expected=meant, observed=html.unescape(u), stream="smart-random")
                ulines2.append(f"c19 unescapeall {S(u)}"); uimpl2.append(S(html.unescape(u))); ucases2.append({"op": "unescapeall", "text": u})
    rep = drv.ask(ulines2)
    for l, a, m, c in zip(ulines2, uimpl2, rep, ucases2):
        if a != m:
            ctx.corr_disagreements += 1
            limited(ctx, "Lean unescapeAll disagrees with html.unescape on a converted text", case=c | {"line": l}, observed=a, model=m,
                    stream="unescape-correspondence", no_failing_input=True)

    # ---------------- B2. random constructor calls: byte-order marks, declarations, tags, spellings, two known encodings ----
    r = ctx.rng("ud-random")
    for i in range(ctx.n(4000, 40000)):
        c = rand_call(r)
        while c["k"] != "ud":
            c = rand_call(r)
        data, known, mode = bytes(c["b"]), c.get("known"), c["mode"]
        try:
            with warnings.catch_warnings():
                warnings.simplefilter("ignore")
                res = ud_invoke(U, c)
        except Exception as e:
            limited(ctx, f"the constructor raised {type(e).__name__}", stream="ud-random", case={"op": "ud", **c}, expected="a result", observed=repr(e))
            continue
        nontriv = call_nontrivial(c)
        ctx.count("ud-random:form:" + c.get("form", "kw"))
        ctx.case(("B2", json.dumps(c, sort_keys=True)) if nontriv else None)
        ctx.count("ud-random:" + ("carrier-spelling+mode+smart" if nontriv else "other"))
        if strip_bom_oracle(data) != data:
            ctx.count("ud-random:bom-stripped")
        if b"<" in data:
            ctx.count("ud-random:has-lt")
        if declared_of(data):
            ctx.count("ud-random:declares-encoding")
        bad = ud_call_oracle(c, res, piece) or markup_attr_oracle(c, res) or args_oracle(c, res)
        if bad:
            limited(ctx, bad[0], stream="ud-random", case={"op": "ud", **c}, expected=bad[1], observed=res[0])
        lines.append(call_line(c)); impl.append(show_dammit(*res[:3])); cases.append({"op": "ud", **c})
    # correspondence for A + B
    rep = drv.ask(lines)
    nd = 0
    for l, a, m, c in zip(lines, impl, rep, cases):
        agree = model_agrees(a, m)
        if agree is None:
            ctx.count("smart:model-does-not-decide")
        elif not agree:
            nd += 1
            ctx.corr_disagreements += 1
            already = any(v["case"] == c for v in ctx.violations)
            if not already and nd <= 10:
                ctx.violation("model and implementation disagree (UnicodeDammit conversion)", case=c | {"line": l}, observed=a, model=m,
                              stream="smart-correspondence", no_failing_input=True)
    ctx.count("smart:requests", len(lines))

    # ---------------- C. detwingle ------------------------------------------------------------------------------------------
    conv = convertible_bytes()
    ctx.extra["convertible_bytes"] = [hex(b) for b in conv]
    tbl = U.WINDOWS_1252_TO_UTF8
    lo, hi = U.FIRST_MULTIBYTE_MARKER, U.LAST_MULTIBYTE_MARKER
    ctx.extra["table_entries_wrong_but_unreachable"] = {
        hex(b): v.hex() for b, v in sorted(tbl.items())
        if lo <= b <= hi and (cp1252_char(b) is None or v != cp1252_char(b).encode("utf-8"))}
    ctx.extra["cp1252_bytes_without_entry"] = [hex(b) for b in range(0x80, 0x100) if b not in tbl and cp1252_char(b) is not None]

    # C0. exhaustive over the table (also the search when a Lean obligation broke): every byte 0x80-0xFF alone in ASCII context
    dl, di, dc = [], [], []

    def det_case(data: bytes, stream, key=None, expect_text=None, pieces=None, sample=False):
        out = real_detwingle(data)
        case = {"op": "detwingle", "bytes": list(data)}
        if pieces is not None:
            case["pieces"] = pieces
        ctx.case(key, sample={"in": data.hex(), "out": out.hex()} if sample else None)
        if expect_text is not None:
            got = py_utf8_decode(out)
            if got != expect_text:
                report = (lambda what, **kw: ctx.violation(what, **kw)) if stream == "detwingle-table" else (lambda what, **kw: limited(ctx, what, **kw))
                report("detwingle: result is not the UTF-8 of the text with each embedded byte replaced by its Windows-1252 character"
                       if got is not None else "detwingle: result is not valid UTF-8",
                       case=case, expected=expect_text.encode("utf-8", "surrogatepass").hex(), observed=out.hex(), stream=stream)
        dl.append(f"c19 detwingle {L(data)}"); di.append(f"impl={show_opt_bytes(out)} spec={show_opt_bytes(out)}"); dc.append(case)
        if pieces is not None:
            dl.append("c19 pieces " + ",".join(pieces))
            di.append(f"ok=1 src={L(data)} out={L(out)}"); dc.append(case)
        return out

    for data in (b"", b"a", b"\x00", b"plain ascii"):
        try:
            det_case(data, "detwingle-table", expect_text=data.decode())
        except Exception as e:
            ctx.violation(f"detwingle raised {type(e).__name__} on a byte string", case={"op": "detwingle", "bytes": list(data)},
                          expected="a bytes result", observed=repr(e), stream="detwingle-table")
    for b in range(0x80, 0x100):
        data = b"a" + bytes([b]) + b"z"
        if b in conv:
            det_case(data, "detwingle-table", key=("C0", b), expect_text="a" + cp1252_char(b) + "z" if cp1252_char(b) else "\0never",
                     pieces=["c97", f"b{b}", "c122"])
            ctx.count("detwingle:table-byte-convertible")
        else:
            out = det_case(data, "detwingle-table")
            ctx.count("detwingle:table-byte-not-convertible")
            if lo <= b <= hi:
                pass  # taken as a lead byte: outside the claim (skips the following bytes)
            elif out != data:
                ctx.violation("detwingle changed a byte that has no table entry", case={"op": "detwingle", "bytes": list(data)},
                              expected=data.hex(), observed=out.hex(), stream="detwingle-table")
    dl += [f"c19 convertible {b}" for b in range(0x80, 0x100)]
    di += [f"{1 if b in conv else 0} marker={1 if lo <= b <= hi else 0}" for b in range(0x80, 0x100)]
    dc += [{"op": "convertible", "byte": b} for b in range(0x80, 0x100)]
    ctx.exhaustive_parts.append("detwingle: every byte 0x80-0xFF embedded in ASCII context")

    # C1. every Unicode scalar value as UTF-8 is unchanged (thorough: all; quick: stride + boundaries), singly and in runs
    stride = 1 if ctx.thorough else 23
    off = 0 if ctx.thorough else ctx.rng("stride").randrange(stride)
    scal = [c for c in range(off, 0x110000, stride) if is_scalar(c)]
    if not ctx.thorough:
        scal = sorted(set(scal) | {c for c in INTERESTING_CPS if is_scalar(c)} | set(range(0, 0x100)) | set(range(0x7F0, 0x810)) | set(range(0xFFF0, 0x10010)))
    bad = 0
    for c in scal:
        e = chr(c).encode("utf-8")
        if real_detwingle(e) != e:
            bad += 1
            if bad <= 5:
                ctx.violation(f"detwingle changed the valid UTF-8 encoding of U+{c:04X}", case={"op": "detwingle", "bytes": list(e)},
                              expected=e.hex(), observed=real_detwingle(e).hex(), stream="detwingle-scalars")
    ctx.evaluations += len(scal)
    ctx.count("detwingle:scalar-singly", len(scal))
    ctx.nontrivial.update(0x1000000 + c for c in scal if c >= 0x80)   # int keys: one per multi-byte scalar value
    run_len = 64
    for i in range(0, len(scal), run_len):
        chunk = scal[i:i + run_len]
        e = "".join(map(chr, chunk)).encode("utf-8")
        det_case(e, "detwingle-scalars", key=("C1run", i), expect_text="".join(map(chr, chunk)), sample=(i == run_len * 40))
    ctx.count("detwingle:scalar-runs", (len(scal) + run_len - 1) // run_len)
    (ctx.exhaustive_parts.append if ctx.thorough else ctx.notes.append)(
        f"detwingle identity: {'all' if ctx.thorough else 'every ' + str(stride) + 'th (+ boundaries) of the'} 1,112,064 scalar values, each alone and in runs of {run_len}"
        + ("" if ctx.thorough else f" = {len(scal)} values"))

    # C2. interleavings: UTF-8 text with convertible bytes; every convertible byte in several positions
    r = ctx.rng("interleave")

    def interleaving(force=None):
        n = r.randrange(1, 9)
        ps = []
        for _ in range(n):
            if r.random() < 0.4:
                ps.append(("b", r.choice(conv)))
            else:
                ps.append(("c", rand_scalar(r)))
        if force is not None:
            ps.insert(r.randrange(len(ps) + 1), ("b", force))
        return ps

    def run_pieces(ps, stream, idx):
        data = b"".join(bytes([v]) if k == "b" else chr(v).encode("utf-8") for k, v in ps)
        text = "".join(cp1252_char(v) if k == "b" else chr(v) for k, v in ps)
        has_b = any(k == "b" for k, _ in ps)
        has_mb = any(k == "c" and v >= 0x80 for k, v in ps)
        ctx.count(f"detwingle:interleaving:{'emb' if has_b else 'noemb'}+{'multibyte' if has_mb else 'ascii'}")
        det_case(data, stream, key=("C2", data) if has_b else None, expect_text=text, pieces=[f"{k}{v}" for k, v in ps], sample=(idx < 2))

    for v in corpus:
        c = v["case"]
        if c.get("op") == "detwingle" and "pieces" in c:
            ps = [(p[0], int(p[1:])) for p in c["pieces"]]
            if all((k == "b" and v_ in conv) or (k == "c" and is_scalar(v_)) for k, v_ in ps):
                run_pieces(ps, "corpus", 99)
                ctx.count("corpus:detwingle")
    if conv:
        for b in conv:
            for j in range(ctx.n(3, 12)):
                run_pieces(interleaving(force=b), "detwingle-interleave", 99)
            run_pieces([("b", b)], "detwingle-interleave", 99)
            run_pieces([("b", b), ("b", b)], "detwingle-interleave", 99)
            run_pieces([("c", 0x20AC), ("b", b), ("c", 0x1F600)], "detwingle-interleave", 99)
        for i in range(ctx.n(3000, 40000)):
            run_pieces(interleaving(), "detwingle-interleave", i)
        # every ordered pair of embeddable bytes at offset 0 (some pairs look like a UTF-16/32 byte-order mark), alone and
        # followed by text / by two NULs
        tails = [[], [("c", ord(ch)) for ch in "plain"], [("c", 0), ("c", 0), ("c", 0x41)], [("c", 0x20AC)]]
        k = 0
        for b1 in conv:
            for b2 in conv:
                run_pieces([("b", b1), ("b", b2)], "detwingle-pairs", 99)
                k += 1
                run_pieces([("b", b1), ("b", b2)] + tails[1 + k % 3], "detwingle-pairs", 99)
        ctx.exhaustive_parts.append(f"detwingle: all {len(conv)}x{len(conv)} ordered pairs of embeddable bytes at offset 0, alone and followed by text")
        # long inputs: many embedded bytes (more than 16, more than 256), runs and scattered, every embeddable value repeated
        r2 = ctx.rng("long-detwingle")
        for n in (17, 33, 100, 257, 1000) + ((5000,) if ctx.thorough else ()):
            cyc = [("b", conv[i % len(conv)]) for i in range(n)]
            run_pieces(cyc, "detwingle-long", 99)                                                    # one run, all values cycling
            run_pieces([x for p_ in cyc for x in (p_, ("c", rand_scalar(r2)))], "detwingle-long", 99)   # scattered among text
            run_pieces([("c", 0x41)] + [("b", r2.choice(conv))] * n + [("c", 0x1F600)], "detwingle-long", 99)  # one value repeated
            ctx.count("detwingle:long", 3)

    # C3. arbitrary bytes: pure correspondence (the real code never raises; truncated sequences are copied)
    r = ctx.rng("garbage")
    for i in range(ctx.n(4000, 50000)):
        data = rand_garbage(r)
        try:
            out = det_case(data, "detwingle-garbage")
            # the all-inputs clauses, directly on the real code
            again = real_detwingle(out)
            if again != out:
                limited(ctx, "detwingle is not idempotent", stream="detwingle-garbage", case={"op": "detwingle", "bytes": list(data), "clause": "idempotent"},
                        expected=out.hex(), observed=again.hex())
            if not replaced_only(data, out, conv):
                limited(ctx, "detwingle altered something other than an embedded Windows-1252 byte", stream="detwingle-garbage",
                        case={"op": "detwingle", "bytes": list(data), "clause": "replaced-only"}, expected="input with embeddable bytes replaced", observed=out.hex())
            valid = py_utf8_decode(out) is not None
            if valid != parses_as_text_with_embedded_bytes(data, conv):
                limited(ctx, "detwingle: output validity does not match 'input is UTF-8 text with embedded Windows-1252 bytes'", stream="detwingle-garbage",
                        case={"op": "detwingle", "bytes": list(data), "clause": "valid-iff"}, expected=f"valid UTF-8: {not valid}", observed=out.hex())
            ctx.count("detwingle:garbage:" + ("output-valid" if valid else "output-invalid"))
        except Exception as e:  # the real code is total on bytes; anything else is a finding
            ctx.violation(f"detwingle raised {type(e).__name__} on a byte string", case={"op": "detwingle", "bytes": list(data)},
                          expected="a bytes result", observed=repr(e), stream="detwingle-garbage")
        ctx.count("detwingle:garbage")
    # argument forms: bytearray / memoryview give the same bytes
    for data in [b"a\x93b", b"\xe2\x82\xac", b"plain", b"\x80\xff\xc0", b""]:
        want = real_detwingle(data)
        for form in (bytearray, memoryview):
            try:
                got = bytes(U.detwingle(form(data)))
            except Exception as e:
                got = repr(e)
            ctx.case(None)
            ctx.count("detwingle:argform:" + form.__name__)
            if got != want:
                ctx.violation(f"detwingle({form.__name__}) differs from detwingle(bytes)", case={"op": "detwingle", "bytes": list(data), "form": form.__name__},
                              expected=want.hex(), observed=got if isinstance(got, str) else got.hex(), stream="detwingle-argform")
    # argument checks: the optional encoding arguments. Accepted by the documentation/signature: main "utf8" (the default) or
    # "utf-8", embedded "windows-1252" (the default) with "_" for "-" (the library's own tests say "windows_1252"), all in any
    # letter case. For these every call form must return what the one-argument call returns (and so satisfy the property);
    # an exception from an accepted spelling is a failure of the property on that input. Other spellings: model only.
    def variants(name, n, rr):
        out = {name, name.upper(), name.title(), name.replace("-", "_"), name.replace("-", "_").upper(), name.replace("-", "_").title()}
        while len(out) < n:
            out.add("".join(ch.upper() if rr.random() < 0.5 else ch for ch in (name if rr.random() < 0.5 else name.replace("-", "_"))))
        return sorted(out)

    r = ctx.rng("detcall")
    emb_ok = variants("windows-1252", ctx.n(24, 120), r)
    main_ok = sorted({"utf8", "utf-8", "UTF8", "UTF-8", "Utf8", "Utf-8", "uTf-8", "utF8"})
    others = [("latin-1", "windows-1252"), ("utf8", "iso-8859-1"), ("utf8", "cp1252"), ("utf_8", "windows-1252"), ("utf8", "windows1252"),
              ("utf8", "latin-1"), ("utf-16", "windows-1252"), ("utf8", "WINDOWS 1252"), ("ascii", "windows_1252"), ("utf8", "CP1252")]
    datas = [b"a\x93", b"\xe2\x98\x83 caf\xc3\xa9", b"\xff\xfeplain", b"\x93\x94" * 20, b"", b"\xe2\x82", b"plain"]
    forms = {
        "positional": lambda d, m, e: U.detwingle(d, m, e),
        "keywords": lambda d, m, e: U.detwingle(d, main_encoding=m, embedded_encoding=e),
        "embedded-keyword-only": lambda d, m, e: U.detwingle(d, embedded_encoding=e),
        "main-keyword-only": lambda d, m, e: U.detwingle(d, main_encoding=m),
        "instance-call": lambda d, m, e: U(b"x").detwingle(d, m, e),
    }
    pairs = [(m, e, True) for e in emb_ok for m in (r.sample(main_ok, 2) + ["utf8"])] + [(m, e, False) for m, e in others]
    for main, emb, accepted in pairs:
        for fname, form in forms.items():
            data = r.choice(datas)
            eff_main = "utf8" if fname == "embedded-keyword-only" else main
            eff_emb = "windows-1252" if fname == "main-keyword-only" else emb
            case = {"op": "detcall", "bytes": list(data), "main": main, "embedded": emb, "form": fname}
            try:
                got = "ok " + L(form(data, main, emb))
            except NotImplementedError:
                got = "NotImplementedError"
            except Exception as e_:
                got = "raised " + type(e_).__name__
            dl.append(f"c19 detcall {L(data)} {S(eff_main)} {S(eff_emb)}"); di.append(got); dc.append(case)
            acc_here = accepted or (fname == "embedded-keyword-only" and eff_emb.replace("_", "-").lower() == "windows-1252") \
                or (fname == "main-keyword-only" and eff_main.lower() in ("utf8", "utf-8"))
            ctx.case(("D", main, emb, fname) if accepted else None)
            ctx.count("detwingle:argcheck:" + ("accepted-spelling" if acc_here else "other-spelling") + ":" + got.split()[0])
            if acc_here:
                try:
                    want = "ok " + L(real_detwingle(data))
                except Exception as e_:
                    want = "raised " + type(e_).__name__      # reported by the detwingle streams themselves
                if got != want:
                    limited(ctx, f"detwingle with the accepted spellings main_encoding={eff_main!r}, embedded_encoding={eff_emb!r} ({fname}) "
                            + ("raised " + got if not got.startswith("ok") else "differs from the one-argument call"),
                            case=case, expected=want, observed=got, stream="detwingle-argcheck")

    # C4. the Lean strict UTF-8 decoder (the theorems' notion of validity) vs CPython's
    r = ctx.rng("utf8dec")
    for i in range(ctx.n(4000, 40000)):
        data = near_valid_utf8(r) if i % 2 else rand_garbage(r)
        s = py_utf8_decode(data)
        dl.append(f"c19 utf8dec {L(data)}"); di.append("none" if s is None else "some " + S(s)); dc.append({"op": "utf8dec", "bytes": list(data)})
        ctx.case(None)
        ctx.count("utf8dec:" + ("valid" if s is not None else "invalid"))
    for c in INTERESTING_CPS + [0xD800, 0xDFFF]:
        if is_scalar(c):
            dl.append(f"c19 utf8enc {c}"); di.append(L(chr(c).encode("utf-8"))); dc.append({"op": "utf8enc", "cp": c})

    rep = drv.ask(dl)
    nd = 0
    for l, a, m, c in zip(dl, di, rep, dc):
        if a != m and c.get("op") == "detcall" and m == "NotImplementedError" and a.startswith("ok "):
            # a spelling of main_encoding / embedded_encoding OTHER than the accepted ones that the code now takes instead of refusing it:
            # which further argument spellings detwingle() accepts is free (the property is about the default conversion; the accepted
            # spellings are held to the one-argument result above) - free-behaviour round
            ctx.count("free:detwingle-accepts-another-spelling")
            continue
        if a != m:
            nd += 1
            ctx.corr_disagreements += 1
            already = any(v["case"].get("bytes") == c.get("bytes") and v["case"].get("op") == c.get("op") and not v.get("no_failing_input_found")
                          for v in ctx.violations)
            if not already and nd <= 10:
                ctx.violation("model and implementation disagree (" + c["op"] + ")", case=c | {"line": l}, observed=a, model=m,
                              stream="detwingle-correspondence", no_failing_input=True)
    ctx.count("detwingle:requests", len(dl))


# ----------------------------------------------------------------------------------------------
def pristine_piece(b, enc, mode):
    res = pristine([[{"k": "ud", "b": [b], "known": [enc], "mode": mode}]])[0][0]
    return None if isinstance(res, dict) else res[0]


def replay(path):
    v = json.load(open(path))
    c = v["case"]
    op = c.get("op")
    if op == "smart":
        data = bytes(c["bytes"])
        enc, mode = c["enc"], c["mode"]
        u, repl, o_u = real_dammit(data, [enc], mode)
        print(f"UnicodeDammit({data!r}, [{enc!r}], smart_quotes_to={mode!r}).unicode_markup = {u!r}")
        print("property demands:", v.get("expected"))
        if enc in carriers() and mode is not None:
            want, badb = whole_input_oracle(data, enc, mode, lambda b, e, m: real_markup(bytes([b]), e, m)[0])
            for b in badb:
                print(f"  byte {hex(b)} -> {real_markup(bytes([b]), enc, mode)[0]!r}, expected {smart_oracle(b, enc, mode, None)[1]}")
            return 1 if (badb or u != want) else 0
        if enc in carriers() and len(data) == 1:
            return 1 if smart_oracle(data[0], enc, mode, u)[0] is False else 0
        return 1 if v.get("expected") is not None and u != v["expected"] else 0
    if op == "history":
        calls = c["calls"]
        hist = pristine([calls])[0]
        alone = pristine([[calls[-1]]])[0][0]
        print("history:", json.dumps(calls))
        print("last call, after the history :", json.dumps(hist[-1]))
        print("last call, in a fresh process:", json.dumps(alone))
        bad = hist[-1] != alone
        if calls[-1]["k"] == "ud":
            o = ud_call_oracle(calls[-1], hist[-1], pristine_piece) or markup_attr_oracle(calls[-1], hist[-1]) or args_oracle(calls[-1], hist[-1])
            if o:
                print("property:", o[0], "; demanded:", o[1])
                bad = True
        return 1 if bad else 0
    if op == "ud":
        call = {k: v for k, v in c.items() if k not in ("op", "line")}
        res = pristine([[call]])[0][0]
        print("UnicodeDammit call %s ->" % json.dumps({k: v for k, v in call.items() if k != "b"} | {"markup": repr(bytes(c["b"]))}), json.dumps(res))
        o = ud_call_oracle(call, res, pristine_piece) or markup_attr_oracle(call, res) or args_oracle(call, res)
        if o:
            print("property:", o[0], "; demanded:", o[1])
        return 1 if o else 0
    if op == "detcall":
        from bs4.dammit import UnicodeDammit as U
        data = bytes(c["bytes"])
        try:
            if c.get("form") == "keywords":
                got = U.detwingle(data, main_encoding=c["main"], embedded_encoding=c["embedded"])
            elif c.get("form") == "embedded-keyword-only":
                got = U.detwingle(data, embedded_encoding=c["embedded"])
            elif c.get("form") == "main-keyword-only":
                got = U.detwingle(data, main_encoding=c["main"])
            elif c.get("form") == "instance-call":
                got = U(b"x").detwingle(data, c["main"], c["embedded"])
            else:
                got = U.detwingle(data, c["main"], c["embedded"])
            got = "ok " + L(got)
        except Exception as e:
            got = "raised " + type(e).__name__
        want = "ok " + L(U.detwingle(data))
        print(f"detwingle({data!r}, main_encoding={c['main']!r}, embedded_encoding={c['embedded']!r}) [{c.get('form')}] -> {got}")
        print("one-argument call ->", want)
        return 0 if got == want else 1
    if op == "detwingle":
        data = bytes(c["bytes"])
        try:
            out = real_detwingle(data)
        except Exception as e:
            print(f"detwingle({data!r}) raised {type(e).__name__}: {e}")
            return 1
        if v.get("expected") == "a bytes result":
            print(f"detwingle({data!r}) = {out!r} (no exception)")
            return 0
        print(f"detwingle({data!r}) = {out!r}")
        print("property demands (hex):", v.get("expected"), " observed (hex):", out.hex())
        if c.get("clause"):
            conv = convertible_bytes()
            ok = (real_detwingle(out) == out and replaced_only(data, out, conv)
                  and (py_utf8_decode(out) is not None) == parses_as_text_with_embedded_bytes(data, conv))
            print("all-input clauses (idempotent, replaced-only, valid-iff) hold:", ok)
            return 0 if ok else 1
        if v.get("expected") is not None and not v.get("no_failing_input_found"):
            return 0 if out.hex() == v["expected"] else 1
        return 1
    print(json.dumps(v, indent=1))
    return 1
