"""C20 — builder selection. Correspondence of TreeBuilderRegistry/constructor with the Lean model
(BS.Registry.lookup / construct), plus the direct oracle of the property statement."""
import itertools, json, warnings

from .common import Ctx, Driver

MANIFEST = dict(
    text=("Lean theorems: for every registration history of feature sets and every request list, the code-mirror of "
          "TreeBuilderRegistry.register/lookup computes the documented choice (lookup_spec), with its meaning spelled out "
          "(lookup_some_meaning, lookup_none_iff, unoffered_ignored, lookup_no_features, default_falls_back) and the constructor "
          "decision (fnf_iff_none, explicit_builder_bypasses, kwargs_forwarded); plus kernel-decided obligations over the shipped "
          "registry generated from the live code. Tie: exhaustive correspondence of the real registry with the Lean mirror and spec "
          "over all histories of <=3 (thorough <=4) builders x all request lists <=3, and the real constructor against a private registry."),
    design="7/C20",
    note="Feature lists without repeats (true of every shipped builder). Constructor cases swap a private registry in for bs4.builder_registry.",
    technique="Lean 4 refinement proof (code-mirror = spec) + exhaustive small-scope correspondence with the real registry",
)


def spec_lookup(regs, req):
    """The property statement, directly. regs = registration history (oldest first) of feature sets."""
    if not regs:
        return None
    if not req:
        return len(regs) - 1
    offered = [f for f in req if any(f in fs for fs in regs)]
    if not offered:
        return None
    for i in range(len(regs) - 1, -1, -1):
        if all(f in regs[i] for f in offered):
            return i
    return None


def real_lookup(regs, req):
    from bs4.builder import TreeBuilderRegistry, TreeBuilder
    reg = TreeBuilderRegistry()
    classes = []
    for i, fs in enumerate(regs):
        cls = type(f"B{i}", (TreeBuilder,), {"features": [f"f{f}" for f in fs]})
        classes.append(cls)
        reg.register(cls)
    got = reg.lookup(*[f"f{f}" for f in req])
    return None if got is None else classes.index(got)


def real_history(ops):
    """register / lookup / read ops against ONE TreeBuilderRegistry; returns one result per op (lookup: index or None)"""
    from bs4.builder import TreeBuilderRegistry, TreeBuilder
    reg = TreeBuilderRegistry()
    classes, out = [], []
    for op in ops:
        if op[0] == "register":
            cls = type(f"B{len(classes)}", (TreeBuilder,), {"features": [f"f{f}" for f in op[1]]})
            classes.append(cls)
            reg.register(cls)
            out.append(None)
        elif op[0] == "reregister":
            if classes:
                reg.register(classes[op[1] % len(classes)])
            out.append(None)
        elif op[0] == "register-bad":
            feats = {"none": None, "int": 5, "unhashable-first": [["x"], "f0"]}[op[1]]
            bad = type("Bad", (TreeBuilder,), {"features": feats})
            try:
                reg.register(bad)
                out.append("no-exception")
            except Exception as e:
                # a registration that fails must leave the registry as it was: the class is in none of its tables
                left = bad in reg.builders or any(bad in v for v in reg.builders_for_feature.values())
                out.append("left-behind" if left else None)
        elif op[0] == "lookup":
            got = reg.lookup(*[f"f{f}" for f in op[1]])
            out.append(None if got is None else classes.index(got))
        else:
            f = f"f{op[2]}"
            if op[1] == "subscript":
                _ = reg.builders_for_feature[f]
            elif op[1] == "get":
                _ = reg.builders_for_feature.get(f)
            elif op[1] == "in":
                _ = f in reg.builders_for_feature
            else:
                _ = list(reg.builders)
            out.append(None)
    return out


def helper_stream(ctx):
    import sys, types
    import bs4.builder as B
    from bs4.builder import TreeBuilderRegistry, TreeBuilder
    saved_reg, saved_all = B.builder_registry, list(B.__all__)
    saved_attrs = {}
    try:
        for i in range(ctx.n(300, 3000)):
            r = ctx.rng("helper", i)
            B.builder_registry = TreeBuilderRegistry()
            B.__all__[:] = saved_all
            regs, cids, classes = [], [], []
            steps = []
            for _ in range(r.randint(1, 4)):
                names = r.sample(["PlugA", "PlugB", "HTMLParserTreeBuilder", "TreeBuilder2", "helper_function", "CONSTANT"], r.randint(1, 4))
                again = steps and r.random() < 0.3
                if again:
                    mod = steps[r.randrange(len(steps))][0]            # the SAME module object once more
                else:
                    mod = types.ModuleType(f"verif_plugin_{i}_{len(steps)}")
                    mod.__all__ = []
                    for nm in names:
                        if nm in ("helper_function", "CONSTANT"):
                            continue                                      # issubclass() needs classes; a module exports only builders here
                        fs = r.choice([(0,), (1,), (0, 1), (2,), ()])
                        cls = type(nm, (TreeBuilder,), {"features": [f"f{f}" for f in fs]})
                        classes.append((cls, fs))
                        setattr(mod, nm, cls)
                        mod.__all__.append(nm)
                steps.append((mod,))
                for nm in mod.__all__:
                    if nm not in saved_attrs:
                        saved_attrs[nm] = getattr(B, nm, None)
                B.register_treebuilders_from(mod)
                for nm in mod.__all__:
                    cls = getattr(mod, nm)
                    k = next(j for j, (c, _) in enumerate(classes) if c is cls)
                    regs.append(classes[k][1]); cids.append(k)
            bad = None
            for req in [(), (0,), (1,), (0, 1), (2,), (9,), (1, 0)]:
                got = B.builder_registry.lookup(*[f"f{f}" for f in req])
                wi = spec_lookup(regs, req)
                want = None if wi is None else classes[cids[wi]][0]
                ctx.count("helper:lookups")
                if got is not want and bad is None:
                    bad = (req, None if want is None else want.__name__, None if got is None else got.__name__)
            ctx.case(("HLP", i) if len(regs) >= 2 else None)
            if bad:
                ctx.violation("after register_treebuilders_from(...) the registry does not answer for the classes the modules export, in export order",
                              case={"op": "helper", "seed_index": i, "exports": [[getattr(m[0], n).__name__ for n in m[0].__all__] for m in steps],
                                    "features": [[list(getattr(m[0], n).features) for n in m[0].__all__] for m in steps], "request": list(bad[0])},
                              expected=bad[1], observed=bad[2], stream="helper")
    finally:
        B.builder_registry = saved_reg
        B.__all__[:] = saved_all
        for nm, v in saved_attrs.items():
            if v is None:
                if hasattr(B, nm):
                    delattr(B, nm)
            else:
                setattr(B, nm, v)


def fmt_regs(regs):
    if not regs:
        return "-"
    return ";".join(f"{i + 1}:" + ".".join(map(str, fs)) for i, fs in enumerate(regs))


def fmt_list(xs):
    return ",".join(map(str, xs)) if xs else "-"


def show(r):
    return "none" if r is None else f"some {r + 1}"


def fname(n):
    """feature ids -> names; id 7 is the EMPTY string (a legal, if odd, feature name: `features=""` is the request [""]); ids 5 and 6 differ
    in letter case only (feature names are compared as they are, in whatever form the request arrives: str, list or tuple)"""
    return {7: "", 5: "AcmeParser", 6: "acmeparser"}.get(n, f"f{n}")


def constructor_case(regs, builder_arg, features_arg, kw, subdefault=None):
    """Run the real constructor against a private registry of harness builders. `subdefault`: construct a SUBCLASS of BeautifulSoup that
    overrides DEFAULT_BUILDER_FEATURES with these feature ids (the base class keeps f0,f1)."""
    import bs4
    from bs4 import BeautifulSoup, FeatureNotFound
    from bs4.builder import TreeBuilderRegistry, HTMLParserTreeBuilder
    log = {}

    def mk(i, fs):
        def __init__(self, *a, **k):
            log["kwargs"] = dict(k)
            log["inst_by_ctor"] = True
            k.pop("verif_token", None)
            HTMLParserTreeBuilder.__init__(self, *a, **k)
        return type(f"HB{i}", (HTMLParserTreeBuilder,),
                    {"features": [fname(f) for f in fs], "NAME": f"hb{i}", "ALTERNATE_NAMES": [], "__init__": __init__})

    classes = [mk(i, fs) for i, fs in enumerate(regs)]
    extra_cls = mk(99, [0])  # a class that is never registered (for explicit passing)
    reg = TreeBuilderRegistry()
    for c in classes:
        reg.register(c)
    kwargs = {"verif_token": 7} if kw else {}
    if builder_arg[0] == "cls":
        barg = extra_cls
    elif builder_arg[0] == "inst":
        barg = extra_cls()
        log.clear()
    elif builder_arg[0] == "inst-falsy":
        # an instance that is FALSY (a builder class with __len__, e.g. one that counts the documents it has seen): still "a builder passed
        # explicitly"
        barg = type("HB99Sized", (extra_cls,), {"__len__": lambda self: 0})()
        log.clear()
    else:
        barg = None
    if features_arg[0] == "none":
        farg = None
    elif features_arg[0] == "str":
        farg = fname(features_arg[1])
    elif features_arg[0] == "tuple":
        farg = tuple(fname(f) for f in features_arg[1])
    else:
        farg = [fname(f) for f in features_arg[1]]
    saved_reg, saved_default = bs4.builder_registry, BeautifulSoup.DEFAULT_BUILDER_FEATURES
    bs4.builder_registry = reg
    BeautifulSoup.DEFAULT_BUILDER_FEATURES = ["f0", "f1"]
    try:
        with warnings.catch_warnings(record=True) as w:
            warnings.simplefilter("always")
            cls = BeautifulSoup
            if subdefault is not None:
                cls = type("SubSoup", (BeautifulSoup,), {"DEFAULT_BUILDER_FEATURES": [fname(f) for f in subdefault]})
            try:
                soup = cls("<a>x</a>", features=farg, builder=barg, **kwargs)
            except FeatureNotFound:
                return "fnf"
            except Exception as ex:        # the property: FeatureNotFound exactly when the lookup returns nothing - and nothing else
                return f"raised {type(ex).__name__}"
            ignored = any("Keyword arguments to the BeautifulSoup constructor will be ignored" in str(x.message) for x in w)
        b = soup.builder
        if barg is not None:
            bid = 99
            consulted = 0
        else:
            bid = classes.index(type(b)) + 1
            consulted = 1
        inst = 1 if log.get("inst_by_ctor") else 0
        fwd = 1 if (inst and log.get("kwargs", {}).get("verif_token") == 7) or (inst and not kw) else 0
        if barg is not None and builder_arg[0] in ("inst", "inst-falsy") and b is not barg:
            return "other-instance-used"
        return f"ok {bid} inst={inst} fwd={fwd} warn={1 if ignored else 0} reg={consulted}"
    finally:
        bs4.builder_registry = saved_reg
        BeautifulSoup.DEFAULT_BUILDER_FEATURES = saved_default


def model_ctor_line(regs, builder_arg, features_arg, kw, subdefault=None):
    b = "none" if builder_arg[0] == "none" else f"{builder_arg[0].replace('-falsy', '')}:99"
    if features_arg[0] == "none":
        f = "none"
    elif features_arg[0] == "str":
        f = f"str:{features_arg[1]}"
    else:
        f = "list:" + fmt_list(features_arg[1])          # a tuple is read like a list
    dflt = "0,1" if subdefault is None else fmt_list(subdefault)
    return f"c20 construct {fmt_regs(regs)} {dflt} {b} {f} {1 if kw else 0}"


def run(ctx: Ctx):
    ctx.rule = ("lookup: every registration history of feature SETS over {0,1,2} with <= N builders (N=3 quick, 4 thorough; "
                "quick adds a seeded sample of 4-builder histories) x every request list of length <= 3 over {0,1,2,unknown}; "
                "non-trivial = at least one requested feature is offered and the answer is not simply the newest builder; "
                "constructor: registries x builder arg (none/class/instance) x features arg (None/str/list/[]) x kwargs")
    ctx.assumptions = ["builders advertise feature lists without repeats (as every shipped builder does)",
                       "constructor cases run against a private TreeBuilderRegistry swapped in for bs4.builder_registry"]
    subsets = [tuple(c) for k in range(4) for c in itertools.combinations((0, 1, 2), k)]
    reqs = [tuple(r) for k in range(4) for r in itertools.product((0, 1, 2, 9), repeat=k)]
    nmax = 4 if ctx.thorough else 3
    histories = [tuple(h) for k in range(nmax + 1) for h in itertools.product(subsets, repeat=k)]
    if not ctx.thorough:
        r = ctx.rng("hist4")
        histories += [tuple(r.choice(subsets) for _ in range(4)) for _ in range(600)]
    ctx.exhaustive_parts.append(f"lookup: all histories <= {nmax} builders x all {len(reqs)} request lists")
    lines, impl, cases = [], [], []
    for regs in histories:
        for req in reqs:
            got = real_lookup(regs, req)
            want = spec_lookup(regs, req)
            nontriv = want is not None and req and want != len(regs) - 1
            ctx.case(("L", regs, req) if nontriv else None,
                     sample={"registrations": regs, "request": req, "result": show(got)} if nontriv and len(ctx.samples) < 4 else None)
            ctx.count("lookup:" + ("none" if want is None else "found"))
            if got != want:
                ctx.violation("lookup differs from the documented meaning",
                              case={"op": "lookup", "registrations": regs, "request": req},
                              expected=show(want), observed=show(got), stream="lookup-exhaustive")
            lines.append(f"c20 lookup {fmt_regs(regs)} {fmt_list(req)}")
            impl.append(show(got))
            cases.append((regs, req))
    # interleaved histories on ONE registry object: register / lookup / plain reads of the public tables in any order. A lookup is an
    # observation: its answer is the documented one for the registrations made SO FAR, whatever was asked or read before
    for i in range(ctx.n(2500, 40000)):
        r = ctx.rng("interleaved", i)
        ops = []
        for _ in range(r.randint(2, 10)):
            k = r.random()
            if k < 0.28:
                ops.append(("register", r.choice(subsets)))
            elif k < 0.36:
                ops.append(("reregister", r.randint(0, 3)))          # the SAME class object again (an index into the classes made so far)
            elif k < 0.40:
                ops.append(("register-bad", r.choice(("none", "int", "unhashable-first"))))   # a class whose `features` cannot be walked: register() raises
            elif k < 0.8:
                ops.append(("lookup", tuple(r.choice((0, 1, 2, 9)) for _ in range(r.randint(0, 3)))))
            else:
                ops.append(("read", r.choice(("subscript", "get", "in", "builders")), r.choice((0, 1, 2, 9))))
        if r.random() < 0.5:
            # ask the same question before and after a registration
            q = tuple(r.choice((0, 1, 2)) for _ in range(r.randint(1, 3)))
            ops = [("lookup", q)] + ops + [("register", r.choice(subsets)), ("lookup", q)]
        res = real_history(ops)
        regs, cids, made = [], [], []          # registrations so far: feature sets, the class each registers; classes made so far
        bad = None
        for j, (op, out) in enumerate(zip(ops, res)):
            if op[0] == "register":
                made.append(op[1]); regs.append(op[1]); cids.append(len(made) - 1)
            elif op[0] == "reregister":
                if made:
                    c = op[1] % len(made)
                    regs.append(made[c]); cids.append(c)
                    ctx.count("interleaved:re-registrations")
            elif op[0] == "register-bad":
                ctx.count("interleaved:failing-registrations")
                if out is not None and bad is None:
                    bad = (j, "the registry unchanged after register() raised", out)
            elif op[0] == "lookup":
                wi = spec_lookup(regs, op[1])
                want = None if wi is None else cids[wi]          # the documented answer, as a class
                ctx.count("interleaved:lookups")
                lines.append("c20 lookup " + (";".join(f"{c + 1}:" + ".".join(map(str, fs)) for c, fs in zip(cids, regs)) or "-") + f" {fmt_list(op[1])}")
                impl.append(show(out))
                cases.append((tuple(regs), op[1]))
                if out != want and bad is None:
                    bad = (j, want, out)
        nontriv = sum(1 for o in ops if o[0] == "register") >= 2 and any(o[0] == "lookup" for o in ops[1:])
        ctx.case(("I", tuple(ops)) if nontriv else None)
        if bad is not None:
            j, want, out = bad
            ctx.violation(f"history on one registry: step {j} ({ops[j][0]}) differs from the documented answer for the registrations made so far",
                          case={"op": "history", "ops": [list(o) for o in ops], "step": j}, expected=show(want) if not isinstance(want, str) else want,
                          observed=show(out) if not isinstance(out, str) else out,
                          stream="interleaved")
    # the same requests through the Lean code-mirror and the Lean spec
    drv = Driver()
    rep = drv.ask(lines)
    rep2 = drv.ask([l.replace("c20 lookup", "c20 lookupspec", 1) for l in lines])
    for l, a, b, b2, c in zip(lines, impl, rep, rep2, cases):
        if a != b or a != b2:
            ctx.corr_disagreements += 1
            if not any(v["case"].get("registrations") == c[0] and v["case"].get("request") == c[1] for v in ctx.violations):
                ctx.violation("model and implementation disagree (lookup)", case={"op": "lookup", "registrations": c[0], "request": c[1], "line": l},
                              observed=a, model={"impl_mirror": b, "spec": b2}, stream="lookup-correspondence",
                              no_failing_input=(a == show(spec_lookup(*c))))
    ctx.count("lookup:requests", len(lines))

    # the shipped registry of this installation
    from bs4.builder import builder_registry
    from bs4 import BeautifulSoup
    shipped = list(reversed(builder_registry.builders))
    feats = sorted({f for b in shipped for f in b.features} | {"nope"} | set(BeautifulSoup.DEFAULT_BUILDER_FEATURES))
    for k in range(3):
        for req in itertools.product(feats, repeat=k):
            got = builder_registry.lookup(*req)
            want = spec_lookup([set(b.features) for b in shipped], list(req))
            goti = None if got is None else shipped.index(got)
            ctx.case(("S", req) if want is not None and req else None)
            if goti != want:
                ctx.violation("shipped registry: lookup differs from the documented meaning",
                              case={"op": "shipped-lookup", "request": req}, expected=show(want), observed=show(goti), stream="shipped")

    # constructor
    regsets = [(), ((0,),), ((0, 1),), ((0,), (0, 1)), ((0, 1), (0,)), ((2,),), ((0,), (1,)), ((0, 2), (1, 2), (0, 1, 2)),
               ((0, 1), (7,)), ((7, 0), (0, 1)), ((5,), (6,)), ((6,), (5,)), ((5,),), ((0, 5), (0, 6), (1,))]
    bargs = [("none",), ("cls",), ("inst",), ("inst-falsy",)]
    fargs = [("none",), ("str", 0), ("str", 2), ("str", 9), ("list", ()), ("list", (0,)), ("list", (0, 1)), ("list", (1, 2)), ("list", (9,)), ("list", (2, 9)),
             ("str", 7), ("list", (7,)), ("list", (7, 0)), ("tuple", ()), ("tuple", (0, 1)), ("tuple", (7,)),
             ("str", 5), ("str", 6), ("list", (5,)), ("tuple", (6,)), ("tuple", (5, 6)), ("list", (0, 5)), ("tuple", (9, 2)), ("tuple", (0, 1, 2))]
    clines, cimpl, ccases = [], [], []
    for regs in regsets:
        for ba in bargs:
            for fa in fargs:
                for kw in (False, True):
                    got = constructor_case(regs, ba, fa, kw)
                    clines.append(model_ctor_line(regs, ba, fa, kw))
                    cimpl.append(got)
                    ccases.append({"op": "construct", "registrations": regs, "builder": ba, "features": fa, "kwargs": kw})
                    ctx.case(("K", regs, ba, fa, kw), sample=ccases[-1] | {"result": got} if len(ctx.samples) < 7 else None)
                    ctx.count("ctor:" + got.split()[0])
    # registration through the helper `bs4.builder.register_treebuilders_from(module)` (how the shipped builders and plug-in modules
    # register): every TreeBuilder subclass the module exports is registered, in the order of `__all__`, on every call - also when a
    # class of that NAME was exported before, also when the same module is handed over twice
    helper_stream(ctx)
    # a subclass of BeautifulSoup with its own DEFAULT_BUILDER_FEATURES: the default request is the subclass's
    for regs in regsets:
        for sub in ((2,), (0,), (9,), (1, 0), (7,)):
            for fa in (("none",), ("list", ()), ("tuple", ()), ("str", 0)):
                got = constructor_case(regs, ("none",), fa, False, subdefault=sub)
                clines.append(model_ctor_line(regs, ("none",), fa, False, subdefault=sub))
                cimpl.append(got)
                ccases.append({"op": "construct", "registrations": regs, "builder": ("none",), "features": fa, "kwargs": False, "subclass_default": sub})
                ctx.case(("KS", regs, fa, sub))
                ctx.count("ctor-subclass-default:" + got.split()[0])
    crep = drv.ask(clines)
    for l, a, b, c in zip(clines, cimpl, crep, ccases):
        if a != b:
            ctx.corr_disagreements += 1
            # the model here is the documented decision: a difference on these observables is a violation
            ctx.violation("constructor's builder decision differs from the documented one", case=c | {"line": l},
                          expected=b, observed=a, model=b, stream="constructor")


def replay(path):
    v = json.load(open(path))
    c = v["case"]
    if c.get("op") == "lookup":
        got = real_lookup([tuple(x) for x in c["registrations"]], tuple(c["request"]))
        want = spec_lookup([tuple(x) for x in c["registrations"]], tuple(c["request"]))
        print("implementation:", show(got), " property demands:", show(want))
        return 0 if got == want else 1
    if c.get("op") == "history":
        ops = [tuple(tuple(x) if isinstance(x, list) else x for x in o) for o in c["ops"]]
        res = real_history(ops)
        regs, cids, made, rc = [], [], [], 0
        for j, (op, out) in enumerate(zip(ops, res)):
            if op[0] == "register":
                made.append(op[1]); regs.append(op[1]); cids.append(len(made) - 1); print(j, "register class", len(made) - 1, "features", op[1])
            elif op[0] == "reregister":
                if made:
                    k = op[1] % len(made)
                    regs.append(made[k]); cids.append(k); print(j, "register class", k, "AGAIN")
            elif op[0] == "register-bad":
                print(j, "register a class whose features cannot be walked ->", out or "raised, registry unchanged")
                if out is not None:
                    rc = 1
            elif op[0] == "lookup":
                wi = spec_lookup(regs, op[1])
                want = None if wi is None else cids[wi]
                print(j, "lookup", op[1], "-> class", out, " property demands: class", want)
                if out != want:
                    rc = 1
            else:
                print(j, "read", op[1:], "(no effect on later answers)")
        return rc
    if c.get("op") == "construct":
        got = constructor_case([tuple(x) for x in c["registrations"]], tuple(c["builder"]), tuple(c["features"]) if c["features"][0] not in ("list", "tuple") else (c["features"][0], tuple(c["features"][1])), c["kwargs"],
                               subdefault=tuple(c["subclass_default"]) if c.get("subclass_default") is not None else None)
        print("implementation:", got, " property demands:", v.get("expected"))
        return 0 if got == v.get("expected") else 1
    print(json.dumps(v, indent=1))
    return 1
