"""Shared machinery of the /verif checks: Lean build + audit, driver I/O, evidence, violations,
known findings.  Everything random derives from VERIF_SEED."""
from __future__ import annotations

import fcntl
import hashlib
import json
import os
import random
import re
import subprocess
import sys
import time
from collections import Counter
from pathlib import Path

VERIF = Path(__file__).resolve().parent.parent
LEAN = VERIF / "lean"
REPO = Path(os.environ.get("VERIF_REPO", "/repo"))
EVID = VERIF / "evidence"
REPLAYS = VERIF / "replays"
CORPUS = VERIF / "corpus"
GUARD = "LIVE_CLONES_BEAUTIFULSOUP_VERIF"
ALLOWED_AXIOMS = {"propext", "Classical.choice", "Quot.sound"}
FORBIDDEN_RE = re.compile(
    r"\bsorry\b|\badmit\b|^\s*axiom\s|native_decide|bv_decide|implemented_by|\bunsafe\s|maxHeartbeats\s+0\b",
    re.M,
)

TRUSTED_BASE = [
    "Lean 4.33 kernel (thorough tier: leanchecker re-check of the property's modules)",
    "axioms allowed in property theorems: propext, Classical.choice, Quot.sound (audited with collectAxioms on every run); no sorry/admit/axiom/native_decide/bv_decide/implemented_by/unsafe",
    "translate/gen_tables.py: live bs4 objects of /repo's working tree -> BSModel/Gen/*.lean literals",
    "correspondence harness (harness/*.py), canonicalisation, and the compiled bsdriver (Lean compiler) executing the same definitions the theorems are about",
    "hand-written code-mirror models are faithful to the Python only as far as the correspondence exercised them on this run (counts in this file)",
]


def seed_from_env() -> int:
    try:
        return int(os.environ.get("VERIF_SEED", "0"))
    except ValueError:
        return int(hashlib.sha256(os.environ["VERIF_SEED"].encode()).hexdigest()[:8], 16)


def rng_for(seed: int, *stream) -> random.Random:
    h = hashlib.sha256(("%d|" % seed + "|".join(map(str, stream))).encode()).hexdigest()
    return random.Random(int(h[:16], 16))


def cps(s: str) -> str:
    """Python str -> comma separated code points ('' for empty)."""
    return ",".join(str(ord(c)) for c in s)


def uncps(s: str) -> str:
    s = s.strip()
    if not s or s == "-":
        return ""
    return "".join(chr(int(x)) for x in s.split(","))


def tok(s: str) -> str:
    """A protocol token for a possibly empty code point list."""
    c = cps(s)
    return c if c else "-"


# --------------------------------------------------------------------------------------
# Lean side
# --------------------------------------------------------------------------------------
class LeanResult:
    def __init__(self):
        self.built = False
        self.build_log = ""
        self.theorems: dict[str, list[str]] = {}
        self.bad_axioms: dict[str, list[str]] = {}
        self.forbidden: list[str] = []
        self.failed_decls: list[str] = []
        self.driver_ok = False
        self.leanchecker: str | None = None
        self.gen_changed: list[str] = []

    @property
    def obligations(self):
        return max(len(self.theorems), len(self.failed_decls)) if not self.built else len(self.theorems)

    @property
    def discharged(self):
        if not self.built:
            return 0
        return len([t for t in self.theorems if t not in self.bad_axioms])

    @property
    def ok(self):
        return self.built and not self.bad_axioms and not self.forbidden and self.theorems and (
            self.leanchecker in (None, "ok"))


def _lock():
    (LEAN / ".lake").mkdir(exist_ok=True)
    f = open(LEAN / ".lake" / "verif.lock", "w")
    fcntl.flock(f, fcntl.LOCK_EX)
    return f


def run_gen_tables() -> list[str]:
    """Regenerate BSModel/Gen/*.lean from the live bs4 of /repo. Returns names of files that changed."""
    env = dict(os.environ)
    env["PYTHONPATH"] = str(REPO) + os.pathsep + env.get("PYTHONPATH", "")
    env[GUARD] = "1"
    p = subprocess.run(
        [sys.executable, str(VERIF / "translate" / "gen_tables.py")],
        env=env, capture_output=True, text=True)
    if p.returncode != 0:
        raise RuntimeError("gen_tables failed:\n" + p.stdout + p.stderr)
    subprocess.run([sys.executable, str(VERIF / "tools" / "gen_main.py")], check=True, capture_output=True)
    return [l.split(" ", 1)[1] for l in p.stdout.splitlines() if l.startswith("CHANGED ")]


def strip_lean_comments(src: str) -> str:
    src = re.sub(r"/-.*?-/", "", src, flags=re.S)
    src = re.sub(r"--.*", "", src)
    return src


def lean_sources_for(prop: str) -> list[Path]:
    """Transitive BSModel imports of Props/<prop>.lean (Lean files in this project only)."""
    seen, todo = [], [LEAN / "BSModel" / "Props" / f"{prop}.lean"]
    while todo:
        f = todo.pop()
        if f in seen or not f.exists():
            continue
        seen.append(f)
        for m in re.findall(r"^import\s+(BSModel\.[\w.]+)", f.read_text(), flags=re.M):
            todo.append(LEAN / (m.replace(".", "/") + ".lean"))
    return seen


def lean_check(prop: str, tier: str = "quick", need_driver: bool = True) -> LeanResult:
    """gen tables, build Props.<prop> (+ driver), grep audit, axiom audit."""
    res = LeanResult()
    lock = _lock()
    try:
        try:
            res.gen_changed = run_gen_tables()
        except RuntimeError as e:
            # The translator can no longer read the live objects (a table or pattern changed shape): the generated tables are
            # stale, so nothing proved over them says anything about this tree. Obligations count as broken; the harness still
            # runs (with the previously built driver) and searches for a concrete failing input.
            res.built = False
            res.build_log = "translator failed:\n" + str(e)[-3000:]
            res.failed_decls = ["translate/gen_tables.py"]
            src = (LEAN / "BSModel" / "Props" / f"{prop}.lean")
            if src.exists():
                for m in re.finditer(r"^theorem\s+(\S+)", strip_lean_comments(src.read_text()), flags=re.M):
                    res.theorems.setdefault(f"BS.Props.{prop}.{m.group(1)}", ["<not built: translator failed>"])
            return res
        targets = [f"BSModel.Props.{prop}", "BSModel.AuditCmd"]
        p = subprocess.run(["lake", "build", *targets], cwd=LEAN, capture_output=True, text=True)
        res.build_log = p.stdout + p.stderr
        res.built = p.returncode == 0
        if need_driver:
            d = subprocess.run(["lake", "build", "bsdriver"], cwd=LEAN, capture_output=True, text=True)
            res.driver_ok = d.returncode == 0
            if not res.driver_ok:
                res.build_log += "\n--- driver ---\n" + d.stdout + d.stderr
        # forbidden constructs in every source the property depends on
        for f in lean_sources_for(prop) + [LEAN / "Main.lean"]:
            body = strip_lean_comments(f.read_text())
            for m in FORBIDDEN_RE.finditer(body):
                res.forbidden.append(f"{f.relative_to(LEAN)}: {m.group(0).strip()}")
        if res.built:
            af = LEAN / ".lake" / f"audit_{prop}.lean"
            af.write_text(f"import BSModel.AuditCmd\nimport BSModel.Props.{prop}\n#bs_audit BS.Props.{prop}\n")
            a = subprocess.run(["lake", "env", "lean", str(af)], cwd=LEAN, capture_output=True, text=True)
            for line in a.stdout.splitlines():
                m = re.search(r"BSAUDIT (\S+) ::\s*(.*)$", line)
                if m:
                    axs = m.group(2).split()
                    res.theorems[m.group(1)] = axs
                    bad = [x for x in axs if x not in ALLOWED_AXIOMS]
                    if bad:
                        res.bad_axioms[m.group(1)] = bad
            if a.returncode != 0:
                res.built = False
                res.build_log += "\n--- audit ---\n" + a.stdout + a.stderr
            if tier == "thorough":
                mods = [str(f.relative_to(LEAN)).replace("/", ".")[:-5] for f in lean_sources_for(prop)]
                c = subprocess.run(["lake", "env", "leanchecker", *mods], cwd=LEAN,
                                   capture_output=True, text=True)
                res.leanchecker = "ok" if c.returncode == 0 else ("failed: " + (c.stdout + c.stderr)[-400:])
        else:
            # names of the declarations lake reported errors for
            for m in re.finditer(r"error: (\S+?\.lean):(\d+):(\d+)", res.build_log):
                res.failed_decls.append(f"{m.group(1)}:{m.group(2)}")
            # count the statements we would have had
            src = (LEAN / "BSModel" / "Props" / f"{prop}.lean")
            if src.exists():
                for m in re.finditer(r"^theorem\s+(\S+)", strip_lean_comments(src.read_text()), flags=re.M):
                    res.theorems.setdefault(f"BS.Props.{prop}.{m.group(1)}", ["<not built>"])
    finally:
        lock.close()
    return res


def failing_theorems(res: LeanResult) -> list[str]:
    """Best effort: map error positions in the build log to the enclosing theorem names."""
    out = []
    for m in re.finditer(r"error: (\S+?\.lean):(\d+):(\d+):? ?(.*)", res.build_log):
        path, line = m.group(1), int(m.group(2))
        f = Path(path)
        if not f.is_absolute():
            f = LEAN / path
        name = None
        try:
            lines = f.read_text().splitlines()
            for i in range(min(line, len(lines)) - 1, -1, -1):
                mm = re.match(r"\s*(?:@\[[^\]]*\]\s*)?(?:private\s+|protected\s+)?(theorem|lemma|def|example|instance)\s+(\S+)?", lines[i])
                if mm:
                    name = f"{f.relative_to(LEAN)}:{mm.group(2) or mm.group(1)}"
                    break
        except Exception:
            pass
        out.append(name or f"{path}:{line}")
    return sorted(set(out))


class Driver:
    """Batch access to the compiled Lean model driver (line protocol)."""

    def __init__(self):
        exe = LEAN / ".lake" / "build" / "bin" / "bsdriver"
        if exe.exists():
            self.cmd = [str(exe)]
        else:
            self.cmd = ["lake", "env", "lean", "--run", "Main.lean"]

    def ask(self, lines: list[str]) -> list[str]:
        if not lines:
            return []
        for l in lines:
            assert "\n" not in l
        data = "\n".join(lines) + "\n"
        p = subprocess.run(self.cmd, cwd=LEAN, input=data, capture_output=True, text=True)
        out = p.stdout.split("\n")
        if out and out[-1] == "":
            out.pop()
        if p.returncode != 0 or len(out) != len(lines):
            raise RuntimeError(
                f"driver protocol error: rc={p.returncode} asked={len(lines)} got={len(out)} stderr={p.stderr[-500:]}")
        return out


# --------------------------------------------------------------------------------------
# Known findings
# --------------------------------------------------------------------------------------
def load_known_findings(prop: str) -> dict[str, dict]:
    f = VERIF / "known_findings.json"
    if not f.exists():
        return {}
    data = json.loads(f.read_text())
    return {e["id"]: e for e in data.get("findings", []) if e.get("property") == prop and e.get("status") == "known"}


# --------------------------------------------------------------------------------------
# Context of one check run
# --------------------------------------------------------------------------------------
class Ctx:
    def __init__(self, prop: str, tier: str, seed: int):
        self.prop, self.tier, self.seed = prop, tier, seed
        self.t0 = time.time()
        self.evaluations = 0
        self.nontrivial: set = set()
        self.samples: list = []
        self.dist: Counter = Counter()
        self.streams: dict[str, dict] = {}
        self.violations: list[dict] = []
        self.known_hits: dict[str, dict] = {}
        self.known = load_known_findings(prop)
        self.notes: list[str] = []
        self.lean: LeanResult | None = None
        self.rule = ""
        self.assumptions: list[str] = []
        self.exhaustive_parts: list[str] = []
        self.corr_disagreements = 0
        self.extra: dict = {}

    @property
    def thorough(self):
        return self.tier == "thorough"

    def n(self, quick: int, thorough: int) -> int:
        return thorough if self.thorough else quick

    def rng(self, *stream) -> random.Random:
        return rng_for(self.seed, self.prop, *stream)

    def count(self, key: str, k: int = 1):
        self.dist[key] += k

    def case(self, nontrivial_key=None, sample=None):
        self.evaluations += 1
        if nontrivial_key is not None:
            self.nontrivial.add(nontrivial_key if isinstance(nontrivial_key, (str, int, tuple)) else repr(nontrivial_key))
        if sample is not None and len(self.samples) < 12:
            self.samples.append(sample)

    def violation(self, what: str, case, expected=None, observed=None, model=None, stream="", kf: str | None = None,
                  no_failing_input: bool = False, extra: dict | None = None):
        """Record a property violation on the real code. `kf` = id of the known-finding class this case
        falls into (computed by the check from the case itself), or None."""
        if kf is not None and kf in self.known:
            if kf not in self.known_hits:
                self.known_hits[kf] = {"what": what, "case": case, "count": 0}
            self.known_hits[kf]["count"] += 1
            return
        v = {"property": self.prop, "what": what, "stream": stream, "seed": self.seed, "tier": self.tier,
             "generator_version": GENERATOR_VERSION, "case": case, "expected": expected, "observed": observed,
             "model_reply": model, "no_failing_input_found": no_failing_input}
        if extra:
            v.update(extra)
        self.violations.append(v)

    # ------------------------------------------------------------------
    def finish(self) -> int:
        wall = time.time() - self.t0
        lean = self.lean
        EVID.mkdir(exist_ok=True)
        REPLAYS.mkdir(exist_ok=True)
        # a broken proof obligation with no failing input found is still a violation
        if lean is not None and not lean.ok:
            found = [v for v in self.violations if not v.get("no_failing_input_found")]
            if not found:
                names = failing_theorems(lean) or list(lean.bad_axioms) or lean.forbidden or ["<build>"]
                self.violation(
                    "proof obligation no longer checks: " + "; ".join(names[:6]),
                    case={"failing_obligations": names, "forbidden": lean.forbidden,
                          "bad_axioms": lean.bad_axioms, "log_tail": lean.build_log[-3000:],
                          "leanchecker": lean.leanchecker},
                    stream="lean-build", no_failing_input=True)
        lines = []
        for kf, hit in sorted(self.known_hits.items()):
            desc = self.known[kf].get("what", hit["what"])
            lines.append(f"KNOWN-FINDING: property={self.prop} {kf}: {desc} (re-observed on {hit['count']} case(s) this run)")
        rc = 0
        seen_files = set()
        # real failing inputs first
        for v in sorted(self.violations, key=lambda v: v.get("no_failing_input_found", False)):
            h = hashlib.sha256(json.dumps(v, sort_keys=True, default=str).encode()).hexdigest()[:12]
            path = REPLAYS / f"{self.prop}-{h}.json"
            if path not in seen_files and len(seen_files) < 20:
                path.write_text(json.dumps(v, indent=1, default=str))
                seen_files.add(path)
                tail = " no-failing-input-found" if v.get("no_failing_input_found") else ""
                lines.append(f"VIOLATION property={self.prop} replay={path}{tail}")
            rc = 1
        cov = {
            "obligations": lean.obligations if lean else 0,
            "discharged": lean.discharged if lean else 0,
            "checker_cmd": f"cd /verif/lean && lake build BSModel.Props.{self.prop} && lake env lean .lake/audit_{self.prop}.lean"
                           + (" && lake env leanchecker <modules>" if self.thorough else ""),
            "trusted_base": TRUSTED_BASE,
            "theorems": {k: v for k, v in (lean.theorems.items() if lean else [])},
            "lean_built": bool(lean and lean.built),
            "gen_tables_changed": lean.gen_changed if lean else [],
            "leanchecker": lean.leanchecker if lean else None,
            "evaluations": self.evaluations,
            "distinct_nontrivial": len(self.nontrivial),
            "rule": self.rule,
            "samples": self.samples[:12],
            "distribution": dict(sorted(self.dist.items())),
            "correspondence_disagreements": self.corr_disagreements,
            "known_findings_reobserved": {k: v["count"] for k, v in self.known_hits.items()},
            "exhaustive_parts": self.exhaustive_parts,
            "notes": self.notes,
        }
        cov.update(self.extra)
        ev = {
            "property_id": self.prop, "tier": self.tier, "seed": self.seed, "level": "proof",
            "coverage": cov, "assumptions": self.assumptions, "wall_s": round(wall, 2),
            "violations": len(self.violations),
        }
        (EVID / f"{self.prop}.json").write_text(json.dumps(ev, indent=1, default=str))
        for l in lines:
            print(l)
        print(f"[{self.prop}] tier={self.tier} seed={self.seed} lean: obligations={cov['obligations']} "
              f"discharged={cov['discharged']} built={cov['lean_built']}; correspondence/oracle cases={self.evaluations} "
              f"nontrivial={len(self.nontrivial)} violations={len(self.violations)} "
              f"known={len(self.known_hits)} wall={wall:.1f}s")
        return rc


GENERATOR_VERSION = 1


def diff_streams(ctx: Ctx, stream: str, requests: list[str], impl: list[str], cases: list, on_diff):
    """Ask the model driver for every request and call on_diff(case, impl_reply, model_reply) for each mismatch."""
    drv = Driver()
    replies = drv.ask(requests)
    nd = 0
    for req, a, b, c in zip(requests, impl, replies, cases):
        if a != b:
            nd += 1
            ctx.corr_disagreements += 1
            on_diff(c, a, b, req)
    ctx.count(f"{stream}:requests", len(requests))
    ctx.count(f"{stream}:disagreements", nd)
    return replies


# -- watchdog ---------------------------------------------------------------------------------------------------------------
class Hang(BaseException):
    """the code under test (or a walk over what it built) did not return: a corrupted link chain can make `_last_descendant`, an
    iterator or `extract` loop for ever. BaseException, so that the library's own `except Exception` clauses do not swallow it."""


def arm(seconds: float):
    """(re)start the watchdog: raise Hang in the main thread after `seconds` of wall time"""
    import signal

    def _h(sig, frm):
        raise Hang(f"no return within {seconds:g} s")
    signal.signal(signal.SIGALRM, _h)
    signal.setitimer(signal.ITIMER_REAL, seconds)


def disarm():
    import signal
    signal.setitimer(signal.ITIMER_REAL, 0)

