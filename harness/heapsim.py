"""Edit histories on real bs4 objects, mirrored for the Lean heap model (shared by C01 and C02).

Identity across model and implementation: tags carry the label `t<id>`; every string carries a text that is a
'.'-joined sequence of unique numbers (`s<text>`), so library-created strings (wrapped plain `str`, merged
strings of smooth(), the `.string=` string) are identified by their text and no id() ever crosses the protocol.
The nodes of a copy (`cp:X:N`) are labelled `t<N+k>` / `s<N+k>` by their place k in the clone's document order on both sides (a copied
string has the text of its original, so its text cannot identify it)."""
from __future__ import annotations

import warnings
from typing import Optional

KINDS = {"t": "tag", "r": "soup", "s": "str", "c": "pre"}
OPS = ["ap", "in", "et", "el", "ib", "ia", "rw", "wr", "uw", "ex", "cl", "de", "sm", "ss", "cd", "se"]


class _StrSub(str):
    """a `str` subclass that is not a NavigableString"""


def _make_navsub():
    from bs4.element import NavigableString

    class UserString(NavigableString):
        """a user's own string class (what `element_classes={NavigableString: UserString}` would create)"""
    return UserString


class _Lazy:
    def __init__(self):
        self.c = None

    def __call__(self, *a):
        if self.c is None:
            self.c = _make_navsub()
        return self.c(*a)


_NavSub = _Lazy()


def plain_string_class(i: int, n: int):
    """The class of the i-th ordinary string of a world of n objects: NavigableString itself, or one of its subclasses that are NOT
    PreformattedStrings (Script, Stylesheet, TemplateString, the ruby strings, a user class as `element_classes` would install):
    all of them are ordinary text to every editing call, in particular to smooth(). A function of the world's shape, so replays repeat it."""
    from bs4.element import NavigableString, Script, Stylesheet, TemplateString, RubyTextString, RubyParenthesisString
    if (i * 5 + n) % 4 != 0:
        return NavigableString
    return [Script, Stylesheet, TemplateString, RubyTextString, RubyParenthesisString, _NavSub][(i + n) % 6]


class World:
    """A forest of real bs4 objects with labels."""

    def __init__(self, kinds: str, twin_rng=None, twin_choices=None):
        """twin_rng: make structurally EQUAL elements (tags sharing a name, strings sharing a text, empty strings);
        identity is then carried by an id() map only, and smooth() is not generated (merged texts would be ambiguous)"""
        from bs4 import BeautifulSoup
        from bs4.element import NavigableString, Comment, Tag
        self.kinds = kinds
        self.call_forms = {}
        self.twin = twin_rng is not None or twin_choices is not None
        self.twin_choices = list(twin_choices) if twin_choices is not None else ([] if self.twin else None)

        def pick(i, options):
            if twin_choices is not None:
                return twin_choices[i]
            c = twin_rng.choice(options)
            self.twin_choices.append(c)
            return c
        self.base = BeautifulSoup("", "html.parser")
        self.objs: dict[str, object] = {}      # label -> object (live, not decomposed)
        self.lab: dict[int, str] = {}          # id(element) -> label (all tags; initial strings)
        self.keep: list = []                   # strong refs
        self.next_plain = 1000
        self.init_copy_state()
        for i, k in enumerate(kinds):
            if k == "t":
                o = self.base.new_tag(pick(i, ["x", "x", "y"]) if self.twin else f"t{i}")
                # some ordinary tags carry `hidden = True` (the rendering switch the BeautifulSoup object uses, kept alive for tags by
                # test_hidden_tag_is_invisible): it must not matter to any link; a function of the world's shape, so replays repeat it
                if (i * 7 + len(kinds)) % 6 == 0:
                    o.hidden = True
                    self.hidden_tags = getattr(self, "hidden_tags", 0) + 1
            elif k == "r":
                o = BeautifulSoup("", "html.parser")
                if self.twin:
                    pick(i, ["-"])
            elif k == "s":
                o = plain_string_class(i, len(kinds))(pick(i, ["a.", "a.", "", "b."]) if self.twin else f"{i}.")
                if type(o) is not NavigableString:
                    self.string_subclasses = getattr(self, "string_subclasses", 0) + 1
            else:
                o = Comment(pick(i, ["c."]) if self.twin else f"{i}.")
            self.register(o, i)

    def init_copy_state(self):
        """bookkeeping of the `cp` op (copies): labels of BeautifulSoup clones, labels of all clone nodes, id()s of copied plain strings,
        the verdict of the direct copy oracle on the last `cp`"""
        self.soup_labels: set[str] = set()
        self.copy_labels: set[str] = set()
        self.copied_ids: set[int] = set()
        self.copy_oracle_msg: Optional[str] = None
        self.n_cp = 0

    # -- labels -----------------------------------------------------------------------------
    def register(self, o, i=None):
        from bs4.element import Tag
        self.keep.append(o)
        if isinstance(o, Tag):
            self.lab[id(o)] = f"t{i}"
        elif i is not None:
            self.lab[id(o)] = f"s{i}"
        self.objs[self.label(o)] = o

    def label(self, o) -> str:
        from bs4.element import Tag
        if o is None:
            return "-"
        if isinstance(o, Tag):
            return self.lab.get(id(o), "t?")
        if id(o) in self.lab:
            return self.lab[id(o)]
        t = str(o)
        return "s" + (t[:-1] if t.endswith(".") else t + "?")

    def labels(self, it) -> str:
        l = [self.label(x) for x in it]
        return ".".join(l) if l else "-"

    def fresh_plain(self) -> str:
        self.next_plain += 1
        return str(self.next_plain)

    def rescan(self):
        """Pick up strings the library created (reachable from known objects)."""
        from bs4.element import Tag
        seen = set(id(o) for o in self.objs.values())
        for o in list(self.objs.values()):
            if isinstance(o, Tag):
                stack = list(o.contents)
                while stack:
                    c = stack.pop()
                    if id(c) not in seen:
                        seen.add(id(c))
                        self.keep.append(c)
                        # histories with copies: a label is never to pass silently from one live object to another (gen_op keeps
                        # smooth() away from runs whose merged text is already some live string's label)
                        if getattr(self, "n_cp", 0) and self.label(c) in self.objs and self.objs[self.label(c)] is not c:
                            raise AssertionError("label collision: " + self.label(c))
                        self.objs[self.label(c)] = c
                    if isinstance(c, Tag):
                        stack.extend(c.contents)

    def forget_subtree(self, root):
        from bs4.element import Tag
        dead = []
        stack = [root]
        while stack:
            c = stack.pop()
            dead.append(c)
            if isinstance(c, Tag):
                stack.extend(c.contents)
        ids = {id(d) for d in dead}
        for l in [l for l, x in self.objs.items() if id(x) in ids]:
            del self.objs[l]

    # -- executing an op ---------------------------------------------------------------------
    def arg(self, a: str):
        if a.startswith("p"):
            # plain text: an exact `str`, or an instance of a `str` subclass (an attribute value object, a StrEnum member, a user class):
            # every `str` that is not already a NavigableString is wrapped into one (form = function of the label, so replays repeat it)
            t = a[1:] + "."
            return _StrSub(t) if int(a[1:]) % 3 == 0 else t
        return self.objs[a]

    def apply(self, op: str) -> str:
        """Run one op on the real objects. Returns 'ok' or 'err:<kind>'."""
        from bs4.element import NavigableString, Comment, Tag
        import zlib
        f = op.split(":")
        k = f[0]
        args = lambda s: [self.arg(a) for a in s.split(",")] if s != "-" else []
        pre_dead = None
        cp = None
        if k == "cp":
            self.copy_oracle_msg = None
        try:
            with warnings.catch_warnings():
                warnings.simplefilter("ignore")
                if k == "cp":
                    # a copy of the element, by one of the three spellings (a function of the op text, so replays repeat it); the
                    # direct oracle of the copy clause of C01/C02 runs below, outside the `try`
                    import copy
                    src = self.objs[f[1]]
                    form = zlib.crc32(op.encode()) % 3
                    self.call_forms["cp%d" % form] = self.call_forms.get("cp%d" % form, 0) + 1
                    snap = link_snapshot(self)
                    src_sub = subtree(src)
                    clone = copy.copy(src) if form == 0 else copy.deepcopy(src) if form == 1 else src.__copy__()
                    cp = (src, src_sub, clone, snap)
                elif k == "ap":
                    self.objs[f[1]].append(self.arg(f[2]))
                elif k == "in":
                    self.objs[f[1]].insert(int(f[2]), *args(f[3]))
                elif k == "et":
                    # extend() takes a Tag or any iterable: the same documented effect whichever way the source's children are
                    # handed over (the form is a function of the op text, so a replay makes the same call)
                    src = self.objs[f[2]]
                    form = zlib.crc32(op.encode()) % 6 if isinstance(src, Tag) else 0
                    self.call_forms["et%d" % form] = self.call_forms.get("et%d" % form, 0) + 1
                    if form <= 1:
                        self.objs[f[1]].extend(src)
                    elif form == 2:
                        self.objs[f[1]].extend(src.children)
                    elif form == 3:
                        self.objs[f[1]].extend(iter(src))
                    elif form == 4:
                        self.objs[f[1]].extend(c for c in src.contents)
                    else:
                        self.objs[f[1]].extend(tuple(src.contents))
                elif k == "el":
                    a = args(f[2])
                    form = zlib.crc32(op.encode()) % 4
                    self.call_forms["el%d" % form] = self.call_forms.get("el%d" % form, 0) + 1
                    self.objs[f[1]].extend(a if form == 0 else tuple(a) if form == 1 else iter(a) if form == 2 else (x for x in a))
                elif k == "ib":
                    self.objs[f[1]].insert_before(*args(f[2]))
                elif k == "ia":
                    self.objs[f[1]].insert_after(*args(f[2]))
                elif k == "rw":
                    # the deprecated spelling reaches the same code (form = function of the op text, so replays repeat it)
                    form = zlib.crc32(op.encode()) % 4
                    self.call_forms["rw%d" % min(form, 1)] = self.call_forms.get("rw%d" % min(form, 1), 0) + 1
                    (self.objs[f[1]].replaceWith if form == 0 else self.objs[f[1]].replace_with)(*args(f[2]))
                elif k == "wr":
                    self.objs[f[1]].wrap(self.objs[f[2]])
                elif k == "uw":
                    form = zlib.crc32(op.encode()) % 4
                    o = self.objs[f[1]]
                    (o.replace_with_children if form == 0 else o.replaceWithChildren if form == 1 else o.unwrap)()
                elif k == "ex":
                    self.objs[f[1]].extract()
                elif k == "cl":
                    self.objs[f[1]].clear()
                elif k == "cd":
                    o = self.objs[f[1]]
                    for c in list(o.contents):
                        self.forget_subtree(c)
                    o.clear(decompose=True)
                elif k == "de":
                    o = self.objs[f[1]]
                    pre_dead = o
                    self.forget_subtree(o)
                    o.decompose()
                elif k == "sm":
                    self.objs[f[1]].smooth()
                elif k == "ss":
                    v = f[3] + "."
                    self.objs[f[1]].string = Comment(v) if f[2] == "c" else v
                elif k == "se":
                    # `.string = <a string object that is already somewhere in the forest>` (very often the tag's own `.string`): the
                    # documented effect is the same - contents cleared, ONE NEW string of the argument's class and text; the argument
                    # itself only moves if it was a child. The new object carries the argument's text, so it is labelled here.
                    tag, src = self.objs[f[1]], self.objs[f[2]]
                    known = {id(o) for o in self.objs.values()}
                    tag.string = src
                    self.se_used = True
                    if len(tag.contents) == 1 and isinstance(tag.contents[0], NavigableString) and id(tag.contents[0]) not in known:
                        self.lab[id(tag.contents[0])] = "s" + f[3]
                        if type(tag.contents[0]) is not type(src):
                            return "err:wrong-class"
                else:
                    raise AssertionError(op)
        except ValueError:
            return "err:ValueError"
        except NotImplementedError:
            return "err:NotImplementedError"
        except RecursionError:
            raise
        except Exception as e:  # AttributeError, IndexError, ...
            return "err:crash"
        if cp is not None:
            self.adopt_copy(int(f[2]), *cp)
        self.rescan()
        return "ok"

    def adopt_copy(self, n0: int, src, src_sub, clone, snap):
        """after `clone = copy(src)`: run the direct copy oracle, then label the k-th node of the clone (document order) `t<n0+k>` /
        `s<n0+k>` - the same labels the model's driver gives them"""
        from bs4.element import Tag, NavigableString, PreformattedString
        self.n_cp = getattr(self, "n_cp", 0) + 1
        self.copy_oracle_msg = copy_oracle(self, src, src_sub, clone, snap)
        nodes, seen = [], set()
        for node in subtree(clone):
            if id(node) not in seen:      # (a clone that lists a node twice was reported by the oracle; label it once)
                seen.add(id(node))
                nodes.append(node)
        known = {id(o) for o in self.keep}
        for k2, node in enumerate(nodes):
            if id(node) in known:         # (reported by the oracle: the "clone" contains a pre-existing object; it keeps its label)
                continue
            l = ("t" if isinstance(node, Tag) else "s") + str(n0 + k2)
            self.lab[id(node)] = l
            self.keep.append(node)
            self.objs[l] = node
            self.copy_labels.add(l)
            if self.is_soup(node):
                self.soup_labels.add(l)
            if isinstance(node, NavigableString) and not isinstance(node, PreformattedString):
                self.copied_ids.add(id(node))
        self.next_plain = max(self.next_plain, n0 + len(nodes) - 1)

    # -- observation -------------------------------------------------------------------------
    def live(self):
        return list(self.objs.items())

    def is_soup(self, o):
        from bs4 import BeautifulSoup
        return isinstance(o, BeautifulSoup)

    def dump(self, iters: bool) -> dict[str, list[str]]:
        """label -> [parent ps ns pe ne kids (desc nexte preve nexts prevs parents)] as label strings."""
        from bs4.element import Tag
        out = {}
        for l, o in self.objs.items():
            kids = self.labels(o.contents) if isinstance(o, Tag) else "-"
            row = [self.label(o.parent), self.label(o.previous_sibling), self.label(o.next_sibling),
                   self.label(o.previous_element), self.label(o.next_element), kids]
            if iters:
                def safe(fn):
                    try:
                        return self.labels(fn())
                    except AttributeError:
                        return "crash"
                row += [safe(lambda: list(o.descendants)) if isinstance(o, Tag) else "-",
                        safe(lambda: bounded(o.next_elements)), safe(lambda: bounded(o.previous_elements)),
                        safe(lambda: bounded(o.next_siblings)), safe(lambda: bounded(o.previous_siblings)),
                        safe(lambda: bounded(o.parents))]
            out[l] = row
        return out


def bounded(it, limit=10000):
    out = []
    for x in it:
        out.append(x)
        if len(out) > limit:
            raise AttributeError("unbounded iteration")
    return out


def parse_model_dump(s: str, iters: bool) -> dict[str, list[str]]:
    out = {}
    for item in s.split(","):
        f = item.split(" ")
        out[f[0]] = f[1:]        # later (larger id) entries overwrite earlier ones with the same label
    return out


def split_labels(s: str) -> list[str]:
    """a '.'-joined list of labels -> labels. A merged string's label (`s1001.9`, text "1001.9.") itself contains dots: a token
    that does not begin with a letter continues the previous label."""
    out: list[str] = []
    for tk in s.split("."):
        if out and tk[:1].isdigit():
            out[-1] += "." + tk
        else:
            out.append(tk)
    return out


def canon(d: dict[str, list[str]], soups: set[str]) -> dict[str, list[str]]:
    """Remove the freedom the property grants: a BeautifulSoup root may stand outside the element chain.
    root.ne in {none, first child} -> '*'; first child's pe in {none, root} -> '*'; a trailing root is dropped
    from previous_elements; root.next_elements -> '*'."""
    out = {}
    for l, row in d.items():
        row = list(row)
        parent, ps, ns, pe, ne, kids = row[:6]
        first = split_labels(kids)[0] if kids != "-" else None
        if l in soups:
            if ne == "-" or ne == first:
                row[4] = "*"
            if len(row) > 6:
                row[7] = "*"
        if parent in soups and ps == "-" and (pe == "-" or pe == parent):
            row[3] = "*"
        if len(row) > 6:
            pv = split_labels(row[8]) if row[8] != "-" else []
            if pv and pv[-1] in soups:
                pv = pv[:-1]
            row[8] = ".".join(pv) if pv else "-"
        out[l] = row
    return out


# --------------------------------------------------------------------------------------------
# independent oracles
# --------------------------------------------------------------------------------------------
def oracle_c01(w: World) -> Optional[str]:
    """The statement of C01 evaluated directly on the real objects: every view is the pre-order of the
    children lists. Returns a description of the first discrepancy or None."""
    from bs4.element import Tag
    objs = list(w.objs.values())
    roots = [o for o in objs if o.parent is None]
    seen = set()
    for r in roots:
        order = []

        def walk(n, parent):
            order.append(n)
            if n.parent is not parent:
                raise ValueError(f"{w.label(n)}.parent is {w.label(n.parent)}, expected {w.label(parent)}")
            if isinstance(n, Tag):
                prev = None
                for c in n.contents:
                    if c.previous_sibling is not prev:
                        raise ValueError(f"{w.label(c)}.previous_sibling is {w.label(c.previous_sibling)}, expected {w.label(prev)}")
                    if prev is not None and prev.next_sibling is not c:
                        raise ValueError(f"{w.label(prev)}.next_sibling is {w.label(prev.next_sibling)}, expected {w.label(c)}")
                    walk(c, n)
                    prev = c
                if prev is not None and prev.next_sibling is not None:
                    raise ValueError(f"{w.label(prev)}.next_sibling is {w.label(prev.next_sibling)}, expected None")

        try:
            if r.previous_sibling is not None or r.next_sibling is not None:
                return f"root {w.label(r)} has a sibling link"
            walk(r, None)
        except ValueError as e:
            return str(e)
        ids = [id(x) for x in order]
        if len(set(ids)) != len(ids):
            return f"an element occurs twice in the tree of {w.label(r)}"
        for x in ids:
            if x in seen:
                return f"an element occurs in two trees"
            seen.add(x)
        soup = w.is_soup(r)
        for i, n in enumerate(order):
            want_ne = order[i + 1] if i + 1 < len(order) else None
            want_pe = order[i - 1] if i > 0 else None
            ne, pe = n.next_element, n.previous_element
            if soup and i == 0:
                if not (ne is None or ne is want_ne):
                    return f"root {w.label(n)}.next_element is {w.label(ne)}, not the first element"
                if pe is not None:
                    return f"root {w.label(n)}.previous_element is {w.label(pe)}"
                root_linked = ne is not None
            else:
                if ne is not want_ne:
                    return f"{w.label(n)}.next_element is {w.label(ne)}, expected {w.label(want_ne)}"
                if soup and i == 1:
                    if not (pe is None or pe is want_pe):
                        return f"{w.label(n)}.previous_element is {w.label(pe)}, expected root or None"
                elif pe is not want_pe:
                    return f"{w.label(n)}.previous_element is {w.label(pe)}, expected {w.label(want_pe)}"
            # iterators
            try:
                nxt = bounded(n.next_elements)
                prv = bounded(n.previous_elements)
                nsib = bounded(n.next_siblings)
                psib = bounded(n.previous_siblings)
                par = bounded(n.parents)
                desc = bounded(n.descendants) if isinstance(n, Tag) else None
            except AttributeError as e:
                return f"iterator of {w.label(n)} failed: {e}"
            want_next = order[i + 1:]
            if soup and i == 0:
                ok = len(nxt) == 0 or same(nxt, want_next)
            else:
                ok = same(nxt, want_next)
            if not ok:
                return f"{w.label(n)}.next_elements = {w.labels(nxt)}, expected {w.labels(want_next)}"
            want_prev = list(reversed(order[:i]))
            if soup and i > 0:
                if not (same(prv, want_prev) or same(prv, want_prev[:-1])):
                    return f"{w.label(n)}.previous_elements = {w.labels(prv)}, expected {w.labels(want_prev)}"
            elif not same(prv, want_prev):
                return f"{w.label(n)}.previous_elements = {w.labels(prv)}, expected {w.labels(want_prev)}"
            if n.parent is not None:
                sibs = n.parent.contents
                j = [k for k, c in enumerate(sibs) if c is n]
                if len(j) != 1:
                    return f"{w.label(n)} occurs {len(j)} times in its parent's contents"
                if not same(nsib, sibs[j[0] + 1:]):
                    return f"{w.label(n)}.next_siblings = {w.labels(nsib)}, expected {w.labels(sibs[j[0]+1:])}"
                if not same(psib, list(reversed(sibs[:j[0]]))):
                    return f"{w.label(n)}.previous_siblings wrong"
            elif nsib or psib:
                return f"root {w.label(n)} has siblings in its iterators"
            chain = []
            q = n.parent
            while q is not None and len(chain) < 10000:
                chain.append(q)
                q = q.parent
            if not same(par, chain):
                return f"{w.label(n)}.parents wrong"
            if desc is not None:
                sub = subtree(n)[1:]
                if not same(desc, sub):
                    return f"{w.label(n)}.descendants = {w.labels(desc)}, expected {w.labels(sub)}"
    # every live object is a root or a child of its parent: one that names a parent without being among its children (left behind
    # half-linked by a call that gave up midway) is in no tree at all and was never visited above
    for o in objs:
        if id(o) not in seen and not getattr(o, "_decomposed", False):
            p = o.parent
            if p is not None and not any(c is o for c in getattr(p, "contents", [])):
                return f"{w.label(o)}.parent is {w.label(p)} but it is not among {w.label(p)}'s children"
    # elements the harness no longer tracks (everything beneath a decompose()d element): a destroyed element has no link left at all,
    # and one that was beneath it but escaped destruction must not name a parent that does not list it (a subtree wiped half-way)
    for o in getattr(w, "keep", []):
        if id(o) in seen:
            continue
        if getattr(o, "_decomposed", False):
            # (decompose() empties the element's __dict__: a destroyed element does not even HAVE link attributes)
            if any(getattr(o, a, None) is not None for a in ("parent", "next_sibling", "previous_sibling", "next_element", "previous_element")) \
                    or getattr(o, "contents", None):
                return f"destroyed element {str(o)[:20]!r} still has links"
        elif o.parent is not None and not any(c is o for c in getattr(o.parent, "contents", [])):
            return f"element {str(o)[:20]!r} (beneath a destroyed element) names a parent that does not list it"
    return None


LINKS = ("parent", "previous_sibling", "next_sibling", "previous_element", "next_element")


def link_snapshot(w: World) -> dict:
    """the five pointers and the children list, by identity, of every element the world has ever seen and that was not destroyed"""
    out = {}
    for o in w.keep:
        if getattr(o, "_decomposed", False):
            continue
        kids = getattr(o, "contents", None)
        out[id(o)] = (o, tuple(id(getattr(o, a)) for a in LINKS), None if kids is None else tuple(id(c) for c in kids))
    return out


def copy_oracle(w: World, src, src_sub, clone, snap) -> Optional[str]:
    """The copy clause of C01 ("every fragment that was ... copied is a self-contained tree with no parent, no siblings and no links
    into the tree it came from") and of C02 (nothing else moves, no element lost or duplicated) evaluated directly on the real objects
    right after `clone = copy(src)`. `snap` = link_snapshot before the call, `src_sub` = the source subtree before the call."""
    from bs4.element import Tag
    # (1) the source and everything else is untouched
    for o, links, kids in snap.values():
        if getattr(o, "_decomposed", False):
            return f"the copy destroyed {w.label(o)}"
        now = tuple(id(getattr(o, a)) for a in LINKS)
        for a, x, y in zip(LINKS, links, now):
            if x != y:
                return f"copying {w.label(src)} changed {w.label(o)}.{a} (now {w.label(getattr(o, a))})"
        nk = getattr(o, "contents", None)
        if (None if nk is None else tuple(id(c) for c in nk)) != kids:
            return f"copying {w.label(src)} changed the children of {w.label(o)}"
    # (2) the clone is detached, consists of new objects only and has no link to anything outside itself
    if clone is None or type(clone) is not type(src):
        return f"the copy of {w.label(src)} ({type(src).__name__}) is a {type(clone).__name__}"
    for a in LINKS[:4]:
        if getattr(clone, a) is not None:
            return f"the copy of {w.label(src)} has a {a}: {w.label(getattr(clone, a))}"
    sub = subtree(clone)
    ids = [id(x) for x in sub]
    if len(set(ids)) != len(ids):
        return f"an element occurs twice in the copy of {w.label(src)}"
    old = {id(o) for o in w.keep}
    for k, x in enumerate(sub):
        if id(x) in old:
            return f"node {k} of the copy of {w.label(src)} is not a new object: it is {w.label(x)}"
    if sub[-1].next_element is not None:
        return f"the last element of the copy of {w.label(src)} has a next_element: {w.label(sub[-1].next_element)}"
    inside = set(ids)
    for k, x in enumerate(sub):
        for a in LINKS:
            y = getattr(x, a)
            if y is not None and id(y) not in inside:
                return f"node {k} of the copy of {w.label(src)} has a link out of the copy: {a} is {w.label(y)}"
    # (3) the clone is isomorphic to the source
    if len(sub) != len(src_sub):
        return f"the copy of {w.label(src)} has {len(sub)} elements, the original {len(src_sub)}"
    si = {id(x): k for k, x in enumerate(src_sub)}
    ci = {id(x): k for k, x in enumerate(sub)}
    for k, (x, y) in enumerate(zip(src_sub, sub)):
        if type(x) is not type(y):
            return f"node {k} of the copy of {w.label(src)} is a {type(y).__name__}, the original a {type(x).__name__}"
        if isinstance(x, Tag):
            if x.name != y.name:
                return f"node {k} of the copy of {w.label(src)} is named {y.name!r}, the original {x.name!r}"
            if [si[id(c)] for c in x.contents] != [ci[id(c)] for c in y.contents]:
                return f"the children of node {k} of the copy of {w.label(src)} do not correspond to those of the original"
        elif str(x) != str(y):
            return f"node {k} of the copy of {w.label(src)} has text {str(y)!r}, the original {str(x)!r}"
    return None


def smooth_is_unambiguous(w: World, t) -> bool:
    """histories with copies: a string smooth() creates is identified by its text on both sides, so (a) no run that would be merged
    may hold a copied string (whose label is not its text) and (b) the merged text must not be the label of another live string"""
    from bs4.element import Tag, NavigableString, PreformattedString
    made = set()
    for q in subtree(t):
        if not isinstance(q, Tag):
            continue
        runs, run = [], []
        for c in list(q.contents) + [None]:
            if isinstance(c, NavigableString) and not isinstance(c, PreformattedString):
                run.append(c)
            else:
                if len(run) >= 2:
                    runs.append(run)
                run = []
        for run in runs:
            if any(id(r) in w.copied_ids for r in run):
                return False
            text = "".join(str(r) for r in run)
            l = "s" + (text[:-1] if text.endswith(".") else text + "?")
            if l in w.objs or l in made:
                return False
            made.add(l)
    return True


def subtree(n):
    from bs4.element import Tag
    out = [n]
    if isinstance(n, Tag):
        for c in n.contents:
            out.extend(subtree(c))
    return out


def same(a, b):
    return len(a) == len(b) and all(x is y for x, y in zip(a, b))


class Spec:
    """C02's independent list-of-lists model of the documented effect of every editing call."""

    def __init__(self, kinds: str):
        self.kids: dict[str, list[str]] = {}
        self.parent: dict[str, Optional[str]] = {}
        self.kind: dict[str, str] = {}
        for i, k in enumerate(kinds):
            l = f"t{i}" if k in "tr" else f"s{i}"
            self.kids[l] = []
            self.parent[l] = None
            self.kind[l] = k

    def detach(self, e):
        p = self.parent.get(e)
        if p is not None:
            self.kids[p].remove(e)
        self.parent[e] = None

    def new_string(self, text, kind="s"):
        l = "s" + text
        self.kids[l] = []
        self.parent[l] = None
        self.kind[l] = kind
        return l

    def block(self, args):
        """Remove each argument from wherever it is, sequentially; the block keeps the last occurrence."""
        blk = []
        for a in args:
            if a.startswith("p"):
                elems = [self.new_string(a[1:])]
            elif self.kind[a] == "r":
                elems = list(self.kids[a])
            else:
                elems = [a]
            for e in elems:
                self.detach(e)
                if e in blk:
                    blk.remove(e)
                blk.append(e)
        return blk

    def splice(self, p, slot, blk):
        self.kids[p][slot:slot] = blk
        for e in blk:
            self.parent[e] = p

    def insert(self, p, pos, args):
        orig = list(self.kids[p])
        blk = self.block(args)
        slot = len([k for k in orig[:pos] if k not in blk])
        self.splice(p, slot, blk)

    def apply(self, op: str):
        f = op.split(":")
        k = f[0]
        args = lambda s: s.split(",") if s != "-" else []
        if k == "ap":
            self.insert(f[1], len(self.kids[f[1]]), [f[2]])
        elif k == "in":
            self.insert(f[1], int(f[2]), args(f[3]))
        elif k == "et":
            self.insert(f[1], len(self.kids[f[1]]), list(self.kids[f[2]]))
        elif k == "el":
            self.insert(f[1], len(self.kids[f[1]]), args(f[2]))
        elif k in ("ib", "ia"):
            x = f[1]
            p = self.parent[x]
            blk = self.block(args(f[2]))
            slot = self.kids[p].index(x) + (1 if k == "ia" else 0)
            self.splice(p, slot, blk)
        elif k == "rw":
            x = f[1]
            a = args(f[2])
            if a == [x]:
                return
            p = self.parent[x]
            orig = list(self.kids[p])
            i = orig.index(x)
            self.detach(x)
            blk = self.block(a)
            slot = len([k2 for k2 in orig[:i] if k2 not in blk])
            self.splice(p, slot, blk)
        elif k == "wr":
            x, wtag = f[1], f[2]
            self.apply(f"rw:{x}:{wtag}")
            self.insert(wtag, len(self.kids[wtag]), [x])
        elif k == "uw":
            x = f[1]
            p = self.parent[x]
            i = self.kids[p].index(x)
            self.detach(x)
            blk = list(self.kids[x])
            for e in blk:
                self.detach(e)
            self.splice(p, i, blk)
        elif k == "ex":
            self.detach(f[1])
        elif k == "cl":
            for e in list(self.kids[f[1]]):
                self.detach(e)
        elif k == "cd":
            for c in list(self.kids[f[1]]):
                self.detach(c)
                for e in self.subtree(c):
                    del self.kids[e], self.parent[e], self.kind[e]
        elif k == "de":
            self.detach(f[1])
            for e in self.subtree(f[1]):
                del self.kids[e], self.parent[e], self.kind[e]
        elif k == "sm":
            for t in [e for e in self.subtree(f[1]) if self.kind[e] in "tr"]:
                out, run = [], []

                def flush():
                    if len(run) >= 2:
                        n = self.new_string(".".join(r[1:] for r in run))
                        for r in run:
                            self.parent[r] = None
                        self.parent[n] = t
                        out.append(n)
                    else:
                        out.extend(run)
                    run.clear()
                for c in self.kids[t]:
                    if self.kind[c] == "s":
                        run.append(c)
                    else:
                        flush()
                        out.append(c)
                flush()
                self.kids[t] = out
        elif k == "cp":
            # a copy: new elements for the pre-order of the subtree, nested the same way, beneath nothing; nothing else changes
            sub = self.subtree(f[1])
            m = {e: ("t" if self.kind[e] in "tr" else "s") + str(int(f[2]) + i) for i, e in enumerate(sub)}
            for e in sub:
                self.kids[m[e]] = [m[c] for c in self.kids[e]]
                self.parent[m[e]] = None if e == f[1] else m[self.parent[e]]
                self.kind[m[e]] = self.kind[e]
        elif k in ("ss", "se"):
            knd = ("c" if f[2] == "c" else "s") if k == "ss" else self.kind[f[2]]
            for e in list(self.kids[f[1]]):
                self.detach(e)
            n = self.new_string(f[3], knd)
            self.splice(f[1], 0, [n])

    def subtree(self, e):
        out = [e]
        for c in self.kids[e]:
            out.extend(self.subtree(c))
        return out

    def shape(self):
        return {l: ".".join(k) if k else "-" for l, k in self.kids.items()}


# --------------------------------------------------------------------------------------------
# history generation (interleaved with execution on the real objects)
# --------------------------------------------------------------------------------------------
def make_world(rng, parsed: bool, string_subclasses: bool = True):
    """Returns (world, kinds, prefix_ops): prefix_ops rebuild the same start forest in the model by appends."""
    n_soup = rng.choice([1, 1, 2])
    n_tag = rng.randint(3, 9)
    n_str = rng.randint(2, 6)
    n_pre = rng.randint(0, 2)
    kinds = "r" * n_soup + "t" * n_tag + "s" * n_str + "c" * n_pre
    ids = list(range(len(kinds)))
    if not parsed:
        return World(kinds, twin_rng=rng if rng.random() < 0.3 else None), kinds, []
    # a random tree over a subset of the nodes, written as markup and parsed by html.parser
    tags = [i for i in ids if kinds[i] == "t"]
    leaves = [i for i in ids if kinds[i] in "sc"]
    rng.shuffle(tags); rng.shuffle(leaves)
    use_t = tags[: rng.randint(1, len(tags))]
    use_l = leaves[: rng.randint(0, len(leaves))]
    children = {0: []}
    order = []
    for t in use_t:
        p = rng.choice([0] + order)
        children.setdefault(p, []).append(t)
        children[t] = []
        order.append(t)
    for l in use_l:
        p = rng.choice([0] + order)
        # two adjacent plain strings would be merged by the parser: keep a non-string between them
        sib = children[p]
        if sib and kinds[sib[-1]] == "s" and kinds[l] == "s":
            continue
        sib.append(l)

    def write(i):
        if kinds[i] == "s":
            return f"{i}."
        if kinds[i] == "c":
            return f"<!--{i}.-->"
        inner = "".join(write(c) for c in children[i])
        return inner if i == 0 else f"<t{i}>{inner}</t{i}>"

    from bs4 import BeautifulSoup
    from bs4.element import Tag
    soup = BeautifulSoup(write(0), "html.parser")
    w = World.__new__(World)
    w.call_forms = {}
    w.kinds = kinds
    w.base = BeautifulSoup("", "html.parser")
    w.objs, w.lab, w.keep, w.next_plain = {}, {}, [], 1000
    w.init_copy_state()
    w.register(soup, 0)
    prefix = []

    def reg(o, plabel):
        if isinstance(o, Tag):
            i = int(o.name[1:])
            w.register(o, i)
        else:
            w.register(o)
        prefix.append(f"ap:{plabel}:{w.label(o)}")
        if isinstance(o, Tag):
            for c in o.contents:
                reg(c, w.label(o))
    for c in soup.contents:
        reg(c, "t0")
    # the remaining declared nodes exist as fresh objects
    from bs4.element import NavigableString, Comment
    for i, k in enumerate(kinds):
        l = f"t{i}" if k in "tr" else f"s{i}"
        if l in w.objs:
            continue
        if k == "t":
            o = w.base.new_tag(f"t{i}")
        elif k == "r":
            o = BeautifulSoup("", "html.parser")
        elif k == "s":
            o = (plain_string_class(i, len(kinds)) if string_subclasses else NavigableString)(f"{i}.")
        else:
            o = Comment(f"{i}.")
        w.register(o, i)
    return w, kinds, prefix


def ancestors_or_self(o):
    out = []
    while o is not None:
        out.append(o)
        o = o.parent
    return out


COPY_MAX_NODES = 12      # the model's node ids stay below 1000 (the labels of clone nodes start at 1001)
COPY_MAX_LIVE = 60


def gen_copy(rng, w: World, stats, objs) -> Optional[str]:
    """`cp:<label>:<N>`: a copy of a random live element - tag, string, comment, BeautifulSoup object, attached or a root, inside an
    extracted fragment, a node of an earlier copy. N = the first of the numbers that label the clone's nodes (above everything in use)."""
    from bs4.element import Tag, PreformattedString
    if len(objs) > COPY_MAX_LIVE:
        return None
    cands = [(l, o, len(subtree(o))) for l, o in objs]
    cands = [c for c in cands if c[2] <= COPY_MAX_NODES]
    deep = [c for c in cands if c[2] >= 3]
    if not cands:
        return None
    l, o, size = rng.choice(deep if deep and rng.random() < 0.5 else cands)
    stats["cp:soup" if w.is_soup(o) else "cp:tag" if isinstance(o, Tag) else "cp:comment" if isinstance(o, PreformattedString) else "cp:string"] += 1
    stats["cp:attached" if o.parent is not None else "cp:root"] += 1
    if l in w.copy_labels:
        stats["cp:of-copy"] += 1
    if o.parent is not None and not w.is_soup(ancestors_or_self(o)[-1]):
        stats["cp:inside-a-fragment"] += 1
    if size >= 3:
        stats["cp:subtree>=3"] += 1
    stats["cp:nodes"] += size
    n0 = w.next_plain + 1
    w.next_plain += size
    return f"cp:{l}:{n0}"


def gen_op(rng, w: World, stats, string_objects=True, copies=0.0) -> Optional[str]:
    """One random editing call within the quantifier of C01/C02, chosen by looking at the real forest. `copies` > 0: that share of
    the steps copies an element instead (the random stream of a history without copies is what it always was)."""
    from bs4.element import Tag
    objs = w.live()
    if copies > 0 and rng.random() < copies:
        op = gen_copy(rng, w, stats, objs)
        if op is not None:
            return op
    tags = [(l, o) for l, o in objs if isinstance(o, Tag)]
    attached = [(l, o) for l, o in objs if o.parent is not None]

    def pick_args(parent_obj, n, allow_soup=True, forbid=()):
        anc = {id(a) for a in ancestors_or_self(parent_obj)}
        out = []
        for _ in range(n):
            r = rng.random()
            if r < 0.2:
                out.append("p" + w.fresh_plain())
                stats["arg:plain"] += 1
                continue
            cands = [(l, o) for l, o in objs if id(o) not in anc and l not in forbid
                     and (allow_soup or not w.is_soup(o))]
            if r < 0.3 and [a for a in out if not a.startswith("p")]:
                out.append(rng.choice([a for a in out if not a.startswith("p")]))          # a repeated argument
                stats["arg:repeat"] += 1
                continue
            if not cands:
                out.append("p" + w.fresh_plain())
                continue
            # prefer interesting provenance: same parent, other tree, descendants
            same_parent = [(l, o) for l, o in cands if o.parent is parent_obj]
            if same_parent and rng.random() < 0.45:
                l, o = rng.choice(same_parent)
                stats["arg:same-parent"] += 1
            else:
                l, o = rng.choice(cands)
                if o.parent is None:
                    stats["arg:root-or-fresh"] += 1
                else:
                    stats["arg:elsewhere"] += 1
                if w.is_soup(o):
                    stats["arg:soup"] += 1
            out.append(l)
        return out

    nargs = lambda: 1 if rng.random() < 0.6 else rng.randint(2, 4)
    for _ in range(20):
        k = rng.choice(OPS)
        if k == "ap" and tags:
            l, o = rng.choice(tags)
            return f"ap:{l}:{pick_args(o, 1)[0]}"
        if k == "in" and tags:
            l, o = rng.choice(tags)
            pos = rng.randint(0, len(o.contents) + 1)
            if rng.random() < 0.25:
                # any Python integer is a position: negative ones count from the end as in list.insert (clamped at the front)
                pos = rng.randint(-(len(o.contents) + 2), -1)
                stats["pos:negative"] += 1
            return f"in:{l}:{pos}:{','.join(pick_args(o, nargs()))}"
        if k == "et" and len(tags) >= 1:
            l, o = rng.choice(tags)
            anc = {id(a) for a in ancestors_or_self(o)}
            # the children of t are appended: none of them may be an ancestor of the target
            cands = [(l2, o2) for l2, o2 in tags if not any(id(c) in anc for c in o2.contents)]
            if cands:
                l2, o2 = rng.choice(cands)
                return f"et:{l}:{l2}"
        if k == "el" and tags:
            l, o = rng.choice(tags)
            return f"el:{l}:{','.join(pick_args(o, nargs()))}"
        if k in ("ib", "ia", "rw") and attached:
            l, o = rng.choice(attached)
            forbid = () if rng.random() < 0.08 else (l,)
            a = pick_args(o.parent, nargs(), forbid=forbid)
            if not forbid and rng.random() < 0.6:
                # the target itself among the arguments, NOT in first place: the call is refused (ValueError) - and must then have
                # touched nothing, in particular not the arguments before the offending one
                a = a + [l] if rng.random() < 0.5 else a[:1] + [l] + a[1:]
                stats["arg:target-among-arguments"] += 1
            return f"{k}:{l}:{','.join(a)}"
        if k == "wr" and attached:
            l, o = rng.choice(attached)
            anc = {id(a) for a in ancestors_or_self(o.parent)}
            cands = [(l2, o2) for l2, o2 in tags if id(o2) not in anc and not w.is_soup(o2) and o2 is not o]
            if cands:
                l2, o2 = rng.choice(cands)
                return f"wr:{l}:{l2}"
        if k == "uw":
            cands = [(l, o) for l, o in attached if isinstance(o, Tag)]
            if cands:
                return f"uw:{rng.choice(cands)[0]}"
        if k == "ex" and objs:
            pool = attached if attached and rng.random() < 0.85 else objs
            return f"ex:{rng.choice(pool)[0]}"
        if k == "cl" and tags and rng.random() < 0.5:
            return f"cl:{rng.choice(tags)[0]}"
        if k == "cd" and tags and rng.random() < 0.35:
            cand = [(l, o) for l, o in tags if o.contents]
            if cand:
                return f"cd:{rng.choice(cand)[0]}"
        if k == "de" and attached and rng.random() < 0.4:
            l, o = rng.choice(attached)
            # a subtree with an EMPTY string in its middle (falsy, yet an element like any other) is the interesting one to destroy
            holed = [(l2, o2) for l2, o2 in attached if isinstance(o2, Tag) and any(str(x) == "" and not isinstance(x, Tag) for x in subtree(o2)[1:-1])]
            if holed and rng.random() < 0.6:
                l, o = rng.choice(holed)
                stats["de:empty-string-inside"] += 1
            return f"de:{l}"
        if k == "sm" and tags and not getattr(w, "twin", False) and not getattr(w, "se_used", False):
            l, o = rng.choice(tags)
            if copies > 0 and not smooth_is_unambiguous(w, o):
                stats["sm:skipped-ambiguous-after-copy"] += 1
                continue
            return f"sm:{l}"
        if k == "se" and string_objects and tags and rng.random() < 0.5:
            from bs4.element import NavigableString
            l, o = rng.choice(tags)
            chains = [(l2, o2) for l2, o2 in tags if o2.string is not None and isinstance(o2.contents[0], Tag)]
            if chains and rng.random() < 0.5:
                l, o = rng.choice(chains)       # `.string` reaches through a chain of only children
            own = o.string
            strs = [(l2, o2) for l2, o2 in objs if isinstance(o2, NavigableString)]
            if own is not None and w.objs.get(w.label(own)) is own and rng.random() < 0.6:
                stats["se:own-string"] += 1
                stats["se:own-string-deeper" if own.parent is not o else "se:own-string-child"] += 1
                return f"se:{l}:{w.label(own)}:{w.fresh_plain()}"
            if strs:
                stats["se:other-string"] += 1
                return f"se:{l}:{rng.choice(strs)[0]}:{w.fresh_plain()}"
        if k == "ss" and tags and rng.random() < 0.6:
            l, o = rng.choice(tags)
            return f"ss:{l}:{'c' if rng.random() < 0.2 else 's'}:{w.fresh_plain()}"
    return None
