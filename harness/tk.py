"""TK — the Lean model of CPython's html.parser tokenizer (lean/BSModel/Model/Tokenizer.lean) against the real one.

Not a property check of its own: C04 and C18 call `stream(ctx, texts)` as an extra correspondence stream
("tokenizer-model"), and `./check TK` (or `python -m harness.tk`) runs the full correspondence stand-alone:

  real  = c04.Recorder (a plain HTMLParser(convert_charrefs=False) subclass: feed(text); close())
  model = `tk tokens <text> <table>` of the Lean driver, the table answering the model's questions to its parameters
          (`tk needs <text>`): html.unescape of the raw attribute values, str.lower of the names, the html5 entity table.

Per text the two callback streams must be identical strings (same callbacks, same order, same names, attributes,
data chunking and positions), `error` where the real parser raises AssertionError. In addition the model's spans
(`tk spans`) are checked directly in Python: they tile the text, every D span's text is its content, every ST/SE
position of the REAL recorder is the line/column of the model's span start."""
import html, json, re, sys

from .common import Ctx, Driver, cps
from . import c04

SPECIAL = ["<", ">", "/", "&", "#", ";", "=", "'", "\"", "!", "?", "-", "[", "]", " ", "\n", "\t", "\r", "\x0c", "\x0b", "\x00", "a", "B", "x",
           "s", "1", "\xa0", " ", "é", "É", "İ", "ſ", "K", "Σ", "\U0001F600", "\ud800"]

DIRECTED = [
    # unterminated constructs
    "<", "<a", "<a ", "<a b", "<a b=", "<a b='", "<a b='c", "<a b=\"c", "<a b=c", "<a b='c'", "<a/", "<a /", "<a b/", "x<", "x<a", "<a\n", "<a\x00",
    "<!--", "<!--x", "<!--x-", "<!--x--", "<!--x-- ", "<!--x--!>", "<!-->", "<!--->", "<!---->", "<!-- -- >", "<!--a-- \n>b", "<!--a--\xa0>", "<!--a--b-->",
    "<!", "<!>", "<!x", "<!x>", "<!doctype", "<!DOCTYPE", "<!DOCTYPE html", "<!DOCTYPE html>", "<!doctype>", "<!DocType x y>z", "<!doctypehtml>", "<!doctyp>",
    "<!doctyKe>", "<!-", "<!->", "<!-x>", "<?", "<?>", "<?x", "<?x?>", "<?xml version='1.0'?>\n<a>", "<? >", "</", "</>", "</>x", "</ >", "</ a>",
    "</a", "</a ", "</a >", "</a\n>", "</a b>", "</a b='>'>", "</a/>", "</1>", "</1", "</!>", "</?>", "</a-b>", "</a:b_c.d>", "</A>", "</É>", "</aÉ>", "</aΣ>",
    "</aΑΣ>", "<aΑΣ>", "<aΑΣ b=1>", "<a ΑΣ=1>", "<aİ>", "</aİ>", "<İ>", "<a İ=1>", "<aK>", "</aK>",
    # start tags
    "<a/b>", "<a/ b>", "<a / b>", "<a//b>", "<a/>", "<a />", "<a/ >", "<a / >", "<a//>", "<a b/>", "<a b />", "<a b=c/>", "<a b=c />", "<a b='c'/>",
    "<a b=\"c\"/>", "<a b>", "<a b c>", "<a b=>", "<a b= >", "<a b==>", "<a b==c>", "<a b = c>", "<a b\n=\nc>", "<a b='c' b=\"d\" B=e>", "<a b=c'd>",
    "<a b=c\"d>", "<a b='c\"d'>", "<a b=\"c'd\">", "<a b='c'd>", "<a b='c'd=e>", "<a b='c''d'>", "<a b= 'c>", "<a b=  'c>", "<a b=='c>", "<a b==='c>",
    "<a b=='c'>", "<a b= \"c>", "<a b==\"c>", "<a b='c>", "<a b=\"c>", "<a b='c>d'>", "<a b=\"c>d\">", "<a b=c>d>", "<a '>", "<a '='x>", "<a \"=\"x\">",
    "<a =>", "<a =b>", "<a ==b>", "<a = b>", "<a =b=c>", "<a'b>", "<a'\x00b>", "<a\x00b>", "<a \x00b>", "<a b\x00c=d>", "<a b=\x00>", "<a\tb\nc\rd\x0ce>",
    "<a\x0bb>", "<a\xa0b>", "<a \xa0b>", "<a b=c\xa0d>", "<a b =c>", "<A B=C>", "<a B='C&amp;D'>", "<a b='&lt;&#65;&#x41;&notit;&amp'>", "<a b=&amp;>",
    "<a b='&#1;'>", "<a b='&#0;&#x110000;&#xD800;'>", "<a b='&'>", "<a b=''>", "<a b=\"\">", "<a b='\n'>", "<a\nb='c\nd'\n>", "<a b=c>\n<d\n e>", "<a<b>", "<a <b>",
    "<a b=<c>", "<a b='<c>'>", "<a><b></a></b>", "<a>>", "<a b=c>>", "<a >", "<a  >", "<a\n>", "<a b=c d>", "<a b=c\td>", "<a-b>", "<a.b:c_d>", "<a1>", "<1a>",
    "<a&b>", "<a&amp;b>", "<a b&c=d>", "<aé>", "<é>", "<a é=ü>", "<a b=é>", "<a b='é'>", "<ab", "<a=b>", "<a=>", "<a==>", "<a/=>", "<a/=b>", "<a /=b>",
    "<a b/=c>", "<a b/c=d/>", "<a b=c/ >", "<a b=c / >", "<a b = 'c' / >", "<br/><br>", "<br / >x", "<a/\n>", "<a\n/>", "<a/\n/>", "<a / / >",
    # script / style raw text
    "<script>", "<script>x", "<script>x</script>", "<script>x</script >", "<script>x</script\n>", "<script>x</ script>", "<script>x</\nscript\t>", "<script>x</scrip>",
    "<script>x</scrip", "<script>x</scriptx>", "<script>x</script x>", "<script>x</SCRIPT>", "<SCRIPT>x</script>", "<script>x</ScRiPt>y", "<script>x</ſcript>y</script>",
    "<script>x</scrİpt>y</script>", "<script>x</scrıpt>y</script>", "<script>x</style>y</script>z", "<style>x</script>y</style>z", "<style>a<b>&amp;</style>",
    "<script><!--x--></script>", "<script>a<b&c</script>", "<script>a</b></script>", "<script>a</></script>", "<script>a</ ></script>", "<script>a</1></script>",
    "<script/>x</script>", "<script />x", "<script a=b>x</script>", "<script a='</script>'>x</script>", "<script>\n\n</script>\n<a>", "<script>x</script", "<script>x</script ",
    "<script>x</", "<script>x<", "<script>&amp;&#65;</script>&amp;", "<style>", "<style>x</style", "<STYLE>x</STYLE>", "<style>x</stylİ>", "<scrİpt>x</script>",
    "<ſcript>x", "<script>x</script>y<script>z</script>", "<script>x</scripty></script>", "<script></script></script>", "<textarea>x</textarea>", "<title>x</title>", "<textarea>a<b>&amp;</textarea>", "<title>a<b></title>", "<xmp><b></xmp>", "<plaintext><b>",
    # marked sections
    "<![", "<![CDATA[", "<![CDATA[x", "<![CDATA[x]]", "<![CDATA[x]]>", "<![CDATA[x] ]>", "<![CDATA[x]\n]\n>", "<![CDATA[]]>", "<![CDATA[x]>", "<![cdata[x]]>",
    "<![CDATA x]]>", "<![CDATA]]>", "<![CDATA", "<![CDATA[a]]>b]]>", "<![CDATA[a>b]]>", "<![if x]>", "<![if x]>y<![endif]>", "<![endif]>", "<![endif]", "<![endif",
    "<![else]>", "<![if", "<![if ", "<![if]>", "<![IF x]>", "<![if x] >", "<![if x]\n>", "<![if x]]>", "<![x]>", "<![foo]>", "<![ x]>", "<![1]>", "<![]>", "<![>", "<![[",
    "<![temp x]]>", "<![ignore[x]]>", "<![include[x]]>", "<![rcdata[x]]>", "<![RCDATA[x] ] >", "<![if-x]>", "<![if.x_y]>", "<![ifx]>", "<![cdata", "<![cdata ", "<![cdata x",
    "<![if x]><![foo]>", "a\n<![foo]>", "<![temp", "<![temp]]>", "<![iİf x]>", "<![İf x]>",
    # references
    "&", "&&", "& ", "&;", "&a", "&a;", "&a ", "&amp", "&amp;", "&amp;&lt;", "&amp x", "&amp=", "&amp<a>", "&a-b", "&a-b-", "&a.b.", "&a-", "&a.", "&a--", "&a-b;", "&a1", "&a1;",
    "&1;", "&1", "&-a;", "x&", "x&a", "x&am", "&am\n", "&a\n;", "&#", "&#;", "&#x", "&#x;", "&#X;", "&#1", "&#1;", "&#12", "&#12;", "&#12 ", "&#12a;", "&#12x;", "&#12g", "&#x1",
    "&#x1;", "&#x1g", "&#xg;", "&#X1F;", "&#x1f ", "&#0x10;", "&#x;y", "&#;abc &#65;", "&#a;", "&# 1;", "&#1;&#2;", "&#65", "&#65<a>", "&#65&#66;", "&#x41&#x42", "&#;", "&#;&#;",
    "&#&#;", "&#x&#;", "&#1\n;", "&a&b;", "&a&b", "&a<", "&<", "&<a>", "&>", "&\n", "&\x00", "&é;", "&aé;", "&#１;", "&#x１;", "&amp\n;x", "a&amp;b&lt;c", "&a;&b", "&#1;&b", "&a;&#1",
    "&a;&#", "&a;&", "&#1;&", "&#1;&#", "x&#;y&", "x&#;y&z", "&#x;&a", "&#;<a", "&#;<a>",
    # NUL, CR, CRLF, non-ASCII, positions
    "\x00", "a\x00b", "<a>\x00</a>", "\r", "\r\n", "a\rb", "a\r\nb", "<a\r\nb='c'\r\n>", "<a>\r<b>", "<a>\r\n<b>", "\n<a>", "\n\n<a>\n<b>", "a\n<a b='\n'>\n<c>", "é<a>", "☃\n<a>",
    "\U0001F600<a>\n\U0001F600<b>", "\ud800<a>", "﻿<a>", "<a> <b>", "<a>\x0b<b>", "<a>\x85\n<b>", "x\n<!--\n-->\n<a>", "x\n<?\n>\n<a>", "x\n<![CDATA[\n]]>\n<a>",
    "x\n<!DOCTYPE\nhtml>\n<a>", "x\n</a\n>\n<a>", "x\n&amp;\n<a>", "x\n&#10;\n<a>", "x\n<script>\n</script>\n<a>", "<a>\n<br/>\n<b>", "\n<a/>", "ab\ncd<e>", "",
    # mixtures that once mattered
    "<a b='c' <d>", "<a b=c<d>e>", "<a\n\nb>\n\n<c>", "<p><a href='x'>y</a></p>", "<a>x</a", "<a>x</", "<a>x<", "<a>&", "<a>&#", "<a>&a", "<a>&#1", "<<a>", "<<", "<>", "< >", "< a>",
    "<\n", "<1>", "<->", "<=>", "<a></a></>", "<a href=\"x\"y>", "<a href=x\"y\">", "<img src=x onerror=\"a>b\">", "<a b=c d='e' f=\"g\" h>", "</a></b>", "</script>", "</style >",
    # both sides of the exact round-trip predicates of Props/TK (CommentBodyOK, NoGt, CdataBodyOK, TextOK)
    "<!--a>b--c- --->x", "<!--a-- \n>b-->x", "<!--a--->", "<!--a---->", "<!--a-->-->", "<!--a- ->b-->", "<!--a--\t\x0b>-->", "<!--a--!>b-->", "<!---->b-->",
    "<!-- -- -- >x-->", "<!--a>-->", "<!--->-->", "<!---->-->", "<?a>b>x", "<?a?>b", "<?>>", "<?a\n>b", "<!DOCTYPE a [<!ENTITY b \"c\">]>x", "<!DocType html>x",
    "<!doctype>>", "<!DOCTYPE>", "<![CDATA[a>b]]c] ]]]>x", "<![CDATA[a] \n] >b]]>x", "<![CDATA[a]]]>", "<![CDATA[a] ]]>", "<![CDATA[a]] ]>b]]>", "<![CDATA[]]]]>",
    "<![CDATA[a]\xa0]>b]]>", "<![CDATA[a]>]]>", "<![CDATA[]>]]>", "a>b;\n<i>", "a& b<i>", "a&b<i>", "a<b<i>", "a<<i>", ">&<i>",
    "<a b='c' / d>", "<a b='c'/ d>", "<a b='c'/d>", "<a b='c' /d>", "<a b= c>", "<a b =c>", "<a b\t=\tc>", "<a b=\xa0c>", "<a b\xa0=c>", "<a b=c\x0bd>", "<a\x0c>", "<a\x0cb>",
]

_ws_re = re.compile(r"\s")


def stdlib_facts(ctx, drv):
    """The three facts about `re`/`str` the model builds in, checked over all code points."""
    ws_model, *ci = drv.ask(["tk ws"] + [f"tk ci {ord(ch)}" for ch in "scriptyle"])
    ws_real = [c for c in range(0x110000) if _ws_re.match(chr(c))]
    if ",".join(map(str, ws_real)) != ws_model:
        ctx.violation("the model's \\s set differs from re's", case={"fact": "ws"}, expected=ws_real, model=ws_model, stream="tokenizer-model:stdlib-facts",
                      no_failing_input=True)
    for ch, m in zip("scriptyle", ci):
        r = re.compile(ch, re.I)
        real = [c for c in range(0x110000) if r.match(chr(c))]
        if ",".join(map(str, real)) != m:
            ctx.violation(f"re.I equivalents of {ch!r} differ from the model's ciEq", case={"fact": "ci", "letter": ch}, expected=real, model=m,
                          stream="tokenizer-model:stdlib-facts", no_failing_input=True)
    odd = [c for c in range(128, 0x110000) if len(chr(c).lower()) == 1 and ord(chr(c).lower()) < 128 and chr(c).lower() in "doctypescriptstyle"]
    if odd:
        ctx.violation("a non-ASCII code point lowers to a letter of doctype/script/style: asciiLower no longer stands in for str.lower there",
                      case={"fact": "lower", "code_points": odd}, stream="tokenizer-model:stdlib-facts", no_failing_input=True)
    ctx.count("tk:stdlib-facts", 11)


def _tab(needs):
    ent = []
    if needs != "-":
        for q in needs.split(";"):
            kind, key = q[:2], q[2:]
            s = c04.uncps(key)
            if kind == "u:":
                v = html.unescape(s)
                if v != s:
                    ent.append(f"u:{key}={cps(v) or '-'}")
            elif kind == "l:":
                v = s.lower()
                if v != s:
                    ent.append(f"l:{key}={cps(v) or '-'}")
            elif kind == "e:":
                v = c04.ENTITY_DENOTES.get(s)
                ent.append(f"e:{key}={'~' if v is None else (cps(v) or '-')}")
    return ";".join(ent) or "-"


def model_streams(drv, texts):
    """[(tokens reply, spans reply)] of the Lean model for each text (two driver passes: needs, then tokens+spans)."""
    needs = drv.ask([f"tk needs {cps(t) or '-'}" for t in texts])
    tabs = [_tab(n) for n in needs]
    rep = drv.ask([f"tk {op} {cps(t) or '-'} {tb}" for t, tb in zip(texts, tabs) for op in ("tokens", "spans")])
    return [(rep[2 * i], rep[2 * i + 1]) for i in range(len(texts))]


def real_stream(text):
    evs = c04.record(text)
    if evs is None:
        return "error"
    return ";".join(evs) if evs else "-"


def linecol(text, off):
    return (text.count("\n", 0, off) + 1, off - (text.rfind("\n", 0, off) + 1))


def check_spans(text, real, spans):
    """Direct check of the span theorems' content on one text; returns a complaint or None."""
    body, rest, cd, flag = spans.split("|")
    if flag != "ok":
        return None if (flag == "error" and real == "error") else f"flag {flag}"
    sp = [] if body == "-" else [x.split(":") for x in body.split(";")]
    at = 0
    for k, lo, hi in sp:
        if int(lo) != at or int(hi) < int(lo):
            return f"spans do not tile at {lo}"
        at = int(hi)
    n_rest = int(rest[5:])
    if at + n_rest != len(text):
        return "spans + rest do not cover the text"
    if n_rest and cd == "cd=-":
        return "unconsumed rest outside CDATA mode"
    revs = [] if real in ("-", "error") else real.split(";")
    cbs = [x for x in sp if x[0] != "SK"]
    if len(cbs) != len(revs):
        return "span count differs from callback count"
    for (k, lo, hi), e in zip(cbs, revs):
        f = e.split("|")
        if f[0] != k:
            return "span kinds differ"
        if k == "D" and c04.uncps(f[1]) != text[int(lo):int(hi)]:
            return f"data callback is not the text of its span {lo}:{hi}"
        if k in ("ST", "SE") and (int(f[2]), int(f[3])) != linecol(text, int(lo)):
            return f"start tag position {f[2]}.{f[3]} is not the line/column of its '<' at {lo}"
        if k in ("ST", "SE") and text[int(lo)] != "<":
            return "start tag span does not begin with '<'"
    return None


def start_offsets(spans):
    """offsets of the start-tag chunks in a `tk spans` reply (the Lean `startOffsets`)"""
    body = spans.split("|")[0]
    return [] if body == "-" else [int(x.split(":")[1]) for x in body.split(";") if x.split(":")[0] in ("ST", "SE")]


def stream(ctx: Ctx, texts, name="tokenizer-model", drv=None, kinds=None, collect=None):
    """Compare recorder and model on `texts`; reports disagreements as violations of the calling check (model vs code:
    no_failing_input unless the span facts themselves fail on the real stream)."""
    drv = drv or Driver()
    texts = list(texts)
    B = 10000
    bad = 0
    for off in range(0, len(texts), B):
        chunk = texts[off:off + B]
        reps = model_streams(drv, chunk)
        for idx, (t, (mt, ms)) in enumerate(zip(chunk, reps)):
            real = real_stream(t)
            if collect is not None:
                collect.append((t, real, mt, ms))
            ctx.count(f"{name}:texts")
            if kinds is not None:
                ctx.count(f"{name}:{kinds[off + idx]}")
            if real == "error":
                ctx.count(f"{name}:error")
            for e in ([] if real in ("-", "error") else real.split(";")):
                ctx.count(f"{name}:cb:" + e.split("|")[0])
            if real != mt:
                bad += 1
                ctx.corr_disagreements += 1
                ctx.violation("the Lean tokenizer model and html.parser disagree on the callback stream", case={"text": t}, observed=real, model=mt,
                              stream=name, no_failing_input=True)
                continue
            w = check_spans(t, real, ms)
            if w:
                bad += 1
                ctx.violation("tokenizer spans: " + w, case={"text": t}, observed=real, model=ms, stream=name, no_failing_input=True)
            if "SK:" in ms:
                ctx.count(f"{name}:silent-skip")
            if "|rest=0|" not in ms and real != "error":
                ctx.count(f"{name}:unconsumed-rest-in-cdata-mode")
    return bad


def _has_raw(nodes):
    return any(nd[0] == "e" and (nd[1] in ("script", "style") or _has_raw(nd[3])) for nd in nodes)


def _attr_values(nodes):
    for nd in nodes:
        if nd[0] == "e":
            yield from ((nd[1], k, v) for k, v in nd[2])
            yield from _attr_values(nd[3])
            if not nd[2]:
                yield (nd[1], None, None)


def written_stream(ctx: Ctx, drv=None, n=None):
    """`parse_of_written_document` (Props/C04.lean) tied to the real code: for documents of C04's tree model (plus doctypes and
    `<![if …]>` declarations) written by the Python writer in `plain` mode with logged choices,
      (i)   Lean `writeText doc choices` = the Python writer's text, character for character, and `Writable` holds;
      (ii)  `derivedPos` of every element = line/column of the offset the Python writer recorded;
      (iii) recorder(text) = Lean tokenizer(text) (stream `stream`), and = Lean `emit doc choices` up to data chunking;
      (iv)  the hypotheses on the parameters: str.lower leaves the names alone, html.unescape inverts `escAttr` on the values."""
    drv = drv or Driver()
    lines, meta = [], []
    # `ParamsOK` (the theorem's hypotheses on its two parameters) against the real functions, beyond the values that occur below:
    # html.unescape inverts escAttr on strings built from everything that looks like a reference; str.lower leaves names of the
    # writer's class [a-z][-.:_a-z0-9]* alone
    atoms = ["&", "amp", ";", "&amp;", "&#38;", "&lt", "\"", "&quot;", "#", "x", "&#x26;", "&notin;", "&am", "p;", "quot", " ", "é", "&#", "&#x", "1", "<", ">", "'"]
    for i in range(ctx.n(3000, 30000)):
        r = ctx.rng("paramsok", i)
        v = "".join(r.choice(atoms) for _ in range(r.randint(1, 6)))
        nm = r.choice("abcxyz") + "".join(r.choice("abz019-.:_") for _ in range(r.randint(0, 5)))
        if html.unescape(c04.esc_attr_plain(v)) != v or nm.lower() != nm:
            ctx.violation("ParamsOK fails for the real html.unescape / str.lower", case={"value": v, "name": nm}, stream="written-text",
                          no_failing_input=True)
    ctx.count("written-text:ParamsOK-samples", ctx.n(3000, 30000))
    for i in range(n if n is not None else ctx.n(1500, 20000)):
        r = ctx.rng("written-text", i)
        x = ctx.rng("written-text-extra", i)
        nodes = c04.gen_tree(r)
        if x.random() < 0.3:
            nodes = [("dt", x.choice(["html", "HTML PUBLIC \"-//W3C//DTD HTML 4.01//EN\"", "x  y", "", " ", "html\n"]))] + nodes
        if x.random() < 0.15:
            nodes.insert(x.randint(0, len(nodes)), ("ud", x.choice(["if x", "endif", "if gte mso 9", "else", "if !IE", "IF a]b", "EndIf"])))
        if x.random() < 0.5:
            nodes = [("t", x.choice(["\n", "\n\n", "a\nb", "\r\n", " "]))] + nodes
        log = c04.ChoiceLog(ctx.rng("written-text-choices", i))
        offsets = []
        text = c04.write(r, nodes, offsets, [0], log=log, plain=True)
        doc = c04.doc_tokens(nodes, iter(offsets), text)
        void = "void=" + ".".join(c04.VOID)
        raw = _has_raw(nodes)
        ctx.count("written-text:" + ("script-or-style(not-Writable)" if raw else "writable-by-construction"))
        lines.append(f"tk write {void} {doc} {';'.join(log.entries) or '-'}")
        lines.append(f"c04 emit {c04.cfg_tokens({'void': c04.VOID})} {doc} {';'.join(log.entries) or '-'}")
        meta.append((text, nodes, offsets, raw))
        for name, k, v in _attr_values(nodes):
            ok = name.lower() == name and (k is None or k.lower() == k) and (v is None or html.unescape(c04.esc_attr_plain(v)) == v)
            if not ok:
                ctx.violation("a hypothesis of parse_of_written_document on the parameters fails for the real str.lower / html.unescape",
                              case={"name": name, "attr": k, "value": v}, stream="written-text", no_failing_input=True)
    rep = drv.ask(lines)
    good = []
    for j, (text, nodes, offsets, raw) in enumerate(meta):
        w, mtext, mpos = rep[2 * j].split("|")
        em = rep[2 * j + 1]
        case = {"text": text}
        if (w == "1") != (not raw):
            ctx.violation(f"Writable is {w} for a document {'with' if raw else 'without'} script/style", case=case, stream="written-text",
                          no_failing_input=True)
        if raw:
            continue
        ctx.case(("written-text", text) if len(offsets) >= 2 else None)
        if c04.uncps(mtext) != text:
            ctx.corr_disagreements += 1
            ctx.violation("Lean writeText differs from the Python writer's plain text", case=case, observed=text, model=c04.uncps(mtext),
                          stream="written-text", no_failing_input=True)
            continue
        want = ",".join("%d.%d" % linecol(text, o) for o in offsets) or "-"
        if mpos != want:
            ctx.violation("derivedPos differs from the line/column of the writer's recorded offsets", case=case, expected=want, observed=mpos,
                          stream="written-text", no_failing_input=True)
        evs = c04.record(text)
        a = c04.merge_data(evs or [])
        b = c04.merge_data([] if em == "-" else em.split(";"))
        if evs is None or a != b:
            ctx.corr_disagreements += 1
            ctx.violation("the tokenizer's callbacks on the written text are not `emit` of the document (up to data chunking)", case=case,
                          observed=";".join(a), model=";".join(b), stream="written-text", no_failing_input=True)
        good.append(text)
    stream(ctx, good, name="written-text:tokenizer", drv=drv)


# ------------------------------------------------------------------------------------------------
# the exact round-trip theorems of Props/TK against the real tokenizer and the real regular expressions
# ------------------------------------------------------------------------------------------------
EXACT_KINDS = {   # kind -> (open, close, callback, payload prefix, terminator alphabet)
    "cm": ("<!--", "-->", "CM", "", ["-", "-", "--", ">", " ", "\n", "\t", "\xa0", "!", "a"]),
    "pi": ("<?", ">", "PI", "", [">", "?", " ", "a", "\n", "<", "-"]),
    "dt": ("<!DOCTYPE", ">", "DL", "DOCTYPE", [">", " ", "html", "[", "]", "\"", "<!ENTITY", "\n"]),
    "cd": ("<![CDATA[", "]]>", "UD", "CDATA[", ["]", "]", "]]", ">", " ", "\n", "\x0b", "\xa0", "a", "["]),
    "tx": ("", "", "D", "", ["<", "&", ">", ";", " ", "a", "\n", "é", "#"]),
}
EXACT_DIRECTED = {
    "cm": ["", "a", "-", "--", "---", ">", "->", "-->", "a-->", "a-- >", "a--\n\t>b", "a- ->", "a--!>", "a>b--c- -", "a--b-", " a>b ", "a--\xa0>", "--\x0b>", "a-- >b-- >c",
           "\ud800-->"],
    "pi": ["", "a", ">", "a>", "a>b", "?", "a?", "a\n", "a>b>c", "<"],
    "dt": ["", " html", " a [<!ENTITY b \"c\">]", ">", " >", "html", " html PUBLIC \"x\" \"y\"", "\n"],
    "cd": ["", "a", "]", "]]", "]]]", ">", "]>", "]]>", "a]]>b", "a] ] >b", "a]\n]\n>", "a>b]]c] ]", "a] ]", "] >", "]\xa0]>", "a]]b>", "]]\x0b>", "a]]>b]]>c"],
    "tx": ["a", "a>b;\n", "a&b", "a& b", "a<b", "<", "&", "a<", ">", " ", "é>", "a&#"],
}


def exact_oracle(kind, body):
    """the predicate of the theorem, computed with the standard library's own compiled patterns (not with the model)"""
    import _markupbase
    from html import parser as hp
    if kind == "cm":
        return _markupbase._commentclose.search(body + "-->").start() == len(body)
    if kind == "cd":
        return _markupbase._markedsectionclose.search(body + "]]>").start() == len(body)
    if kind in ("pi", "dt"):
        return ">" not in body
    return hp.interesting_normal.search(body) is None


def exact_stream(ctx: Ctx, drv=None, n=None):
    """`comment_roundtrip` / `comment_ends_at_first_close`, `pi_…`, `doctype_…`, `cdata_…`, `chardata_…` (Props/TK.lean) tied to the
    real code. For bodies on both sides of each predicate (directed + random over the terminator's alphabet), text = writer(body) + "<i>":
      (i)   the Lean predicate (`tk exact`) = the predicate computed with CPython's own compiled pattern;
      (ii)  predicate true  -> the REAL tokenizer's first callback carries exactly `body` and the `<i>` callback is made at the
            line/column of the offset just after the written construct (= the returned index of the theorem);
      (iii) predicate false -> the REAL first callback carries a PROPER PREFIX of `body`, the one the model reports;
      (iv)  the model's payload and returned index are those of the theorem (body / len(written)) when the predicate holds.
    The full callback streams of the same texts go through `stream` (model = real, spans)."""
    drv = drv or Driver()
    cases = []
    for kind, ds in EXACT_DIRECTED.items():
        cases += [(kind, b) for b in ds]
    alpha = {k: v[4] for k, v in EXACT_KINDS.items()}
    for i in range(n if n is not None else ctx.n(3000, 30000)):
        r = ctx.rng("tk-exact", i)
        kind = r.choice(list(EXACT_KINDS))
        b = "".join(r.choice(alpha[kind]) for _ in range(r.randint(0 if kind != "tx" else 1, 7)))
        if kind in ("cm", "cd") and r.random() < 0.4:
            # splice a (near-)terminator in: `--\s*>` / `]\s*]\s*>`, sometimes broken by one foreign character
            w = lambda: "".join(r.choice([" ", "\n", "\t", "\x0b", "\xa0"]) for _ in range(r.randint(0, 2)))
            t = ("--" + w() + ">") if kind == "cm" else ("]" + w() + "]" + w() + ">")
            if r.random() < 0.3:
                q = r.randrange(len(t))
                t = t[:q] + r.choice(["a", "!", "-", "]"]) + t[q + (r.random() < 0.5):]
            q = r.randint(0, len(b))
            b = b[:q] + t + b[q:]
        cases.append((kind, b))
    rep = drv.ask([f"tk exact {k} {cps(b) or '-'}" for k, b in cases])
    texts = []
    for (kind, body), rp in zip(cases, rep):
        op, cl, cb, pre, _ = EXACT_KINDS[kind]
        written = op + body + cl
        text = written + "<i>"
        texts.append(text)
        case = {"kind": kind, "body": body, "text": text}
        ok = exact_oracle(kind, body)
        ctx.count(f"tk-exact:{kind}:{'predicate-holds' if ok else 'predicate-fails'}")
        ctx.case(("tk-exact", kind, body) if body else None)
        mok, mpay, mlen = rp.split("|")
        if mok != ("1" if ok else "0"):
            ctx.violation("the Lean well-formedness predicate differs from the one computed with CPython's compiled pattern", case=case,
                          expected=ok, model=rp, stream="tk-exact", no_failing_input=True)
            continue
        real = c04.record(text)
        if not real:
            ctx.violation("html.parser raised / produced nothing on a written construct", case=case, observed=real, stream="tk-exact", no_failing_input=True)
            continue
        f0 = real[0].split("|")
        got = c04.uncps(f0[1]) if f0[0] == cb else None
        if kind == "tx" and not ok and hp_first_special(body) == 0:
            # the text begins with `<`/`&`: no leading data chunk in the model's turn
            if mpay != "~":
                ctx.violation("model reports a data chunk before a leading '<'/'&'", case=case, model=rp, stream="tk-exact", no_failing_input=True)
            continue
        if ok:
            want_i = "ST|105|%d|%d|-" % linecol(text, len(written))
            if got != pre + body or len(real) < 2 or real[1] != want_i:
                ctx.violation("round trip fails on the real tokenizer although the predicate holds", case=case, expected=[cb + "|" + pre + body, want_i],
                              observed=real[:2], stream="tk-exact", no_failing_input=True)
            if c04.uncps(mpay) != pre + body or int(mlen) != len(written):
                ctx.violation("the model's parse result is not the theorem's (body, len(written))", case=case, model=rp, stream="tk-exact",
                              no_failing_input=True)
        else:
            mp = None if mpay == "~" else c04.uncps(mpay)
            proper = got is not None and got.startswith(pre) and body.startswith(got[len(pre):]) and len(got) - len(pre) < len(body)
            if not proper or got != mp:
                ctx.violation("predicate fails but the real tokenizer does not report the model's proper prefix of the body", case=case,
                              observed=real[:2], model=rp, stream="tk-exact", no_failing_input=True)
    stream(ctx, texts, name="tk-exact:tokenizer", drv=drv)


def hp_first_special(body):
    from html import parser as hp
    m = hp.interesting_normal.search(body)
    return None if m is None else m.start()


def mutate(r, text):
    s = list(text)
    for _ in range(r.randint(1, 3)):
        op = r.random()
        p = r.randint(0, len(s))
        if op < 0.3 and s:
            del s[min(p, len(s) - 1)]
        elif op < 0.6:
            s.insert(p, r.choice(SPECIAL))
        elif op < 0.8 and s:
            s[min(p, len(s) - 1)] = r.choice(SPECIAL)
        elif op < 0.9:
            q = r.randint(0, len(s))
            a, b = min(p, q), max(p, q)
            s[a:a] = s[a:b]
        else:
            s = s[:p]
    return "".join(s)


def gen_texts(ctx, n):
    """(kind, text) for the five streams; n = texts per random stream."""
    from . import c01
    out = [("directed", t) for t in DIRECTED]
    # every directed text also with a prefix that moves it off line 1 / column 0 and with a suffix (so nothing is "at the end of input")
    for t in DIRECTED:
        out.append(("directed+ctx", "é\n " + t))
        out.append(("directed+ctx", t + "<i>z"))
        out.append(("directed+ctx", t + " "))
    base = []
    for i in range(n):
        r = ctx.rng("tk-written", i)
        nodes = c04.gen_tree(r)
        if r.random() < 0.5:
            nodes = [("t", r.choice(["\n", "\n\n", "a\nb", "\r\n", " "]))] + nodes
        t = c04.write(r, nodes, [], [0])
        out.append(("written", t)); base.append(t)
    for i in range(n):
        r = ctx.rng("tk-soup", i)
        t = c04.gen_soup(r)
        out.append(("soup-c04", t)); base.append(t)
    for i in range(n):
        r = ctx.rng("tk-soup01", i)
        t = "".join(r.choice(c01.PARSE_TOKENS) for _ in range(r.randint(1, 16)))
        out.append(("soup-c01", t)); base.append(t)
    base += DIRECTED
    for i in range(2 * n):
        r = ctx.rng("tk-mut", i)
        out.append(("mutation", mutate(r, r.choice(base))))
    for i in range(n):
        r = ctx.rng("tk-special", i)
        out.append(("special-soup", "".join(r.choice(SPECIAL + c04.SOUP_TOKENS) for _ in range(r.randint(1, 12)))))
    return out


def run(ctx: Ctx):
    ctx.rule = ("recorder (plain HTMLParser(convert_charrefs=False), feed+close) vs the Lean tokenizer model, identical callback streams incl. positions; "
                "streams: directed corpus of every construct (alone, shifted off line 1, followed by more input), C04 written documents, C04 token soup, "
                "C01 PARSE_TOKENS soup, 1-3 character mutations of all of those, soup over special characters; tk-exact: written comments / PIs / doctypes / "
                "CDATA sections / character data with bodies on both sides of the exact round-trip predicates (predicate vs CPython's compiled pattern, "
                "real first callback = body or the model's proper prefix). non-trivial = more than one callback (tk-exact: non-empty body)")
    ctx.assumptions = ["html.unescape, str.lower and the html5 entity table are parameters of the model, answered by the standard library per text",
                       "re's \\s set, re.I equivalents of the letters of script/style, and 'no non-ASCII code point lowers into doctype/script/style' "
                       "are built in and checked over all code points on every run"]
    drv = Driver()
    stdlib_facts(ctx, drv)
    kt = gen_texts(ctx, ctx.n(4000, 40000))
    texts = [t for _, t in kt]
    for k, t in kt:
        ctx.case((k, t) if t.count("<") + t.count("&") > 1 else None)
    stream(ctx, texts, name="tk", drv=drv, kinds=[k for k, _ in kt])
    written_stream(ctx, drv)
    exact_stream(ctx, drv)


def replay(path):
    v = json.load(open(path))
    t = v["case"].get("text")
    if t is None:
        print(json.dumps(v, indent=1)[:2000]); return 1
    (mt, ms), = model_streams(Driver(), [t])
    real = real_stream(t)
    print("text :", repr(t)); print("real :", real); print("model:", mt); print("spans:", ms, "->", check_spans(t, real, ms))
    return 0 if real == mt and not check_spans(t, real, ms) else 1


if __name__ == "__main__":
    import subprocess
    from pathlib import Path
    sys.exit(subprocess.call([str(Path(__file__).resolve().parent.parent / "check"), "TK", *sys.argv[1:]]))
