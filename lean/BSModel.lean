import BSModel.Base.PStr
