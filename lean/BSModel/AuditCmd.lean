import Lean
/-! `#bs_audit BS.Props.C20` prints one line per theorem declared in that namespace together with
    the axioms its proof depends on. The check script parses these lines. -/
open Lean Elab Command

elab "#bs_audit " ns:ident : command => do
  let env ← getEnv
  let nsName := ns.getId
  let mut names : Array Name := #[]
  names := env.constants.fold (init := names) fun acc n ci =>
    if nsName.isPrefixOf n && !n.isInternalDetail then
      match ci with
      | .thmInfo _ => acc.push n
      | _ => acc
    else acc
  let sorted := names.qsort (fun a b => a.toString < b.toString)
  for n in sorted do
    let axs ← liftCoreM (collectAxioms n)
    let axs := axs.qsort (fun a b => a.toString < b.toString)
    logInfo m!"BSAUDIT {n} :: {" ".intercalate (axs.toList.map toString)}"
