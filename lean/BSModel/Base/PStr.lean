/-! Python `str` as a list of code points (a Python str may hold lone surrogates, a Lean `Char` may not);
    `bytes` as a list of naturals < 256. Core Lean only. -/
namespace BS

abbrev PStr := List Nat
abbrev Bytes := List Nat

/-- ASCII literal helper for models and the driver. -/
def ofS (s : String) : PStr := s.toList.map Char.toNat

def showCps (s : PStr) : String := ",".intercalate (s.map toString)

def parseCps (s : String) : PStr :=
  if s.isEmpty then [] else (s.splitOn ",").filterMap String.toNat?

end BS
