def hello := "world"
