import BSModel.Driver.Util
import BSModel.Model.Heap
import BSModel.Model.HeapSmooth
import BSModel.Model.HeapCopy
/-! protocol handler for edit histories on the pointer heap (C01, C02)

`run <kinds> <ops> <what>`:
* kinds: one letter per initial node id 0..N-1: t tag, r BeautifulSoup, s string, c preformatted string
* ops, `;`-separated: `ap:P:A` `in:P:POS:A,A` `et:P:T` `el:P:A,A` `ib:X:A,A` `ia:X:A,A` `rw:X:A,A` `wr:X:W` `uw:X`
  `ex:X` `cl:T` `de:X` `sm:T` `ss:T:K:V` `cp:X:N` (`copy.copy(X)`, Model/HeapCopy.lean: the nodes of the clone, in document
  order, are LABELLED `t<N+k>` / `s<N+k>` from then on — an alias kept beside the heap, the texts of the copied strings stay what they
  are; `N` is chosen by the harness above every id and every text in use); a node reference is a label: `t<id>` for tags, `s<v.v.v>` for strings
  (the string whose text is that label sequence; initially string id 7 has text `7`); an argument `A` is a label or
  `p<v.v>` for a plain `str` with that text
* what: `ptr` (pointers after every step) or `all` (pointers and the seven iterators after every step)
reply: per step `ok <dump>` or `err:<kind>` (the history stops there), joined by ` | `.

`smooth <kinds> <vals> <edges> <t>` (C02, the documented effect of `smooth()` against the model's `squashId`, by node id):
* kinds as above; vals: `;`-separated, one per node: the text of a string as `.`-joined code points (`-` = empty; ignored for tags);
  edges: `;`-separated `P>C` = `P.append(C)`, in order (`-` = none); t: the tag `smooth()` is called on
reply: `ok <spec> # <impl> # <again>`: spec / impl list, for `t` and every tag beneath it in document order, `Q=<items>` with the
children of `Q` after the call — spec: `squashId` of the children before the call (the documented effect, `Model/HeapSmooth.lean`),
impl: the children in the heap `smooth` (the code mirror) returns; an item is `o<id>` (not a plain string), `s<id>:<text>` (a plain
string that existed before the call: same object) or `n:<text>` (a plain string the call created); again: `1` iff a second call
changes no children list. -/
namespace BS.Drv.C01
open BS.Heap BS.Drv

def kindOf : Char → Kind
  | 't' => .tag | 'r' => .soup | 'c' => .pre | _ => .str

def initHeap (kinds : String) : Heap := Heap.init (kinds.toList.map kindOf)

/-- labels of the nodes of copies: node id ↦ the number `n` of its label `t<n>` / `s<n>` (a copied string has the text of its
    original, so its text cannot identify it; a copied tag has no id the harness could know) -/
abbrev Alias := List (Nat × Nat)

def aliasOf (al : Alias) (i : Nat) : Option Nat := (al.find? (fun p => p.1 == i)).map (·.2)

def labelA (al : Alias) (h : Heap) (i : Nat) : String :=
  match aliasOf al i with
  | some n => (if (h.kind i).isTag then "t" else "s") ++ toString n
  | none => if (h.kind i).isTag then s!"t{i}" else "s" ++ ".".intercalate ((h.val i).map toString)

def labelOA (al : Alias) (h : Heap) : Option Nat → String
  | none => "-"
  | some i => labelA al h i

def labelsA (al : Alias) (h : Heap) (l : List Nat) : String := if l.isEmpty then "-" else ".".intercalate (l.map (labelA al h))

/-- resolve a label to a node id: the alias of a copied node first; otherwise tags by id, strings by text (the most recently
    allocated match among the nodes that have no alias) -/
def resolveA (al : Alias) (h : Heap) (s : String) : Option Nat :=
  if s.startsWith "t" then
    match (s.drop 1).toString.toNat? with
    | none => none
    | some n =>
      match al.find? (fun p => p.2 == n && (h.kind p.1).isTag) with
      | some p => some p.1
      | none => some n
  else if s.startsWith "s" then
    let v := natList "." (s.drop 1).toString
    let byAlias : Option (Nat × Nat) := match v with
      | [n] => al.find? (fun (p : Nat × Nat) => p.2 == n && !(h.kind p.1).isTag)
      | _ => none
    match byAlias with
    | some p => some p.1
    | none => ((List.range h.next).reverse).find? (fun i => !(h.kind i).isTag && h.val i == v && (aliasOf al i).isNone)
  else none

def parseArgA (al : Alias) (h : Heap) (s : String) : Option Arg :=
  if s.startsWith "p" then some (.plain (natList "." (s.drop 1).toString))
  else (resolveA al h s).map Arg.node

def parseArgsA (al : Alias) (h : Heap) (s : String) : Option (List Arg) :=
  (splitNE "," s).mapM (parseArgA al h)

def parseOpA (al : Alias) (h : Heap) (s : String) : Option Op :=
  match s.splitOn ":" with
  | ["ap", p, a] => do let p ← resolveA al h p; let a ← parseArgA al h a; pure (.append p a)
  | ["in", p, pos, as] => do
    let p ← resolveA al h p; let as ← parseArgsA al h as
    -- a Python integer: negative positions count from the end, as in `list.insert` (Model/Heap.lean `normPos`, `insertZ`)
    pure (.insert p (normPos (h.kids p).length pos.toInt!) as)
  | ["et", p, t] => do let p ← resolveA al h p; let t ← resolveA al h t; pure (.extendTag p t)
  | ["el", p, as] => do let p ← resolveA al h p; let as ← parseArgsA al h as; pure (.extendList p as)
  | ["ib", x, as] => do let x ← resolveA al h x; let as ← parseArgsA al h as; pure (.insertBefore x as)
  | ["ia", x, as] => do let x ← resolveA al h x; let as ← parseArgsA al h as; pure (.insertAfter x as)
  | ["rw", x, as] => do let x ← resolveA al h x; let as ← parseArgsA al h as; pure (.replaceWith x as)
  | ["wr", x, w] => do let x ← resolveA al h x; let w ← resolveA al h w; pure (.wrap x w)
  | ["uw", x] => do let x ← resolveA al h x; pure (.unwrap x)
  | ["ex", x] => do let x ← resolveA al h x; pure (.extract x)
  | ["cl", t] => do let t ← resolveA al h t; pure (.clear t)
  | ["de", x] => do let x ← resolveA al h x; pure (.decompose x)
  | ["cd", t] => do let t ← resolveA al h t; pure (.clearDecompose t)
  | ["sm", t] => do let t ← resolveA al h t; pure (.smooth t)
  | ["ss", t, k, v] => do
      let t ← resolveA al h t
      pure (.setString t (match k with | "c" => .pre | _ => .str) (natList "." v))
  | ["se", t, s, v] => do
      -- `.string = <a string object of the forest>`: the new string takes the CLASS of the argument (read from the heap) and is new
      let t ← resolveA al h t
      let s ← resolveA al h s
      match h.kind s with
      | .str => pure (.setString t .str (natList "." v))
      | .pre => pure (.setString t .pre (natList "." v))
      | _ => none
  | _ => none

/-! the alias-free forms (every protocol without copies; used by Driver/C13.lean as well) -/
def label (h : Heap) (i : Nat) : String := labelA [] h i
def labelO (h : Heap) (o : Option Nat) : String := labelOA [] h o
def labels (h : Heap) (l : List Nat) : String := labelsA [] h l
def resolve (h : Heap) (s : String) : Option Nat := resolveA [] h s
def parseArg (h : Heap) (s : String) : Option Arg := parseArgA [] h s
def parseArgs (h : Heap) (s : String) : Option (List Arg) := parseArgsA [] h s
def parseOp (h : Heap) (s : String) : Option Op := parseOpA [] h s

def errName : Err → String
  | .valueError => "ValueError" | .crash => "crash" | .notImplemented => "NotImplementedError" | .excluded => "excluded"

def dumpNode (al : Alias) (h : Heap) (i : Nat) (iters : Bool) : String :=
  let base := s!"{labelA al h i} {labelOA al h (h.parent i)} {labelOA al h (h.ps i)} {labelOA al h (h.ns i)} {labelOA al h (h.pe i)} {labelOA al h (h.ne i)} {labelsA al h (h.kids i)}"
  if iters then
    let d := match descendants h i with | .ok l => labelsA al h l | .error _ => "crash"
    s!"{base} {d} {labelsA al h (nextElements h i)} {labelsA al h (previousElements h i)} {labelsA al h (nextSiblings h i)} {labelsA al h (previousSiblings h i)} {labelsA al h (parents h i)}"
  else base

def dump (al : Alias) (h : Heap) (iters : Bool) : String :=
  ",".intercalate ((List.range h.next).map (fun i => dumpNode al h i iters))

/-- `cp:X:N`: `copy.copy(X)`; the `k`-th node of the clone in document order (= the `k`-th id allocated) is labelled `N+k` -/
def runCopy (al : Alias) (h : Heap) (x n : String) : Option (Except Err (Alias × Heap)) := do
  let x ← resolveA al h x
  let n ← n.toNat?
  match step2 h (.copy x) with
  | .error e => pure (.error e)
  | .ok h1 => pure (.ok ((List.range (h1.next - h.next)).map (fun k => (h.next + k, n + k)) ++ al, h1))

def runOps (iters : Bool) : Alias → Heap → List String → List String
  | _, _, [] => []
  | al, h, o :: os =>
    match o.splitOn ":" with
    | ["cp", x, n] =>
      match runCopy al h x n with
      | none => ["bad-op"]
      | some (.error e) => ["err:" ++ errName e]
      | some (.ok (al1, h1)) => ("ok " ++ dump al1 h1 iters) :: runOps iters al1 h1 os
    | _ =>
      match parseOpA al h o with
      | none => ["bad-op"]
      | some op =>
        match step h op with
        | .error e => ["err:" ++ errName e]
        | .ok h1 => ("ok " ++ dump al h1 iters) :: runOps iters al h1 os

def itemStr (next : Nat) : IItem → String
  | (k, .other _) => s!"o{k}"
  | (k, .str v) => (if k < next then s!"s{k}:" else "n:") ++ ".".intercalate (v.map toString)

def showItems (next : Nat) (l : List IItem) : String :=
  if l.isEmpty then "-" else ",".intercalate (l.map (itemStr next))

def buildEdges : Heap → List String → Option Heap
  | h, [] => some h
  | h, e :: es =>
    match e.splitOn ">" with
    | [p, c] =>
      match p.toNat?, c.toNat? with
      | some p, some c =>
        match step h (.append p (.node c)) with
        | .ok h1 => buildEdges h1 es
        | .error _ => none
      | _, _ => none
    | _ => none

def smoothReport (kinds vals edges t : String) : String :=
  let ks := kinds.toList.map kindOf
  let vs := (vals.splitOn ";").map (natList ".")
  let h0 : Heap := { Heap.init ks with val := fun i => vs[i]?.getD [] }
  match buildEdges h0 (splitNE ";" edges), t.toNat? with
  | some h, some t =>
    match descendants h t with
    | .error _ => "err:descendants"
    | .ok ds =>
      let tags := (t :: ds).filter (fun q => (h.kind q).isTag)
      let spec := " ".intercalate (tags.map fun q => s!"{q}={showItems h.next (squashId h.next (idView h q)).1}")
      match smooth h t with
      | .error e => "err:" ++ errName e
      | .ok h' =>
        let impl := " ".intercalate (tags.map fun q => s!"{q}={showItems h.next (idView h' q)}")
        let again := match smooth h' t with
          | .ok h'' => bit (tags.all fun q => h''.kids q == h'.kids q)
          | .error _ => "e"
        s!"ok {spec} # {impl} # {again}"
  | _, _ => "bad-op"

def handle : List String → String
  | ["run", kinds, ops, what] =>
    " | ".intercalate (runOps (what == "all") [] (initHeap kinds) (splitNE ";" ops))
  | ["smooth", kinds, vals, edges, t] => smoothReport kinds vals edges t
  | _ => "bad-op"

end BS.Drv.C01
