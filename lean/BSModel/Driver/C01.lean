import BSModel.Driver.Util
import BSModel.Model.Heap
import BSModel.Model.HeapSmooth
/-! protocol handler for edit histories on the pointer heap (C01, C02)

`run <kinds> <ops> <what>`:
* kinds: one letter per initial node id 0..N-1: t tag, r BeautifulSoup, s string, c preformatted string
* ops, `;`-separated: `ap:P:A` `in:P:POS:A,A` `et:P:T` `el:P:A,A` `ib:X:A,A` `ia:X:A,A` `rw:X:A,A` `wr:X:W` `uw:X`
  `ex:X` `cl:T` `de:X` `sm:T` `ss:T:K:V`; a node reference is a label: `t<id>` for tags, `s<v.v.v>` for strings
  (the string whose text is that label sequence; initially string id 7 has text `7`); an argument `A` is a label or
  `p<v.v>` for a plain `str` with that text
* what: `ptr` (pointers after every step) or `all` (pointers and the seven iterators after every step)
reply: per step `ok <dump>` or `err:<kind>` (the history stops there), joined by ` | `.

`smooth <kinds> <vals> <edges> <t>` (C02, the documented effect of `smooth()` against the model's `squashId`, by node id):
* kinds as above; vals: `;`-separated, one per node: the text of a string as `.`-joined code points (`-` = empty; ignored for tags);
  edges: `;`-separated `P>C` = `P.append(C)`, in order (`-` = none); t: the tag `smooth()` is called on
reply: `ok <spec> # <impl> # <again>`: spec / impl list, for `t` and every tag beneath it in document order, `Q=<items>` with the
children of `Q` after the call — spec: `squashId` of the children before the call (the documented effect, `Model/HeapSmooth.lean`),
impl: the children in the heap `smooth` (the code mirror) returns; an item is `o<id>` (not a plain string), `s<id>:<text>` (a plain
string that existed before the call: same object) or `n:<text>` (a plain string the call created); again: `1` iff a second call
changes no children list. -/
namespace BS.Drv.C01
open BS.Heap BS.Drv

def kindOf : Char → Kind
  | 't' => .tag | 'r' => .soup | 'c' => .pre | _ => .str

def initHeap (kinds : String) : Heap := Heap.init (kinds.toList.map kindOf)

def label (h : Heap) (i : Nat) : String :=
  if (h.kind i).isTag then s!"t{i}" else "s" ++ ".".intercalate ((h.val i).map toString)

def labelO (h : Heap) : Option Nat → String
  | none => "-"
  | some i => label h i

def labels (h : Heap) (l : List Nat) : String := if l.isEmpty then "-" else ".".intercalate (l.map (label h))

/-- resolve a label to a node id: tags by id, strings by text (the most recently allocated match) -/
def resolve (h : Heap) (s : String) : Option Nat :=
  if s.startsWith "t" then (s.drop 1).toString.toNat?
  else if s.startsWith "s" then
    let v := natList "." (s.drop 1).toString
    ((List.range h.next).reverse).find? (fun i => !(h.kind i).isTag && h.val i == v)
  else none

def parseArg (h : Heap) (s : String) : Option Arg :=
  if s.startsWith "p" then some (.plain (natList "." (s.drop 1).toString))
  else (resolve h s).map Arg.node

def parseArgs (h : Heap) (s : String) : Option (List Arg) :=
  (splitNE "," s).mapM (parseArg h)

def parseOp (h : Heap) (s : String) : Option Op :=
  match s.splitOn ":" with
  | ["ap", p, a] => do let p ← resolve h p; let a ← parseArg h a; pure (.append p a)
  | ["in", p, pos, as] => do
    let p ← resolve h p; let as ← parseArgs h as
    -- a Python integer: negative positions count from the end, as in `list.insert` (Model/Heap.lean `normPos`, `insertZ`)
    pure (.insert p (normPos (h.kids p).length pos.toInt!) as)
  | ["et", p, t] => do let p ← resolve h p; let t ← resolve h t; pure (.extendTag p t)
  | ["el", p, as] => do let p ← resolve h p; let as ← parseArgs h as; pure (.extendList p as)
  | ["ib", x, as] => do let x ← resolve h x; let as ← parseArgs h as; pure (.insertBefore x as)
  | ["ia", x, as] => do let x ← resolve h x; let as ← parseArgs h as; pure (.insertAfter x as)
  | ["rw", x, as] => do let x ← resolve h x; let as ← parseArgs h as; pure (.replaceWith x as)
  | ["wr", x, w] => do let x ← resolve h x; let w ← resolve h w; pure (.wrap x w)
  | ["uw", x] => do let x ← resolve h x; pure (.unwrap x)
  | ["ex", x] => do let x ← resolve h x; pure (.extract x)
  | ["cl", t] => do let t ← resolve h t; pure (.clear t)
  | ["de", x] => do let x ← resolve h x; pure (.decompose x)
  | ["cd", t] => do let t ← resolve h t; pure (.clearDecompose t)
  | ["sm", t] => do let t ← resolve h t; pure (.smooth t)
  | ["ss", t, k, v] => do
      let t ← resolve h t
      pure (.setString t (match k with | "c" => .pre | _ => .str) (natList "." v))
  | ["se", t, s, v] => do
      -- `.string = <a string object of the forest>`: the new string takes the CLASS of the argument (read from the heap) and is new
      let t ← resolve h t
      let s ← resolve h s
      match h.kind s with
      | .str => pure (.setString t .str (natList "." v))
      | .pre => pure (.setString t .pre (natList "." v))
      | _ => none
  | _ => none

def errName : Err → String
  | .valueError => "ValueError" | .crash => "crash" | .notImplemented => "NotImplementedError" | .excluded => "excluded"

def dumpNode (h : Heap) (i : Nat) (iters : Bool) : String :=
  let base := s!"{label h i} {labelO h (h.parent i)} {labelO h (h.ps i)} {labelO h (h.ns i)} {labelO h (h.pe i)} {labelO h (h.ne i)} {labels h (h.kids i)}"
  if iters then
    let d := match descendants h i with | .ok l => labels h l | .error _ => "crash"
    s!"{base} {d} {labels h (nextElements h i)} {labels h (previousElements h i)} {labels h (nextSiblings h i)} {labels h (previousSiblings h i)} {labels h (parents h i)}"
  else base

def dump (h : Heap) (iters : Bool) : String :=
  ",".intercalate ((List.range h.next).map (fun i => dumpNode h i iters))

def runOps (iters : Bool) : Heap → List String → List String
  | _, [] => []
  | h, o :: os =>
    match parseOp h o with
    | none => ["bad-op"]
    | some op =>
      match step h op with
      | .error e => ["err:" ++ errName e]
      | .ok h1 => ("ok " ++ dump h1 iters) :: runOps iters h1 os

def itemStr (next : Nat) : IItem → String
  | (k, .other _) => s!"o{k}"
  | (k, .str v) => (if k < next then s!"s{k}:" else "n:") ++ ".".intercalate (v.map toString)

def showItems (next : Nat) (l : List IItem) : String :=
  if l.isEmpty then "-" else ",".intercalate (l.map (itemStr next))

def buildEdges : Heap → List String → Option Heap
  | h, [] => some h
  | h, e :: es =>
    match e.splitOn ">" with
    | [p, c] =>
      match p.toNat?, c.toNat? with
      | some p, some c =>
        match step h (.append p (.node c)) with
        | .ok h1 => buildEdges h1 es
        | .error _ => none
      | _, _ => none
    | _ => none

def smoothReport (kinds vals edges t : String) : String :=
  let ks := kinds.toList.map kindOf
  let vs := (vals.splitOn ";").map (natList ".")
  let h0 : Heap := { Heap.init ks with val := fun i => vs[i]?.getD [] }
  match buildEdges h0 (splitNE ";" edges), t.toNat? with
  | some h, some t =>
    match descendants h t with
    | .error _ => "err:descendants"
    | .ok ds =>
      let tags := (t :: ds).filter (fun q => (h.kind q).isTag)
      let spec := " ".intercalate (tags.map fun q => s!"{q}={showItems h.next (squashId h.next (idView h q)).1}")
      match smooth h t with
      | .error e => "err:" ++ errName e
      | .ok h' =>
        let impl := " ".intercalate (tags.map fun q => s!"{q}={showItems h.next (idView h' q)}")
        let again := match smooth h' t with
          | .ok h'' => bit (tags.all fun q => h''.kids q == h'.kids q)
          | .error _ => "e"
        s!"ok {spec} # {impl} # {again}"
  | _, _ => "bad-op"

def handle : List String → String
  | ["run", kinds, ops, what] =>
    " | ".intercalate (runOps (what == "all") (initHeap kinds) (splitNE ";" ops))
  | ["smooth", kinds, vals, edges, t] => smoothReport kinds vals edges t
  | _ => "bad-op"

end BS.Drv.C01
