import BSModel.Driver.Util
import BSModel.Model.Builder
import BSModel.Model.ParseLink
/-! protocol: `build|spec <cfg> <events>`
  cfg    = `pre=NAME.NAME cont=NAME:CLS.NAME:CLS` given as two tokens (`pre=-` / `cont=-` when empty)
  events = `;`-separated: `s:NAME:PFX` `e:NAME:PFX` (PFX `-` = none) `d:CPS` (`d:-` empty chunk) `x:CLS` / `x:-`
  reply  = the children of the document: elem `<name|pfx>[…]`, text `"cls:cps"`, concatenated -/
namespace BS.Drv.C03
open BS.Builder BS.Drv BS

def mkCfg (pre cont : String) : Cfg :=
  let pres := (splitNE "." ((pre.drop 4).toString)).map ofS
  let conts := (splitNE "." ((cont.drop 5).toString)).filterMap fun item =>
    match item.splitOn ":" with
    | [n, c] => some (ofS n, c.toNat!)
    | _ => none
  { preserve := fun n => pres.contains n,
    container := fun n => (conts.find? (fun e => e.1 == n)).map (·.2),
    asciiSpaces := [32, 10, 9, 12, 13],
    rootName := ofS "[document]" }

def optName (s : String) : Option Name := if s == "-" then none else some (ofS s)

def parseEv (s : String) : Option Ev :=
  match s.splitOn ":" with
  | ["s", n, p] => some (.start (ofS n) (optName p))
  | ["e", n, p] => some (.stop (ofS n) (optName p))
  | ["d", c] => some (.data (cps c))
  | ["x", c] => some (.endData (if c == "-" then none else c.toNat?))
  | _ => none

def showName (n : Name) : String := String.ofList (n.map Char.ofNat)

partial def showDoc : Doc → String
  | .elem n p ks => s!"<{showName n}|{match p with | none => "-" | some q => showName q}>[{String.join (ks.map showDoc)}]"
  | .text c s => s!"\"{c}:{showL s}\""

def optId : Option Nat → String
  | none => "-"
  | some i => toString i

/-- pointer dump of a parsed heap: `id parent ps ns pe ne kids` per node, `,`-separated, ids in creation order -/
def dumpHeap (h : BS.Heap.Heap) : String :=
  ",".intercalate ((List.range h.next).map fun i =>
    s!"{i} {optId (h.parent i)} {optId (h.ps i)} {optId (h.ns i)} {optId (h.pe i)} {optId (h.ne i)} {if (h.kids i).isEmpty then "-" else ".".intercalate ((h.kids i).map toString)}")

def handle : List String → String
  | ["link", pre, cont, evs] =>
    let cfg := mkCfg pre cont
    match (splitNE ";" evs).mapM parseEv with
    | none => "bad-op"
    | some es =>
      let acts := BS.ParseLink.actions cfg (St.init cfg) es
      dumpHeap (BS.ParseLink.prun BS.ParseLink.PSt.init acts).heap
  | ["retry", pre, cont, atts] =>
    -- `|`-separated strategies, each `-` or `;`-separated events; all but the last were rejected after sending their events
    let cfg := mkCfg pre cont
    match (atts.splitOn "|").mapM (fun a => (splitNE ";" (if a == "-" then "" else a)).mapM parseEv) with
    | none => "bad-op"
    | some ess =>
      let n := ess.length
      let attempts := ess.zipIdx.map fun (es, i) => ({ evs := es, rejected := i + 1 < n } : Attempt)
      match parseLoop cfg (St.init cfg) attempts with
      | none => "rejected"
      | some ds => String.join (ds.map showDoc)
  | ["void", rule, name] =>
    let r : Option (List Name) := if rule == "*" then none else some ((splitNE "." (if rule == "-" then "" else rule)).map ofS)
    if canBeEmptyElement r (ofS name) then "1" else "0"
  | [which, pre, cont, evs] =>
    let cfg := mkCfg pre cont
    match (splitNE ";" evs).mapM parseEv with
    | none => "bad-op"
    | some es =>
      let ds := if which == "build" then build cfg es else if which == "spec" then buildSpec cfg es else []
      if which == "build" || which == "spec" then String.join (ds.map showDoc) else "bad-op"
  | _ => "bad-op"

end BS.Drv.C03
