import BSModel.Driver.Util
import BSModel.Driver.C03
import BSModel.Model.Adapter
import BSModel.Gen.Cp1252
/-! protocol: `adapt|adaptold <void> <dup> <lines> <pre> <cont> <sevs>`
  void = `void=*` | `void=NAME.NAME` (ASCII names) | `void=-`;  dup = `dup=replace|ignore|acc`;  lines = `lines=0|1`
  sevs `;`-separated, fields `|`-separated, all strings as comma code point lists (`-` empty, `~` None):
    `ST|name|line|col|k=v&k=v`  `SE|…`  `ET|name`  `D|s`  `CR|name`  `ER|name|resolved`  `CM|s` `DL|s` `UD|s` `PI|s`
  reply: the tree with start infos zipped in document order: `<name|line.col|k=v&k=v>[…]`, text `"cls:cps"` -/
namespace BS.Drv.C04
open BS.Builder BS.Adapter BS.Drv BS

def fld (s : String) : PStr := if s == "~" then [] else cps s
def optFld (s : String) : Option PStr := if s == "~" then none else some (cps s)

def parseAttrs (s : String) : List (PStr × Option PStr) :=
  (splitNE "&" s).filterMap fun kv =>
    match kv.splitOn "=" with
    | [k, v] => some (cps k, optFld v)
    | _ => none

def parseSEv (s : String) : Option (SEv × Option (PStr × Option PStr)) :=
  match s.splitOn "|" with
  | ["ST", n, l, c, a] => some (.starttag (cps n) (parseAttrs a) l.toNat! c.toNat!, none)
  | ["SE", n, l, c, a] => some (.startendtag (cps n) (parseAttrs a) l.toNat! c.toNat!, none)
  | ["ET", n] => some (.endtag (cps n), none)
  | ["D", d] => some (.data (cps d), none)
  | ["CR", n] => some (.charref (cps n), none)
  | ["ER", n, r] => some (.entityref (cps n), some (cps n, optFld r))
  | ["CM", d] => some (.comment (cps d), none)
  | ["DL", d] => some (.decl (cps d), none)
  | ["UD", d] => some (.unknownDecl (cps d), none)
  | ["PI", d] => some (.pi (cps d), none)
  | _ => none

def showAVal : AVal → String
  | .one s => showL s
  | .many l => "+".intercalate (l.map showL)

def showInfo (i : StartInfo) : String :=
  let p := match i.pos with | none => "~" | some (l, c) => s!"{l}.{c}"
  let a := if i.attrs.isEmpty then "-" else "&".intercalate (i.attrs.map fun kv => s!"{showL kv.1}={showAVal kv.2}")
  s!"{p}|{a}"

/-- print the tree, consuming one start info per element in document order -/
partial def showDocs : List Doc → List StartInfo → String × List StartInfo
  | [], infos => ("", infos)
  | .text c s :: ds, infos =>
    let (r, infos') := showDocs ds infos
    (s!"\"{c}:{showL s}\"" ++ r, infos')
  | .elem n _ ks :: ds, infos =>
    let (i, rest) := match infos with | i :: rest => (showInfo i, rest) | [] => ("?", [])
    let (inner, rest2) := showDocs ks rest
    let (r, rest3) := showDocs ds rest2
    (s!"<{showL n}|{i}>[{inner}]" ++ r, rest3)

/-- `orig=-` or `orig=129:1026.141:1036,8204`: what `bytearray([n]).decode(original_encoding)` gives (absent = it fails) -/
def parseOrig (s : String) : Nat → Option PStr :=
  let body := (s.drop 5).toString
  let tbl : List (Nat × PStr) := (splitNE "." body).filterMap fun e =>
    match e.splitOn ":" with
    | [n, v] => n.toNat?.map fun k => (k, cps v)
    | _ => none
  fun n => (tbl.find? (fun e => e.1 == n)).map (·.2)

def handleWith : String → String → String → String → String → String → String → String → String
  | which, void, dup, lines, pre, cont, orig, sevs =>
    let bcfg0 := C03.mkCfg pre cont
    let bcfg := { bcfg0 with asciiSpaces := BS.Gen.asciiSpaces, rootName := BS.Gen.rootTagName }
    match (splitNE ";" sevs).mapM parseSEv with
    | none => "bad-op"
    | some parsed =>
      let sevs := parsed.map (·.1)
      let ents := parsed.filterMap (·.2)
      let voidS := (void.drop 5).toString
      let voids := (splitNE "." voidS).map ofS
      let cfg : ACfg :=
        { isVoid := fun n => voidS == "*" || voids.contains n,
          dup := if dup == "dup=ignore" then .ignore else if dup == "dup=acc" then .accumulate else .replace,
          storeLines := lines == "lines=1",
          entity := fun n => ((ents.find? (fun e => e.1 == n)).map (·.2)).join,
          cp1252 := fun n => (BS.Gen.cp1252Table.find? (fun e => e.1 == n)).map (·.2),
          origDecode := parseOrig orig,
          maxDigits := BS.Gen.intMaxStrDigitsC04 }
      let r := if which == "adaptold" then toEventsOld cfg sevs else toEvents cfg sevs
      (showDocs (build bcfg r.1) r.2).1

def handle : List String → String
  | [which, void, dup, lines, pre, cont, sevs] => handleWith which void dup lines pre cont "orig=-" sevs
  | [which, void, dup, lines, pre, cont, orig, sevs] => handleWith which void dup lines pre cont orig sevs
  | _ => "bad-op"

end BS.Drv.C04
