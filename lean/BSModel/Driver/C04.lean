import BSModel.Model.WriterText
import BSModel.Driver.Util
import BSModel.Driver.C03
import BSModel.Model.Adapter
import BSModel.Model.Writer
import BSModel.Gen.Cp1252
/-! protocol: `adapt|adaptold <void> <dup> <lines> <pre> <cont> <sevs>`
  void = `void=*` | `void=NAME.NAME` (ASCII names) | `void=-`;  dup = `dup=replace|ignore|acc`;  lines = `lines=0|1`
  sevs `;`-separated, fields `|`-separated, all strings as comma code point lists (`-` empty, `~` None):
    `ST|name|line|col|k=v&k=v`  `SE|…`  `ET|name`  `D|s`  `CR|name`  `ER|name|resolved`  `CM|s` `DL|s` `UD|s` `PI|s`
  reply: the tree with start infos zipped in document order: `<name|line.col|k=v&k=v>[…]`, text `"cls:cps"` -/
namespace BS.Drv.C04
open BS.Builder BS.Adapter BS.Drv BS

def fld (s : String) : PStr := if s == "~" then [] else cps s
def optFld (s : String) : Option PStr := if s == "~" then none else some (cps s)

def parseAttrs (s : String) : List (PStr × Option PStr) :=
  (splitNE "&" s).filterMap fun kv =>
    match kv.splitOn "=" with
    | [k, v] => some (cps k, optFld v)
    | _ => none

def parseSEv (s : String) : Option (SEv × Option (PStr × Option PStr)) :=
  match s.splitOn "|" with
  | ["ST", n, l, c, a] => some (.starttag (cps n) (parseAttrs a) l.toNat! c.toNat!, none)
  | ["SE", n, l, c, a] => some (.startendtag (cps n) (parseAttrs a) l.toNat! c.toNat!, none)
  | ["ET", n] => some (.endtag (cps n), none)
  | ["D", d] => some (.data (cps d), none)
  | ["CR", n] => some (.charref (cps n), none)
  | ["ER", n, r] => some (.entityref (cps n), some (cps n, optFld r))
  | ["CM", d] => some (.comment (cps d), none)
  | ["DL", d] => some (.decl (cps d), none)
  | ["UD", d] => some (.unknownDecl (cps d), none)
  | ["PI", d] => some (.pi (cps d), none)
  | _ => none

def showAVal : AVal → String
  | .one s => showL s
  | .many l => "+".intercalate (l.map showL)

def showInfo (i : StartInfo) : String :=
  let p := match i.pos with | none => "~" | some (l, c) => s!"{l}.{c}"
  let a := if i.attrs.isEmpty then "-" else "&".intercalate (i.attrs.map fun kv => s!"{showL kv.1}={showAVal kv.2}")
  s!"{p}|{a}"

/-- print the tree, consuming one start info per element in document order -/
partial def showDocs : List Doc → List StartInfo → String × List StartInfo
  | [], infos => ("", infos)
  | .text c s :: ds, infos =>
    let (r, infos') := showDocs ds infos
    (s!"\"{c}:{showL s}\"" ++ r, infos')
  | .elem n _ ks :: ds, infos =>
    let (i, rest) := match infos with | i :: rest => (showInfo i, rest) | [] => ("?", [])
    let (inner, rest2) := showDocs ks rest
    let (r, rest3) := showDocs ds rest2
    (s!"<{showL n}|{i}>[{inner}]" ++ r, rest3)

/-- `orig=-` or `orig=129:1026.141:1036,8204`: what `bytearray([n]).decode(original_encoding)` gives (absent = it fails) -/
def parseOrig (s : String) : Nat → Option PStr :=
  let body := (s.drop 5).toString
  let tbl : List (Nat × PStr) := (splitNE "." body).filterMap fun e =>
    match e.splitOn ":" with
    | [n, v] => n.toNat?.map fun k => (k, cps v)
    | _ => none
  fun n => (tbl.find? (fun e => e.1 == n)).map (·.2)

def handleWith : String → String → String → String → String → String → String → String → String
  | which, void, dup, lines, pre, cont, orig, sevs =>
    let bcfg0 := C03.mkCfg pre cont
    let bcfg := { bcfg0 with asciiSpaces := BS.Gen.asciiSpaces, rootName := BS.Gen.rootTagName }
    match (splitNE ";" sevs).mapM parseSEv with
    | none => "bad-op"
    | some parsed =>
      let sevs := parsed.map (·.1)
      let ents := parsed.filterMap (·.2)
      let voidS := (void.drop 5).toString
      let voids := (splitNE "." voidS).map ofS
      let cfg : ACfg :=
        { isVoid := fun n => voidS == "*" || voids.contains n,
          dup := if dup == "dup=ignore" then .ignore else if dup == "dup=acc" then .accumulate else .replace,
          storeLines := lines == "lines=1",
          entity := fun n => ((ents.find? (fun e => e.1 == n)).map (·.2)).join,
          cp1252 := fun n => (BS.Gen.cp1252Table.find? (fun e => e.1 == n)).map (·.2),
          origDecode := parseOrig orig,
          maxDigits := BS.Gen.intMaxStrDigitsC04 }
      let r := if which == "adaptold" then toEventsOld cfg sevs else toEvents cfg sevs
      (showDocs (build bcfg r.1) r.2).1

/-! ### the writer (`emit_build`): `emit <void> <dup> <lines> <pre> <cont> <doc> <choices>` and `norm <void> <dup> <lines> <pre> <cont> <doc>`
  doc: `;`-separated nodes in document order, fields `|`-separated: `E|name|line|col|k=v&k=v|nkids` (followed by its
    children), `T|text`, `S|kind|text` with kind `c` comment, `cd` CDATA, `dt` doctype, `ud` declaration, `pi`
  choices: one `;`-separated entry per node in the same order: element `p` (`<br>`) | `s` (`<br/>`) | `r` (`<br></br>`) |
    `o` (not void); text: one `.`-separated entry per character: `l` literal, `c` literal starting a new chunk, `dZ` decimal
    with Z leading zeros, `hXDZ` hexadecimal (X, D ∈ 0/1: upper-case x / digits), `nNAME` named (code points); special:
    `k` followed by one 0/1 per letter of the keyword (1 = upper case)
  reply of `emit`: the callbacks in the recorder's form (`ER|name` without the resolution); of `norm`: the tree as `adapt` prints it -/
open BS.Writer

partial def parseForest (p : Path) : Nat → Nat → List String → List WDoc × List (Path × (Nat × Nat)) × List String
  | _, 0, toks => ([], [], toks)
  | _, _, [] => ([], [], [])
  | i, k + 1, t :: toks =>
    let (d, ps, rest) : WDoc × List (Path × (Nat × Nat)) × List String :=
      match t.splitOn "|" with
      | ["E", n, l, c, a, nk] =>
        let (ks, ps, rest) := parseForest (i :: p) 0 nk.toNat! toks
        (.elem (cps n) (parseAttrs a) ks, (i :: p, (l.toNat!, c.toNat!)) :: ps, rest)
      | ["T", s] => (.text (cps s), [], toks)
      | ["S", k, s] =>
        let kind := if k == "c" then Kind.comment else if k == "cd" then .cdata else if k == "dt" then .doctype
                    else if k == "ud" then .decl else .pi
        (.special kind (cps s), [], toks)
      | _ => (.text [], [], toks)
    let (ds, ps2, rest2) := parseForest p (i + 1) k rest
    (d :: ds, ps ++ ps2, rest2)

/-- paths of the nodes in document order -/
partial def pathsOf (p : Path) : Nat → List WDoc → List Path
  | _, [] => []
  | i, d :: ds =>
    (match d with
     | .elem _ _ ks => (i :: p) :: pathsOf (i :: p) 0 ks
     | _ => [i :: p]) ++ pathsOf p (i + 1) ds

def parseCharSp (s : String) : CharSp :=
  match s.toList with
  | 'c' :: _ => .lit true
  | 'd' :: z => .dec (String.ofList z).toNat!
  | 'h' :: x :: d :: z => .hex (x == '1') (d == '1') (String.ofList z).toNat!
  | 'n' :: nm => .named (cps (String.ofList nm))
  | _ => .lit false

def mkChoices (doc : List WDoc) (pos : List (Path × (Nat × Nat))) (choices : String) : Choices :=
  let tbl : List (Path × String) := (pathsOf [] 0 doc).zip (choices.splitOn ";")
  let look : Path → String := fun p => ((tbl.find? (fun e => e.1 == p)).map (·.2)).getD ""
  { void := fun p => let s := look p; if s == "s" then .slash else if s == "r" then .pair else .plain,
    pos := fun p => ((pos.find? (fun e => e.1 == p)).map (·.2)).getD (0, 0),
    char := fun p =>
      let specs := ((splitNE "." (look p)).map parseCharSp).toArray
      fun i => specs.getD i (.lit false),
    kwCase := fun p => let bits := ((look p).drop 1).toString.toList.toArray; fun i => bits.getD i '0' == '1' }

def showAttrsRaw (a : List (PStr × Option PStr)) : String :=
  if a.isEmpty then "-" else "&".intercalate (a.map fun kv => s!"{showL kv.1}={match kv.2 with | none => "~" | some v => showL v}")

def showSEv : SEv → String
  | .starttag n a l c => s!"ST|{showL n}|{l}|{c}|{showAttrsRaw a}"
  | .startendtag n a l c => s!"SE|{showL n}|{l}|{c}|{showAttrsRaw a}"
  | .endtag n => s!"ET|{showL n}"
  | .data d => s!"D|{showL d}"
  | .charref n => s!"CR|{showL n}"
  | .entityref n => s!"ER|{showL n}"
  | .comment d => s!"CM|{showL d}"
  | .decl d => s!"DL|{showL d}"
  | .unknownDecl d => s!"UD|{showL d}"
  | .pi d => s!"PI|{showL d}"

def handleWriter (which void dup lines pre cont doc choices : String) : String :=
  let bcfg0 := C03.mkCfg pre cont
  let bcfg := { bcfg0 with asciiSpaces := BS.Gen.asciiSpaces, rootName := BS.Gen.rootTagName }
  let voidS := (void.drop 5).toString
  let voids := (splitNE "." voidS).map ofS
  let cfg : ACfg :=
    { isVoid := fun n => voidS == "*" || voids.contains n,
      dup := if dup == "dup=ignore" then .ignore else if dup == "dup=acc" then .accumulate else .replace,
      storeLines := lines == "lines=1",
      entity := fun _ => none,
      cp1252 := fun n => (BS.Gen.cp1252Table.find? (fun e => e.1 == n)).map (·.2),
      origDecode := fun _ => none,
      maxDigits := BS.Gen.intMaxStrDigitsC04 }
  let toks := splitNE ";" doc
  let (ds, pos, _) := parseForest [] 0 toks.length toks
  let c := mkChoices ds pos choices
  if which == "emit" then
    let evs := emitDoc cfg.isVoid c ds
    if evs.isEmpty then "-" else ";".intercalate (evs.map showSEv)
  else
    (showDocs (normalise bcfg ds) (startInfos cfg c ds)).1

/-- `wraw <void> <doc> <choices>` → `<WritableRaw 0/1>|<Writable 0/1>|<writeText>`; `rawok <name> <text>` → `rawTextOK` -/
def handleWraw (void doc choices : String) : String :=
  let voidS := (void.drop 5).toString
  let voids := (splitNE "." voidS).map ofS
  let iv : PStr → Bool := fun n => voidS == "*" || voids.contains n
  let toks := splitNE ";" doc
  let (ds, pos, _) := parseForest [] 0 toks.length toks
  let c := mkChoices ds pos choices
  s!"{bit (decide (BS.WriterText.WritableRaw iv c ds))}|{bit (decide (BS.WriterText.Writable iv c ds))}|{showL (BS.WriterText.writeText iv c ds)}"

def handle : List String → String
  | ["rawok", name, text] => bit (BS.WriterText.rawTextOK (fld name) (fld text))
  | ["wraw", void, doc, choices] => handleWraw void doc choices
  | ["emit", void, dup, lines, pre, cont, doc, choices] => handleWriter "emit" void dup lines pre cont doc choices
  | ["norm", void, dup, lines, pre, cont, doc] => handleWriter "norm" void dup lines pre cont doc ""
  | [which, void, dup, lines, pre, cont, sevs] => handleWith which void dup lines pre cont "orig=-" sevs
  | [which, void, dup, lines, pre, cont, orig, sevs] => handleWith which void dup lines pre cont orig sevs
  | _ => "bad-op"

end BS.Drv.C04
