import BSModel.Driver.Util
import BSModel.Model.Render
import BSModel.Model.Reparse
import BSModel.Model.RenderWritten
import BSModel.Proofs.WriterMinimal
import BSModel.Gen.Render
import BSModel.Model.Entities
import BSModel.Gen.Entities
/-! line protocol of C05 (rendering and re-parsing)

    c05 render <flavour> <fmt> <tbl> <tree>   code-mirror `decode()` and `decode_contents()` of every tag of the tree in
                                              pre-order:  D:<cps>;C:<cps> | …
    c05 rspec  <flavour> <fmt> <tbl> <tree>   the same through `renderSpec`/`renderL`
    c05 trip   <flavour> <fmt> <tree>         the root's children as a forest:
                                              repr=<0|1> # emit=<events> # norm=<forest> # build=<forest> # norm2=<forest> # repr2=<0|1> # dst=<0|1 DoctypeStable> # grow=<n: characters the text gains on the second trip>
    c05 tripc  <void> <flavour> <fmt> <tree>  the same under a builder with `empty_element_tags` = D (default) | N (None) | - (empty set) | name;name
    c05 written <void> <flavour> <fmt> <tree> rw=<0|1 RenderWritable> # text=<cps: writeText under minimalChoices of toWDocL>
    c05 top <rootAttr> <chain> <arg> <tbl> <tree>   `decode(formatter=arg)` incl. `formatter_for_name`/`_is_xml`:  D:<cps> | KeyError
    c05 sor <rootAttr> <chain> <arg|None> <tbl> <pname|N> <cls> <cps>   `string.output_ready(arg)`:  D:<cps> | KeyError
    c05 doctype <name|N> <pub|N> <sys|N>      `Doctype._string_for_name_and_ids` (tokens: N = None, e = "", else cps)
    c05 subst <cps> | c05 quote <cps>         `substitute_xml`, `quoted_attribute_value`

    chain   := - | <k>.<k>…      `known_xml` from the element up to its root: N | T | F
    arg     := n:none | n:<cps>                                  registry key
             | c:<kind>                                          a callable (kind 1/2/3 = the EntitySubstitution functions, 9 = graph in tbl)
             | o:<kind>:<void cps|->:<cdata tag;tag (dotted)|->:<0|1>   a Formatter object

    flavour := h | x          (HTMLFormatter.REGISTRY / XMLFormatter.REGISTRY, generated)
    fmt     := none | <cps of the registry key>
    tbl     := -  |  <src>><dst>;…    graph of the substitution function for the strings of the case when the registry
                                      entry's function is not substitute_xml (computed by the real code, C09's subject);
                                      src/dst are dotted code points, `e` = empty
    tree    := S <cls> <cps> | T <name> <pfx> <cbe><hidden> <nattrs> (<key> <val>)* <nkids> tree*
    pfx     := N | e | <cps>        val := N | s[<cps>] | l[<item>/<item>…]   item := <cps> | -
    cls     := index into the constructor list of `SCls` -/
namespace BS.Drv.C05
open BS.Render BS.Drv

def clsList : List SCls :=
  [.navigable, .preformatted, .cdata, .pi, .xmlpi, .comment, .declaration, .doctype, .stylesheet, .script, .template,
   .rubyText, .rubyParen]

def clsOf (n : Nat) : SCls := clsList.getD n .navigable
def codeOf (c : SCls) : Nat := clsList.idxOf c

def dots (l : PStr) : String := if l.isEmpty then "e" else ".".intercalate (l.map toString)
def undots (s : String) : PStr := if s == "e" then [] else natList "." s

def parseVal (s : String) : AVal :=
  if s == "N" then .none
  else if s.startsWith "s" then .str (cps (s.drop 1).toString)
  else
    let body := (s.drop 1).toString
    if body.isEmpty then .list [] else .list ((body.splitOn "/").map fun it => if it == "-" then [] else cps it)

def parsePfx (s : String) : Option PStr :=
  if s == "N" then none else if s == "e" then some [] else some (cps s)

def parseAttrs : Nat → List String → Option (List (PStr × AVal) × List String)
  | 0, rest => some ([], rest)
  | n + 1, k :: v :: rest =>
    match parseAttrs n rest with
    | some (as, rest') => some ((cps k, parseVal v) :: as, rest')
    | none => none
  | _ + 1, _ => none

mutual
def parseNode : Nat → List String → Option (Node × List String)
  | 0, _ => none
  | _ + 1, "S" :: c :: v :: rest => some (.str (clsOf c.toNat!) (cps v), rest)
  | f + 1, "T" :: nm :: pf :: fl :: na :: rest =>
    match parseAttrs na.toNat! rest with
    | some (attrs, nk :: rest') =>
      match parseKids f nk.toNat! rest' with
      | some (ks, rest'') =>
        some (.tag ⟨cps nm, parsePfx pf, attrs, fl.toList.getD 0 '0' == '1', fl.toList.getD 1 '0' == '1'⟩ ks, rest'')
      | none => none
    | _ => none
  | _ + 1, _ => none
def parseKids : Nat → Nat → List String → Option (List Node × List String)
  | 0, _, _ => none
  | _ + 1, 0, rest => some ([], rest)
  | f + 1, n + 1, rest =>
    match parseNode f rest with
    | some (k, rest') =>
      match parseKids f n rest' with
      | some (ks, rest'') => some (k :: ks, rest'')
      | none => none
    | none => none
end

def showVal : AVal → String
  | .none => "N"
  | .str s => "s" ++ (if s.isEmpty then "" else showCps s)
  | .list l => "l" ++ "/".intercalate (l.map fun it => if it.isEmpty then "-" else showCps it)

def showPfx : Option PStr → String
  | none => "N"
  | some p => if p.isEmpty then "e" else showCps p

mutual
def showNode : Node → String
  | .str c s => s!"S {codeOf c} {showL s}"
  | .tag i ks =>
    let as := i.attrs.map fun kv => s!" {showL kv.1} {showVal kv.2}"
    s!"T {showL i.name} {showPfx i.pfx} {bit i.cbe}{bit i.hidden} {i.attrs.length}{String.join as} {ks.length}{showNodes ks}"
def showNodes : List Node → String
  | [] => ""
  | n :: ns => " " ++ showNode n ++ showNodes ns
end

def showForest (ns : List Node) : String := s!"{ns.length}{showNodes ns}"

def parseTbl (s : String) : List (PStr × PStr) :=
  (splitNE ";" s).filterMap fun it =>
    match it.splitOn ">" with
    | [a, b] => some (undots a, undots b)
    | _ => none

/-- the substitution function of a case: `substitute_xml` is modelled; any other registry function is given by its
    graph on the strings of the case (a string missing from the graph maps to the marker `?!` so that a hole shows) -/
def substOf (kind : Nat) (tbl : List (PStr × PStr)) : Option (PStr → PStr) :=
  if kind = 0 then none
  else if kind = 1 then some substXml
  else if kind = 2 then some (BS.Entities.substHtml BS.Gen.C09.htmlTable)      -- C09's model of substitute_html
  else if kind = 3 then some (BS.Entities.substHtml5 BS.Gen.C09.htmlTable)     -- C09's model of substitute_html5
  else some fun s => (lookupL tbl s).getD [63, 33]

def fmtEnv (tbl : List (PStr × PStr)) : FmtEnv :=
  ⟨BS.Gen.C05.registryOf, BS.Gen.C05.ctorDefaults, fun k => substOf k tbl⟩

def parseChain (s : String) : List (Option Bool) :=
  (splitNE "." s).map fun t => if t == "T" then some true else if t == "F" then some false else none

def parseArg (s : String) (tbl : List (PStr × PStr)) : Option FmtArg :=
  match s.splitOn ":" with
  | ["n", k] => some (.name (if k == "none" then none else some (cps k)))
  | ["c", k] => (substOf k.toNat! tbl).map FmtArg.fn
  | ["o", k, v, cd, eb] =>
    some (.obj ⟨substOf k.toNat! tbl, cps v, (splitNE ";" cd).map undots, eb == "1"⟩)
  | _ => none

def findSpec (flavour : String) (fmt : String) : Option FmtSpec :=
  let reg := if flavour == "x" then BS.Gen.C05.xmlRegistry else BS.Gen.C05.htmlRegistry
  let key : Option PStr := if fmt == "none" then none else some (cps fmt)
  (reg.find? (fun e => e.1 == key)).map (·.2)

def mkFmt (s : FmtSpec) (tbl : List (PStr × PStr)) : Fmt := ⟨substOf s.substKind tbl, s.voidPrefix, s.cdataTags, s.emptyBool⟩

mutual
def tagsOf : Node → List Node
  | .tag i ks => .tag i ks :: tagsOfL ks
  | .str _ _ => []
def tagsOfL : List Node → List Node
  | [] => []
  | n :: ns => tagsOf n ++ tagsOfL ns
end

def ci := BS.Gen.C05.liveClsInfo

def renderAll (spec : Bool) (f : Fmt) (root : Node) : String :=
  " | ".intercalate ((tagsOf root).map fun n =>
    let d := if spec then renderSpec ci f none n else decodeNode ci f n
    let c := if spec then renderL ci f n.pname n.kids else decodeContents ci f n
    s!"D:{showL d};C:{showL c}")

def showEvAttrs (as : List (PStr × Option PStr)) : String :=
  if as.isEmpty then "-" else "&".intercalate (as.map fun kv => dots kv.1 ++ "=" ++ (match kv.2 with | none => "N" | some v => "s" ++ dots v))

def showEv : TEv → String
  | .start n as => s!"B/{dots n}/{showEvAttrs as}"
  | .startend n as => s!"X/{dots n}/{showEvAttrs as}"
  | .stop n => s!"E/{dots n}"
  | .data s => s!"D/{dots s}"
  | .special c s => s!"P/{codeOf c}/{dots s}"

/-- the re-parsing configuration of a case: `D` = the live default, `N` = `empty_element_tags=None`, `-` = the empty set,
    else the names of the set (dotted code points, `;`-separated) -/
def cfgOf (s : String) : PCfg :=
  let p := BS.Gen.C05.livePCfg
  if s == "D" then p
  else if s == "N" then { p with voidAll := true, voidTags := [] }
  else { p with voidAll := false, voidTags := (splitNE ";" s).map undots }

def trip (p : PCfg) (f : Fmt) (root : Node) : String :=
  let ds := root.kids
  let evs := emitRL f ds
  let nrm := normaliseL p f ds
  s!"repr={bit (representableL p f ds)} # emit={"|".intercalate (evs.map showEv)} # norm={showForest nrm} # build={showForest (build p evs)} # norm2={showForest (normaliseL p f nrm)} # repr2={bit (representableL p f nrm)} # dst={bit (dstableL p (ctxOf p [rootFrame]) false ds)} # grow={grow p (ctxOf p [rootFrame]) ds}"

/-- `RenderWritable` of the root's children and the text C04's writer writes for them under `minimalChoices` -/
def written (p : PCfg) (f : Fmt) (root : Node) : String :=
  let ds := root.kids
  let W := toWDocL f ds
  let c := BS.WriterMin.minimalChoices W
  let ok := renderWritableL p.isVoid f ds && BS.WriterText.writableL p.isVoid c [] 0 W
              && BS.Writer.representableL rootFrame.name p.isVoid W
  s!"rw={bit ok} # text={showL (BS.WriterText.writeText p.isVoid c W)}"

def withTree (toks : List String) (k : Node → String) : String :=
  match parseNode (toks.length + 1) toks with
  | some (root, []) => k root
  | _ => "bad-tree"

def handle : List String → String
  | "render" :: fl :: fm :: tbl :: rest =>
    match findSpec fl fm with
    | some s => withTree rest (renderAll false (mkFmt s (parseTbl tbl)))
    | none => "no-such-formatter"
  | "rspec" :: fl :: fm :: tbl :: rest =>
    match findSpec fl fm with
    | some s => withTree rest (renderAll true (mkFmt s (parseTbl tbl)))
    | none => "no-such-formatter"
  | "trip" :: fl :: fm :: rest =>
    match findSpec fl fm with
    | some s => withTree rest (trip BS.Gen.C05.livePCfg (mkFmt s []))
    | none => "no-such-formatter"
  | "written" :: cf :: fl :: fm :: rest =>
    match findSpec fl fm with
    | some s => withTree rest (written (cfgOf cf) (mkFmt s []))
    | none => "no-such-formatter"
  | "tripc" :: cf :: fl :: fm :: rest =>
    match findSpec fl fm with
    | some s => withTree rest (trip (cfgOf cf) (mkFmt s []))
    | none => "no-such-formatter"
  | "top" :: ra :: ch :: arg :: tbl :: rest =>
    match parseArg arg (parseTbl tbl) with
    | some a => withTree rest fun n =>
        match decodeTop ci (fmtEnv (parseTbl tbl)) (ra == "1") (parseChain ch) a n with
        | some d => "D:" ++ showL d
        | none => "KeyError"
    | none => "bad-arg"
  | ["sor", ra, ch, arg, tbl, pn, c, s] =>
    let a : Option (Option FmtArg) := if arg == "None" then some none else (parseArg arg (parseTbl tbl)).map some
    match a with
    | none => "bad-arg"
    | some a =>
      match strOutputReady ci (fmtEnv (parseTbl tbl)) (ra == "1") (parseChain ch) a (parsePfx pn) (clsOf c.toNat!) (cps s) with
      | some d => "D:" ++ showL d
      | none => "KeyError"
  | ["doctype", n, pb, sy] => showL (doctypeString (parsePfx n) (parsePfx pb) (parsePfx sy))
  | ["subst", s] => showL (substXml (cps s))
  | ["quote", s] => showL (quoteAttr (cps s))
  | _ => "bad-op"

end BS.Drv.C05
