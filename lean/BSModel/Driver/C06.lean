import BSModel.Driver.Util
import BSModel.Model.Envelope
import BSModel.Model.EnvelopeTokenizer
import BSModel.Driver.TK
namespace BS.Drv.C06
open BS.Construct BS.Drv

def errName : Err → String
  | .baseException => "BaseException" | .exception => "Exception"
  | .keyboardInterrupt => "KeyboardInterrupt" | .systemExit => "SystemExit" | .generatorExit => "GeneratorExit"
  | .arithmeticError => "ArithmeticError" | .overflowError => "OverflowError" | .zeroDivisionError => "ZeroDivisionError"
  | .assertionError => "AssertionError" | .attributeError => "AttributeError"
  | .lookupError => "LookupError" | .indexError => "IndexError" | .keyError => "KeyError"
  | .valueError => "ValueError" | .unicodeError => "UnicodeError" | .unicodeDecodeError => "UnicodeDecodeError"
  | .unicodeEncodeError => "UnicodeEncodeError" | .unicodeTranslateError => "UnicodeTranslateError"
  | .typeError => "TypeError" | .runtimeError => "RuntimeError" | .recursionError => "RecursionError"
  | .notImplementedError => "NotImplementedError" | .memoryError => "MemoryError" | .stopIteration => "StopIteration"
  | .osError => "OSError" | .importError => "ImportError" | .nameError => "NameError"
  | .parserRejectedMarkup => "ParserRejectedMarkup" | .featureNotFound => "FeatureNotFound" | .stopParsing => "StopParsing"
  | .warningClass => "Warning"
  | .other k => s!"Other{k}"
  | .otherBase k => s!"OtherBase{k}"

/-- class name of the protocol -> class (`Other<k>` / `OtherBase<k>` for the open families) -/
def parseErr (s : String) : Err :=
  match Err.named.find? (fun e => errName e == s) with
  | some e => e
  | none =>
    if s.startsWith "OtherBase" then .otherBase ((s.drop 9).toString.toNat?.getD 0)
    else .other ((s.drop 5).toString.toNat?.getD 0)

def parseMarkup (kind cpsTok : String) : Markup :=
  if kind == "b" then .bytes (cps cpsTok) else .str (cps cpsTok)

def showWarning : Except Err Warning → String
  | .ok .none => "ok none"
  | .ok .url => "ok url"
  | .ok .filename => "ok filename"
  | .error e => "err " ++ errName e

/-- one-byte decoder table: `-` = no document encoding; else 256 entries separated by `;`:
    `e` = UnicodeDecodeError, `x` = another exception, `z` = empty string, else code points joined by `.` -/
def parseOrig (s : String) : Option (Nat → Dec1) :=
  if s == "-" then none
  else
    let entries := (s.splitOn ";").toArray
    some fun n =>
      match entries[n]? with
      | none => .decodeError
      | some "e" => .decodeError
      | some "x" => .otherError
      | some "z" => .ok []
      | some t => .ok (natList "." t)

def showText : Except Err PStr → String
  | .ok t => "ok " ++ showL t
  | .error e => "err " ++ errName e

def parseOutcome (s : String) : Outcome :=
  if s == "a" then .accept
  else if s == "r" then .reject
  else .raise (.other ((s.drop 1).toString.toNat?.getD 0))

/-- `codec:strict:replace;…` with strict/replace ∈ n (None) | z (empty text) | t (text) -/
def parseDecodeTable (s : String) : Nat → Bool → Option PStr :=
  let rows := (splitNE ";" s).filterMap fun item =>
    match item.splitOn ":" with
    | [c, a, b] => c.toNat?.map fun n => (n, a, b)
    | _ => none
  fun c repl =>
    match rows.find? (·.1 == c) with
    | none => none
    | some (_, a, b) =>
      let t := if repl then b else a
      if t == "n" then none else if t == "z" then some [] else some [120]

def parseCodecOf (s : String) : Nat → Option Nat :=
  let rows := (splitNE ";" s).filterMap fun item =>
    match item.splitOn ":" with
    | [e, c] => e.toNat?.bind fun n => c.toNat?.map fun k => (n, k)
    | _ => none
  fun e => (rows.find? (·.1 == e)).map (·.2)

/-- a machine over `Unit` whose feed is `soupFeed` of a parser delivering the recorded charref names and ending as
    the recorded tokenizer did -/
def ctorOutcome (old : Bool) (mk : Markup) (dammitSome : Bool) (tok : String) (orig : Option (Nat → Dec1))
    (names : List PStr) : String :=
  let tokErr : Option Err :=
    if tok == "ok" then none else if tok == "assert" then some .assertionError
    else if tok == "value" then some .valueError else some (.other 0)
  let p : Parser Unit :=
    { tokenize := fun _ => (names.map Event.charref, tokErr)
      applyData := fun _ o => o
      applyOther := fun _ o => (o, none)
      endOfInput := fun o => o
      markupOf := fun _ => []
      origOf := fun _ => orig }
  -- the unrepaired variant routes the names through `handleCharrefOld` first
  let oldErr : Option Err :=
    if old then names.findSome? fun n => match handleCharrefOld orig n with | .error e => some e | .ok _ => none
    else none
  let m : Machine Unit := ⟨fun _ => [], fun _ => [], if old then soupFeedOld p else soupFeed p, []⟩
  let dres : DammitResult := if dammitSome then ⟨some [], none, false⟩ else ⟨none, none, false⟩
  let r := construct m (if old then heuristicsOld else heuristics) (prepareMarkup (fun _ => dres) (fun _ => none))
    (fun _ => ()) mk
  match r.2, oldErr with
  | .error .parserRejectedMarkup, _ => "prm"
  | .error e, _ => "err " ++ errName e
  | .ok (), some e => "err " ++ errName e
  | .ok (), none => "tree"

def parsePoint (s : String) : Option Point :=
  Point.all.find? fun p => (reprStr p).endsWith ("." ++ s)

def parseCode (s : String) : Code :=
  if s == "v4130" then Code.v4130
  else if s == "close-unguarded" then { Code.live with closeGuarded := false }
  else Code.live

def showVerdict : Verdict → String
  | .tree => "tree"
  | .prm => "prm"
  | .escapes e => "escapes " ++ errName e

/-- `key:value;…` rows -/
def rows (s : String) : List (String × String) :=
  (splitNE ";" s).filterMap fun item =>
    match item.splitOn ":" with
    | [k, v] => some (k, v)
    | _ => none

def lookupRow (rs : List (String × String)) (k : Nat) : Option String :=
  (rs.find? (·.1 == toString k)).map (·.2)

/-- `t` text, `z` empty text, `!Class` raises -/
def parseDecodeCell (s : String) : Except Err PStr :=
  if s == "t" then .ok [120] else if s == "z" then .ok []
  else .error (parseErr (s.drop 1).toString)

/-- UnicodeDammit over raising primitives: candidates (ids or `!Class` where the generator raises), spellings per name,
    `codecs.lookup` per spelling, codec id per spelling, fallback codec per name, decode table, `ascii` names, the log call -/
def dammitEOp (code : Code) (cands spell look canon lowered table ascii log : String) : String :=
  let spellR := rows spell
  let lookR := rows look
  let canonR := rows canon
  let lowR := rows lowered
  let tabR := (splitNE ";" table).filterMap fun item =>
    match item.splitOn ":" with
    | [c, a, b] => c.toNat?.map fun n => (n, a, b)
    | _ => none
  let asciiIds := cps ascii
  let P : Prims Unit :=
    { Prims.quiet with
      cands := (splitNE "," cands).map fun t => if t.startsWith "!" then .error (parseErr (t.drop 1).toString) else .ok t.toNat!
      spellings := fun e => match lookupRow spellR e with
        | some v => natList "." v
        | none => []
      lookup := fun sp => match lookupRow lookR sp with
        | some "ok" => .ok ()
        | some v => .error (parseErr (v.drop 1).toString)
        | none => .error .lookupError
      canon := fun sp => ((lookupRow canonR sp).bind String.toNat?).getD 0
      lowered := fun e => (lookupRow lowR e).bind String.toNat?
      decode := fun c repl => match tabR.find? (·.1 == c) with
        | some (_, a, b) => parseDecodeCell (if repl then b else a)
        | none => .error .lookupError
      isAscii := fun e => asciiIds.contains e
      logWarning := if log == "ok" then .ok () else .error (parseErr (log.drop 1).toString) }
  match dammitE code P with
  | .error c => "escapes " ++ errName c
  | .ok r =>
    match r.unicodeMarkup with
    | none => s!"none repl={bit r.containsReplacement}"
    | some t => s!"some enc={r.originalEncoding.getD 0} repl={bit r.containsReplacement} empty={bit t.isEmpty}"

/-- `pipe <void> <dup> <lines> <pre> <cont> <table> <text>`: `EnvelopeTokenizer.feedClose` (text → tokenizer MODEL → bs4's handlers →
    construction machine): `tree|<tree as c04 adapt prints it>`, `prm`, or `outoffuel` (never); configuration tokens as for `c04 adapt`,
    table as for `tk tokens` -/
def handlePipe (void dup lines pre cont tab text : String) : String :=
  let bcfg0 := C03.mkCfg pre cont
  let bcfg := { bcfg0 with asciiSpaces := BS.Gen.asciiSpaces, rootName := BS.Gen.rootTagName }
  let t := TK.parseTab tab
  let voidS := (void.drop 5).toString
  let voids := (splitNE "." voidS).map ofS
  let acfg : BS.Adapter.ACfg :=
    { isVoid := fun n => voidS == "*" || voids.contains n,
      dup := if dup == "dup=ignore" then .ignore else if dup == "dup=acc" then .accumulate else .replace,
      storeLines := lines == "lines=1",
      entity := fun n => (TK.look t.e n).join,
      cp1252 := fun n => (BS.Gen.cp1252Table.find? (fun e => e.1 == n)).map (·.2),
      origDecode := fun _ => none,
      maxDigits := BS.Gen.intMaxStrDigitsC04 }
  match BS.EnvelopeTokenizer.feedClose ⟨TK.params t, acfg, bcfg⟩ (cps text) with
  | .tree docs infos => s!"tree|{(C04.showDocs docs infos).1}"
  | .rejected => "prm"
  | .outOfFuel => "outoffuel"

/-- `raises <text>`: the indices `i` with `<![` at `i` on which `parse_marked_section` raises (= `RaisesAt (text.drop i)`,
    `Props.C06.marked_section_raises_iff`), `-` if none -/
def handleRaises (text : String) : String :=
  let s := cps text
  let idx := (List.range s.length).filter fun i =>
    BS.Tokenizer.sw [60, 33, 91] (s.drop i) && BS.Tokenizer.parseMarkedSection none (s.drop i) == .err
  if idx.isEmpty then "-" else ",".intercalate (idx.map toString)

def handle : List String → String
  | ["pipe", void, dup, lines, pre, cont, tab, text] => handlePipe void dup lines pre cont tab text
  | ["raises", text] => handleRaises text
  | ["dammite", code, cands, spell, look, canon, lowered, table, ascii, log] =>
    dammitEOp (parseCode code) cands spell look canon lowered table ascii log
  | ["inject", code, pt, cls] =>
    match parsePoint pt with
    | some p => showVerdict (predict (parseCode code) p (parseErr cls))
    | none => "bad-op"
  | ["issub", a, b] => bit ((parseErr a).isSub (parseErr b))
  | ["covers", code] => bit (Covers (parseCode code) ⟨[], [], [.lookupError, .valueError, .unicodeEncodeError],
      [.lookupError, .valueError, .unicodeEncodeError, .unicodeDecodeError, .unicodeError], [], [], [], [],
      [.assertionError, .valueError], [.valueError], [.unicodeDecodeError, .unicodeError], [.valueError, .overflowError], []⟩)
  | ["heur", kind, c] => showWarning (heuristics (parseMarkup kind c))
  | ["heurold", kind, c] => showWarning (heuristicsOld (parseMarkup kind c))
  | ["guard", kind, c] => bit (heuristicsGuard (parseMarkup kind c))
  | ["utf8", c] => showL (encodeUtf8Replace (cps c))
  | ["utf8s", c] => showText (encodeUtf8Strict (cps c))
  | ["charref", orig, name] => showText (handleCharref (parseOrig orig) (cps name))
  | ["charrefold", orig, name] => showText (handleCharrefOld (parseOrig orig) (cps name))
  | ["charrefnum", name] =>
    match charrefNumber (cps name) with
    | .ok n => s!"ok {n}"
    | .error e => "err " ++ errName e
  | ["dammit", encs, codecOf, ascii, table] =>
    let asciiIds := cps ascii
    let env : DammitEnv := ⟨parseCodecOf codecOf, parseDecodeTable table, fun e => asciiIds.contains e⟩
    let r := dammit env (cps encs)
    match r.unicodeMarkup with
    | none => s!"none repl={bit r.containsReplacement}"
    | some t => s!"some enc={r.originalEncoding.getD 0} repl={bit r.containsReplacement} empty={bit t.isEmpty}"
  | ["retry", outs] =>
    match retryIndex ((splitNE "," outs).map parseOutcome) 0 with
    | none => "prm"
    | some (i, .accept) => s!"ok {i}"
    | some (i, .raise e) => s!"err {errName e} {i}"
    | some (_, .reject) => "bad-op"
  | ["ctor", kind, c, dm, tok, orig, names] =>
    ctorOutcome false (parseMarkup kind c) (dm == "some") tok (parseOrig orig) ((splitNE ";" names).map cps)
  | ["ctorold", kind, c, dm, tok, orig, names] =>
    ctorOutcome true (parseMarkup kind c) (dm == "some") tok (parseOrig orig) ((splitNE ";" names).map cps)
  | _ => "bad-op"

end BS.Drv.C06
