import BSModel.Driver.Util
import BSModel.Model.EncodingIn
import BSModel.Model.EncodingRx
/-! line protocol of property C07 (see harness/c07.py for the grammar) -/
namespace BS.Drv.C07
open BS BS.EncodingIn BS.Drv

/-- a name: `.`-separated code points, `e` = empty -/
def pName (s : String) : Name := if s == "e" then [] else natList "." s
def sName (n : Name) : String := if n.isEmpty then "e" else ".".intercalate (n.map toString)
/-- `;`-separated names, `-` = empty list -/
def pNames (s : String) : List Name := (splitNE ";" s).map pName
def sNames (l : List Name) : String := if l.isEmpty then "-" else ";".intercalate (l.map sName)
def pOptName (s : String) : Option Name := if s == "none" then none else some (pName s)
def sOptName : Option Name → String
  | none => "none"
  | some n => sName n
def sOptText : Option PStr → String
  | none => "none"
  | some t => showL t

def pMarkup (s : String) : Markup :=
  match s.splitOn ":" with
  | ["s", t] => .str (cps t)
  | ["b", t] => .bytes (cps t)
  | _ => .bytes []

structure Entry where
  name : Name
  ex : Bool
  strict : Option Nat
  repl : Option Nat

def pEntry (s : String) : Option Entry :=
  match s.splitOn "|" with
  | [n, ex, a, b] => some ⟨pName n, ex == "1", a.toNat?, b.toNat?⟩
  | _ => none

/-- the tabulated codec oracle of one case: answers only for the shipped (BOM-stripped) data -/
def mkCodecs (data : Bytes) (tab : String) (texts : String) (chardet : Option Name := none) : Codecs :=
  let es := (splitNE ";" tab).filterMap pEntry
  let ts : List PStr := (splitNE ";" texts).map pName
  let find (n : Name) : Option Entry := es.find? (·.name == n)
  { codecExists := fun n => match find n with | some e => e.ex | none => false
    decodeStrict := fun n d => if d == data then (find n).bind (·.strict) |>.bind (ts[·]?) else none
    decodeReplace := fun n d => if d == data then (find n).bind (·.repl) |>.bind (ts[·]?) else none
    chardet := fun _ => chardet }

def sResult (r : Result) : String :=
  s!"text={sOptText r.text} enc={sOptName r.originalEncoding} decl={sOptName r.declaredHtml} repl={bit r.containsReplacement}"

def mkArgs (html known override user excl : String) : Args :=
  { known := pNames known, override := pNames override, user := pNames user, exclude := pNames excl, isHtml := html == "1" }

/-! regex fragment on the wire: atoms `;`-separated: `(` `)` `1/<cls>` `r<min1><many><greedy>/<cls>`;
    cls: `L<c>` `N<c>` `A` `S` `O<sp><neg>,<c.c.c|->` -/
def pCls (s : String) : Option Rx.Cls :=
  match s.toList with
  | 'L' :: r => (String.ofList r).toNat?.map .lit
  | 'N' :: r => (String.ofList r).toNat?.map .notLit
  | ['A'] => some .any
  | ['S'] => some .space
  | 'O' :: sp :: neg :: ',' :: r => some (.oneOf (natList "." (String.ofList r)) (sp == '1') (neg == '1'))
  | _ => none

def pAtom (s : String) : Option Rx.Atom :=
  if s == "(" then some .gopen else if s == ")" then some .gclose else
  match s.splitOn "/" with
  | ["1", c] => (pCls c).map .one
  | [h, c] =>
    match h.toList with
    | ['r', a, b, g] => (pCls c).map fun k => .rep k (a == '1') (b == '1') (g == '1')
    | _ => none
  | _ => none

def sOptGroup : Option (List Nat) → String
  | none => "none"
  | some g => showL g

def handle : List String → String
  | ["declaredrx", isStr, b, html, entire] => sOptName (Rx.findDeclaredRx (isStr == "1") (cps b) (html == "1") (entire == "1"))
  | ["rx", flavor, anchored, atoms, subject, endpos] =>
    let F := if flavor == "s" then Rx.strFlavor else Rx.bytesFlavor
    match (splitNE ";" atoms).mapM pAtom with
    | none => "bad-pattern"
    | some as => sOptGroup (Rx.search F ⟨anchored == "1", as⟩ (cps subject) endpos.toNat!)
  | ["declared", b, html] => sOptName (findDeclared (cps b) (html == "1"))
  | ["bom", b] => let r := stripBom (cps b); s!"{showL r.1} {sOptName r.2}"
  | ["encodings", b, html, known, override, user, excl, ch] =>
    let a := mkArgs html known override user excl
    let sb := stripBom (cps b)
    sNames (detectorEncodings a sb.2 (findDeclared sb.1 a.isHtml) (pOptName ch))
  | ["encodingsstr", t, html, known, override, user, excl] =>
    sNames (Rx.detectorEncodingsStr (mkArgs html known override user excl) (cps t))
  | ["candidates", b, html, known, override, user, excl, ch] =>
    let a := mkArgs html known override user excl
    let sb := stripBom (cps b)
    sNames (candidates (a.known ++ a.override) sb.2 a.user (findDeclared sb.1 a.isHtml) (pOptName ch) (exclSet a))
  | ["dammit", m, html, known, override, user, excl, ch, data, tab, texts] =>
    sResult (dammit (mkCodecs (cps data) tab texts (pOptName ch)) (mkArgs html known override user excl) (pMarkup m))
  | ["dammitspec", m, html, known, override, user, excl, ch, data, tab, texts] =>
    let a := mkArgs html known override user excl
    match pMarkup m with
    | .str _ => "str"
    | .bytes b =>
      let C := mkCodecs (cps data) tab texts (pOptName ch)
      let r := dammitSpec C (stripBom b).1 (candidatesOf C a b)
      s!"text={sOptText r.1} enc={sOptName r.2.1} repl={bit r.2.2}"
  | ["construct", form, m, fromEnc, fromEncOld, excl, ch, data, tab, texts] =>
    let arg : MarkupArg := if form == "f" then .fileLike (pMarkup m) else .direct (pMarkup m)
    match constructorPrepareArg (mkCodecs (cps data) tab texts (pOptName ch)) arg (pOptName fromEnc) (pOptName fromEncOld) (pNames excl) with
    | .rejected => "rejected"
    | .ok t e d r => s!"ok text={showL t} enc={sOptName e} decl={sOptName d} repl={bit r}"
  | ["prepare", m, fromEnc, docDecl, excl, ch, data, tab, texts] =>
    match prepareMarkupFull (mkCodecs (cps data) tab texts (pOptName ch)) (pMarkup m) (pOptName fromEnc) (pOptName docDecl) (pNames excl) with
    | .rejected => "rejected"
    | .ok t e d r => s!"ok text={showL t} enc={sOptName e} decl={sOptName d} repl={bit r}"
  | _ => "bad-op"

end BS.Drv.C07
