import BSModel.Driver.Util
import BSModel.Model.EncodingOut
import BSModel.Model.EncodingOutUtf
/-! line protocol of C08 (output in a target encoding)

    c08 xcr <codec> <cps>                     xmlcharrefreplace C s                      -> cps
    c08 enc <codec> <s|i|r|x|b> <cps>         pyEncode C strict|ignore|replace|xmlcharrefreplace|backslashreplace s
                                                                                         -> B:<bytes> | E:<pos>:<cp>
    c08 sniff <bytes>                         sniffBom                                   -> utf-16be|utf-16le|utf-8|utf-32be|utf-32le|N
    c08 dec <codec> <bytes>                   C.dec                                      -> cps | N
    c08 subcs <e>                             CharsetMetaAttributeValue.substitute_encoding
    c08 subc <e> <orig>                       ContentMetaAttributeValue.substitute_encoding
    c08 search <orig>                         CHARSET_RE.search(orig) is not None        -> 0|1
    c08 setup <name> <n> (<key> <p|l|n> <val>)*n  set_up_substitutions                       -> key:kind … (kind p|c|m)
    c08 render <d|pN|c|cpN> <ev|N> <tree>     decode / decode(indent_level=N) / decode_contents -> cps
    c08 encode <e|p|c|cs> <name> <codec> <tree>   encode / prettify(enc) / encode_contents / encode_contents with `strict`
    c08 xmldecl <ev|N>
    c08 read <t|a> <codec|-> <cps>            readText (orig = that single-byte codec) / readAttr (quoted value)
    c08 find <cps>                            findDeclared                               -> cps | N

    codec := sb:<name cps>  (generated single-byte table)  |  utf:<name cps>  (utf-8, utf-16[-le|-be], utf-32[-le|-be])
             |  set:<0|1>:<encodable cps>  (identity bytes; 1 = ASCII encodable too)
    tree  := S <cps> | T <name> <nattrs> (<key> <p|c|m|n|l> <val>)*nattrs <nkids> tree*nkids
             (n: value None, <val> ignored; l: list value, items separated by `;`, `_` alone = empty list)
    render modes s / ps / cs: str(tag) / tag.prettify() / tag.decode_contents() with their default eventual_encoding -/
namespace BS.Drv.C08
open BS.EncodingOut BS.Drv BS.Gen.EncodingOut

def lookupSb (nm : PStr) : List (PStr × List Nat) → Option (List Nat)
  | [] => none
  | (k, v) :: rest => if k = nm then some v else lookupSb nm rest

def parseCodec (s : String) : Option Codec :=
  match s.splitOn ":" with
  | ["sb", nm] => (lookupSb (cps nm) sbCodecs).map tableCodec
  | ["utf", nm] => (utfCodecs.find? (fun p => p.1 == cps nm)).map (·.2)
  | ["set", a, l] => some (setCodec (cps l) (a == "1"))
  | _ => none

def showRes : EncResult → String
  | .bytes b => "B:" ++ showL b
  | .unicodeEncodeError p c => s!"E:{p}:{c}"

def parseHandler (h : String) : Handler :=
  if h == "s" then .strict else if h == "i" then .ignore else if h == "r" then .replace
  else if h == "b" then .backslashreplace else .xmlcharrefreplace

def showSniff : Option Sniffed → String
  | some .utf16be => "utf-16be"
  | some .utf16le => "utf-16le"
  | some .utf8 => "utf-8"
  | some .utf32be => "utf-32be"
  | some .utf32le => "utf-32le"
  | none => "N"

def parseKindS (k : String) (v : String) : AttrVal :=
  if k == "c" then .charsetMeta (cps v) else if k == "m" then .contentMeta (cps v)
  else if k == "n" then .novalue
  else if k == "l" then .list ((v.splitOn ";").filter (· ≠ "_") |>.map cps)
  else .plain (cps v)

def parseAttrs : Nat → List String → Option (List (PStr × AttrVal) × List String)
  | 0, rest => some ([], rest)
  | n + 1, k :: kind :: v :: rest =>
    match parseAttrs n rest with
    | some (as, rest') => some ((cps k, parseKindS kind v) :: as, rest')
    | none => none
  | _ + 1, _ => none

mutual
def parseNode : Nat → List String → Option (Node × List String)
  | 0, _ => none
  | _ + 1, "S" :: v :: rest => some (.text (cps v), rest)
  | f + 1, "T" :: nm :: na :: rest =>
    match parseAttrs na.toNat! rest with
    | some (as, nk :: rest') =>
      match parseKids f nk.toNat! rest' with
      | some (ks, rest'') => some (.tag (cps nm) as ks, rest'')
      | none => none
    | _ => none
  | _ + 1, _ => none
def parseKids : Nat → Nat → List String → Option (List Node × List String)
  | 0, _, _ => none
  | _ + 1, 0, rest => some ([], rest)
  | f + 1, n + 1, rest =>
    match parseNode f rest with
    | some (k, rest') =>
      match parseKids f n rest' with
      | some (ks, rest'') => some (k :: ks, rest'')
      | none => none
    | none => none
end

def parseEv (s : String) : Option PStr := if s == "N" then none else some (cps s)

def kindOf : AttrVal → String
  | .plain _ => "p"
  | .charsetMeta _ => "c"
  | .contentMeta _ => "m"
  | .novalue => "n"
  | .list _ => "l"

def parseMode (m : String) : Bool × Option Nat :=
  if m == "d" then (false, none)
  else if m == "c" then (true, none)
  else if m.startsWith "cp" then (true, some (m.drop 2).toString.toNat!)
  else (false, some (m.drop 1).toString.toNat!)

def handle (toks : List String) : String :=
  match toks with
  | ["xcr", c, s] => match parseCodec c with
    | some C => showL (xmlcharrefreplace C (cps s))
    | none => "bad-codec"
  | ["enc", c, h, s] => match parseCodec c with
    | some C => showRes (pyEncode C (parseHandler h) (cps s))
    | none => "bad-codec"
  | ["dec", c, b] => match parseCodec c with
    | some C => match C.dec (cps b) with
      | some s => showL s
      | none => "N"
    | none => "bad-codec"
  | ["sniff", b] => showSniff (sniffBom (cps b))
  | ["subcs", e] => showL (substituteCharset (cps e))
  | ["subc", e, o] => showL (substituteContent (cps e) (cps o))
  | ["search", o] => bit (charsetReSearch true (cps o))
  | "setup" :: nm :: n :: rest =>
    let rec pairs : Nat → List String → List (PStr × AttrVal)
      | 0, _ => []
      | k + 1, a :: kind :: v :: more => (cps a, parseKindS kind v) :: pairs k more
      | _ + 1, _ => []
    let out := setUpSubstitutions (cps nm) (pairs n.toNat! rest)
    if out.isEmpty then "-" else " ".intercalate (out.map (fun a => showL a.1 ++ ":" ++ kindOf a.2))
  | "setitem" :: k :: v :: nm :: n :: rest =>
    -- c08 setitem <key> <val> <name> <n> (<key> <kind> <val>)*n    tag built with these attributes, then tag[key] = val
    match parseAttrs n.toNat! rest with
    | some (as, []) =>
      let out := setItem (cps k) (cps v) (setUpSubstitutions (cps nm) as)
      if out.isEmpty then "-" else " ".intercalate (out.map (fun a => showL a.1 ++ ":" ++ kindOf a.2))
    | _ => "bad-args"
  | "newtag" :: nm :: nkw :: rest =>
    -- c08 newtag <name> <nkw> (<key> <kind> <val>)*nkw <nattrs> (<key> <kind> <val>)*nattrs   soup.new_tag(name, attrs=…, **kw)
    match parseAttrs nkw.toNat! rest with
    | some (kw, na :: rest') =>
      match parseAttrs na.toNat! rest' with
      | some (as, []) =>
        let out := newTagAttrs (cps nm) kw as
        if out.isEmpty then "-" else " ".intercalate (out.map (fun a => showL a.1 ++ ":" ++ kindOf a.2))
      | _ => "bad-args"
    | _ => "bad-args"
  | "render" :: m :: ev :: rest =>
    match parseNode (rest.length + 1) rest with
    | some (t, []) =>
      if m == "s" then showL (strImpl t)
      else if m == "ps" then showL (prettifyStrImpl t)
      else if m == "cs" then showL (decodeContentsDefault t)
      else
      let (contents, indent) := parseMode m
      showL (if contents then decodeContentsImpl indent (parseEv ev) t else decodeImpl indent (parseEv ev) t)
    | _ => "bad-tree"
  | "encode" :: entry :: nm :: c :: rest =>
    match parseCodec c, parseNode (rest.length + 1) rest with
    | some C, some (t, []) =>
      showRes (match entry with
        | "e" => encodeImpl (cps nm) C none t
        | "ei" => encodeImpl (cps nm) C none t .ignore
        | "er" => encodeImpl (cps nm) C none t .replace
        | "eb" => encodeImpl (cps nm) C none t .backslashreplace
        | "es" => encodeImpl (cps nm) C none t .strict
        | "p" => prettifyImpl (cps nm) C t
        | "c" => encodeContentsImpl (cps nm) C none t
        | _ => encodeContentsWith .strict (cps nm) C none t)
    | _, _ => "bad-args"
  | ["xmldecl", ev] => showL (xmlDeclaration (parseEv ev))
  | ["read", k, c, s] =>
    if k == "a" then showL (readAttr (cps s))
    else
      let orig : Nat → Option Nat := match parseCodec c with
        | some C => fun n => match C.dec [n] with
          | some [x] => some x
          | _ => none
        | none => fun _ => none
      showL (readText orig (cps s))
  | ["find", s] => match findDeclared (cps s) with
    | some v => showL v
    | none => "N"
  | _ => "bad-op"

end BS.Drv.C08
