import BSModel.Driver.Util
import BSModel.Model.Entities
import BSModel.Model.Reader
import BSModel.Gen.Entities
import BSModel.Gen.EntitiesFormatters
namespace BS.Drv.C09
open BS.Entities BS.Reader BS.Drv

def T : Tbl := BS.Gen.C09.htmlTable
def X : List (Nat × PStr) := BS.Gen.C09.xmlTable

def showO : Option PStr → String
  | none => "none"
  | some s => showL s

def regOf (s : String) : List RegEntry := if s == "x" then BS.Gen.C09.xmlRegistry else BS.Gen.C09.htmlRegistry

def handle : List String → String
  | ["xml", s] => showL (substXml X (cps s))
  | ["xmlkeyerr", s] => match xmlKeyError X (cps s) with | none => "none" | some c => toString c
  | ["xmlce", s] => showL (substXmlCE T X (cps s))
  | ["html", s] => showL (substHtml T (cps s))
  | ["html5", s] => showL (substHtml5 T (cps s))
  | ["html5old", s] => showL (substHtml5Old T (cps s))
  | ["html5raw", s] => showL (substHtml5Raw T (cps s))
  | ["quote", s] => showL (quoteAttr (cps s))
  | ["readtext", s] => showL (readText T false 0 (cps s))
  | ["readattr", s] => showO (readAttr T (cps s))
  | ["unescape", s] => showL (unescape T 0 (cps s))
  | ["name2char", s] => showO (T.toChar.get (cps s))
  | ["char2name", s] => showO (T.toName.get (cps s))
  | ["html5get", s] => showO (T.html5.get (cps s))
  | ["fmt", reg, named, name, parent, s] =>
    match findFormatter (regOf reg) (named == "1") (cps name) with
    | none => "no-formatter"
    | some e => showL (formatterSubstitute T X e (if parent == "none" then none else some (cps parent)) (cps s))
  | ["fmtcfg", lang, fn, cdataArg, parent, s] =>
    -- a custom Formatter(language, entity_substitution=fn, cdata_containing_tags=cdataArg)
    let arg : Option (List PStr) := if cdataArg == "none" then none else some ((splitNE ";" cdataArg).map cps)
    let e := mkFormatter BS.Gen.C09.htmlDefaultCdata (lang == "x") fn.toNat! arg
    showL (formatterSubstitute T X e (if parent == "none" then none else some (cps parent)) (cps s))
  | ["all", s] =>
    let s := cps s
    let subs := [substXml X s, substHtml T s, substHtml5 T s]
    let head := [substXml X s, substXmlCE T X s, substHtml T s, substHtml5 T s, substHtml5Raw T s, quoteAttr s, substHtml5Old T s]
    let reads := subs.flatMap fun o => [showL (readText T false 0 o), showL (quoteAttr o), showO (readAttr T (quoteAttr o))]
    let raw := [if s.contains 60 then "skip" else showL (readText T false 0 s), showO (readAttr T (quoteAttr s))]
    " ".intercalate (head.map showL ++ reads ++ raw)
  | _ => "bad-op"

end BS.Drv.C09
