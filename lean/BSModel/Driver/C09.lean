import BSModel.Driver.Util
import BSModel.Model.Entities
import BSModel.Model.Reader
import BSModel.Gen.Entities
import BSModel.Gen.EntitiesFormatters
import BSModel.Gen.EntitiesSource
import BSModel.Model.EntitiesPopulate
import BSModel.Model.EntitiesGlue
namespace BS.Drv.C09
open BS.Entities BS.Reader BS.Drv

def T : Tbl := BS.Gen.C09.htmlTable
def X : List (Nat × PStr) := BS.Gen.C09.xmlTable

def showO : Option PStr → String
  | none => "none"
  | some s => showL s

def regOf (s : String) : List RegEntry := if s == "x" then BS.Gen.C09.xmlRegistry else BS.Gen.C09.htmlRegistry

/-- insertion sort by `cmpL` on a key (canonical order for the reply) -/
def insertBy (key : α → PStr) (x : α) : List α → List α
  | [] => [x]
  | y :: ys => if cmpL (key x) (key y) == .gt then y :: insertBy key x ys else x :: y :: ys
def sortBy (key : α → PStr) (l : List α) : List α := l.foldl (fun acc x => insertBy key x acc) []
def sortNat (l : List Nat) : List Nat := (sortBy (fun n => [n]) l)

def parseItems (s : String) : Items :=
  (splitNE "/" s).filterMap fun it =>
    match it.splitOn ":" with
    | [n, c] => some (cps n, cps c)
    | _ => none
def parseCp2name (s : String) : List (Nat × PStr) :=
  (splitNE "/" s).filterMap fun it =>
    match it.splitOn ":" with
    | [c, n] => c.toNat?.map fun k => (k, cps n)
    | _ => none

/-- canonical rendering of everything `_populate_class_variables` computes -/
def showPopulate (items : Items) (cp : List (Nat × PStr)) : String :=
  let ps := sortBy (·.key) (populateParticlesAmp items)
  let pstr := ";".intercalate (ps.map fun p => showL p.key ++ "|" ++ showL (sortNat (dedup p.notNext)))
  let chars := sortBy id (dedup (items.map (·.2) ++ cp.map fun e => [e.1]))
  let ustr := ";".intercalate (chars.map fun ch => showL ch ++ "=" ++ showO (unicodeToName items cp ch))
  let names := sortBy id (dedup (items.map fun it => (stripSemi it.1).1))
  let nstr := ";".intercalate (names.map fun n => showL n ++ "=" ++ showO (nameToUnicode items n))
  let lstr := ";".intercalate ((sortBy id (legacyNames items)).map showL)
  s!"P {pstr} U {ustr} N {nstr} L {lstr}"

def handle : List String → String
  | ["xml", s] => showL (substXml X (cps s))
  | ["xmlkeyerr", s] => match xmlKeyError X (cps s) with | none => "none" | some c => toString c
  | ["xmlce", s] => showL (substXmlCE T X (cps s))
  | ["html", s] => showL (substHtml T (cps s))
  | ["html5", s] => showL (substHtml5 T (cps s))
  | ["html5mid", s] => showL (substHtml5Mid T (cps s))
  | ["readtextend", s] => showL (readTextEnd T false 0 (cps s))
  | ["html5old", s] => showL (substHtml5Old T (cps s))
  | ["html5raw", s] => showL (substHtml5Raw T (cps s))
  | ["quote", s] => showL (quoteAttr (cps s))
  | ["readtext", s] => showL (readText T false 0 (cps s))
  | ["readattr", s] => showO (readAttr T (cps s))
  | ["unescape", s] => showL (unescape T 0 (cps s))
  | ["name2char", s] => showO (T.toChar.get (cps s))
  | ["char2name", s] => showO (T.toName.get (cps s))
  | ["html5get", s] => showO (T.html5.get (cps s))
  | ["fmt", reg, named, name, parent, s] =>
    match findFormatter (regOf reg) (named == "1") (cps name) with
    | none => "no-formatter"
    | some e => showL (formatterSubstitute T X e (if parent == "none" then none else some (cps parent)) (cps s))
  | ["fmtcfg", lang, fn, cdataArg, parent, s] =>
    -- a custom Formatter(language, entity_substitution=fn, cdata_containing_tags=cdataArg)
    let arg : Option (List PStr) := if cdataArg == "none" then none else some ((splitNE ";" cdataArg).map cps)
    let e := mkFormatter BS.Gen.C09.htmlDefaultCdata (lang == "x") fn.toNat! arg
    showL (formatterSubstitute T X e (if parent == "none" then none else some (cps parent)) (cps s))
  | ["fmtstr", isXml, kind, a, b, parent, s] =>
    -- format_string: kind = key (a = named bit, b = name) | callable (a = fn code) | custom (a = fn code, b = cdata arg)
    let xml := isXml == "1"
    let arg : FormatterArg :=
      if kind == "key" then .key (a == "1") (cps b)
      else if kind == "callable" then .callable a.toNat!
      else .object (mkFormatter BS.Gen.C09.htmlDefaultCdata xml a.toNat!
        (if b == "none" then none else some ((splitNE ";" b).map cps)))
    match formatString T X BS.Gen.C09.htmlRegistry BS.Gen.C09.xmlRegistry BS.Gen.C09.htmlDefaultCdata xml arg
        (if parent == "none" then none else some (cps parent)) (cps s) with
    | none => "KeyError"
    | some r => showL r
  | ["fmtsub", lang, fn, classDefaults, cdataArg, parent, s] =>
    -- an instance of a SUBCLASS whose class-level HTML_DEFAULTS["cdata_containing_tags"] is `classDefaults`
    let d : List PStr := (splitNE ";" classDefaults).map cps
    let arg : Option (List PStr) := if cdataArg == "none" then none else some ((splitNE ";" cdataArg).map cps)
    let e := mkFormatter d (lang == "x") fn.toNat! arg
    showL (formatterSubstitute T X e (if parent == "none" then none else some (cps parent)) (cps s))
  | ["fmtlang", lang, fn, cdataArg, parent, s] =>
    -- Formatter(language=lang, fn, cdata_containing_tags=cdataArg): lang = none | - (empty string) | code points
    let l : Option PStr := if lang == "none" then none else some (cps lang)
    let arg : Option (List PStr) := if cdataArg == "none" then none else some ((splitNE ";" cdataArg).map cps)
    let e := mkFormatterLang BS.Gen.C09.htmlDefaultCdata l fn.toNat! arg
    showL (formatterSubstitute T X e (if parent == "none" then none else some (cps parent)) (cps s))
  | ["fmtattr", reg, named, name, key, kind, v] =>
    match findFormatter (regOf reg) (named == "1") (cps name) with
    | none => "no-formatter"
    | some e =>
      let val : AttrVal := if kind == "absent" then .absent else if kind == "str" then .str (cps v)
        else if kind == "charset" then .charset (cps v)
        else .list ((splitNE ";" v).map cps)
      showL (formatAttribute T X e (cps key) val)
  | ["populate-live"] => showPopulate BS.Gen.C09.html5Items BS.Gen.C09.codepoint2name
  | ["populate", items, cp] => showPopulate (parseItems items) (parseCp2name cp)
  | ["all", s] =>
    let s := cps s
    let subs := [substXml X s, substHtml T s, substHtml5 T s]
    let head := [substXml X s, substXmlCE T X s, substHtml T s, substHtml5 T s, substHtml5Raw T s, quoteAttr s, substHtml5Old T s]
    let reads := subs.flatMap fun o => [showL (readText T false 0 o), showL (quoteAttr o), showO (readAttr T (quoteAttr o))]
    let raw := [if s.contains 60 then "skip" else showL (readText T false 0 s), showO (readAttr T (quoteAttr s))]
    -- the hypothesis of `reader_attr_is_tokenizer`: the model of html.unescape on the bodies actually written
    -- the same texts as the last thing of a document (no tag after them)
    let ends := (subs ++ [s]).map fun o => if o.contains 60 then "skip" else showL (readTextEnd T false 0 o)
    let un := subs.map fun o => showL (unescape T 0 ((quoteAttr o).drop 1).dropLast)
    " ".intercalate (head.map showL ++ reads ++ raw ++ un ++ ends)
  | _ => "bad-op"

end BS.Drv.C09
