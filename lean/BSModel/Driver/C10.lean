import BSModel.Driver.Util
import BSModel.Model.Search
import BSModel.Model.SearchHeap
import BSModel.Model.Css
/-! Line protocol for C10 (see harness/c10.py for the encoder).

`find <variant> <tree> <start> <family> <form> <limit> <name> <attrs> <string> <kwargs> <re> <ft> <fs>`
* variant: `r` (/repo HEAD) | `p` (HEAD + fixes/proposed) | `u` (4.13.0 as shipped)
* tree: pre-order, `;`-separated: `T:<id>:<name>:<pfx|~>:<k=val&…|->:<nkids>` / `S:<id>:<text>:<cls>`,
  val = `s.<cps>` | `l.<cps>+<cps>…`
* family: desc child next prev nsib psib par
* form: `all` | `one` | `call.<0|1>` | `getattr.<cps>` | `spec` | `css.<simple>`
* criteria: `n` `s.<cps>` `y.<cps>` `b.<0|1>` `f.<i>` `r.<i>` `o.<cps>.<0|1>` `L<item>|<item>…` (item `N` = nested list)
* tables: `re` = `<i>:<cps>:<0|1>;…`, `ft` = `<i>:<tag id>:<0|1>;…`, `fs` = `<i>:<cps|~>:<0|1>;…` -/
namespace BS.Drv.C10
open BS.Search BS.Drv BS.SearchHeap

def pstr (s : String) : PStr := cps s

def parseVal (s : String) : AttrVal :=
  if s.startsWith "s." then .one (pstr (s.drop 2).toString)
  else
    let body := (s.drop 2).toString
    if body.isEmpty then .many [] else .many ((body.splitOn "+").map pstr)

def parseAttrs (s : String) : List (PStr × AttrVal) :=
  (splitNE "&" s).filterMap fun kv =>
    match kv.splitOn "=" with
    | [k, v] => some (pstr k, parseVal v)
    | _ => none

partial def parseNode : List String → Option (Node × List String)
  | [] => none
  | t :: rest =>
    match t.splitOn ":" with
    | ["S", i, txt, c] => some (.text i.toNat! (pstr txt) c.toNat!, rest)
    | ["T", i, nm, pf, ats, nk] =>
      let rec kidsLoop (n : Nat) (toks : List String) (acc : List Node) : Option (List Node × List String) :=
        match n with
        | 0 => some (acc.reverse, toks)
        | n + 1 => match parseNode toks with
          | some (k, toks') => kidsLoop n toks' (k :: acc)
          | none => none
      match kidsLoop nk.toNat! rest [] with
      | some (ks, rest') =>
        some (.tag i.toNat! (pstr nm) (if pf == "~" then none else some (pstr pf)) (parseAttrs ats) ks, rest')
      | none => none
    | _ => none

def parseTree (s : String) : Option Node := (parseNode (s.splitOn ";")).map (·.1)

def parseAtom (s : String) : Atom :=
  if s == "n" then .none
  else match s.splitOn "." with
    | ["s", x] => .str (pstr x)
    | ["y", x] => .bytes (pstr x)
    | ["b", x] => .bool (x == "1")
    | ["f", x] => .fn x.toNat!
    | ["r", x] => .regex x.toNat!
    | ["o", x, t] => .other (pstr x) (t == "1")
    | _ => .none

def parseCrit (s : String) : Crit :=
  if s.startsWith "L" then
    let body := (s.drop 1).toString
    if body.isEmpty then .list []
    else .list ((body.splitOn "|").map fun it => if it == "N" then Item.nested else .atom (parseAtom it))
  else .atom (parseAtom s)

def parsePairs (s : String) : List (PStr × Crit) :=
  (splitNE "&" s).filterMap fun kv =>
    match kv.splitOn "=" with
    | [k, v] => some (pstr k, parseCrit v)
    | _ => none

def parseAttrsArg (s : String) : AttrsArg :=
  if s.startsWith "S" then .sugar (parseCrit (s.drop 1).toString)
  else .dict (parsePairs (let b := (s.drop 1).toString; if b.isEmpty then "-" else b))

def parseFam : String → Option Family
  | "desc" => some .descendants | "child" => some .children | "next" => some .nextElements
  | "prev" => some .previousElements | "nsib" => some .nextSiblings | "psib" => some .previousSiblings
  | "par" => some .parents | _ => none

def parseLimit (s : String) : Option Nat := if s == "none" then none else s.toNat?

def parseOracle (re ft fs : String) : Oracle :=
  let reT : List (Nat × PStr × Bool) := (splitNE ";" re).filterMap fun e =>
    match e.splitOn ":" with | [i, s, b] => some (i.toNat!, pstr s, b == "1") | _ => none
  let ftT : List (Nat × Nat × Bool) := (splitNE ";" ft).filterMap fun e =>
    match e.splitOn ":" with | [i, s, b] => some (i.toNat!, s.toNat!, b == "1") | _ => none
  let fsT : List (Nat × Option PStr × Bool) := (splitNE ";" fs).filterMap fun e =>
    match e.splitOn ":" with
    | [i, s, b] => some (i.toNat!, (if s == "~" then none else some (pstr s)), b == "1")
    | _ => none
  { re := fun i s => ((reT.find? (fun e => e.1 == i && e.2.1 == s)).map (·.2.2)).getD false
    fnTag := fun i t => ((ftT.find? (fun e => e.1 == i && e.2.1 == t)).map (·.2.2)).getD false
    fnStr := fun i s => ((fsT.find? (fun e => e.1 == i && e.2.1 == s)).map (·.2.2)).getD false }

def showCall : Call → String
  | .tag i t => s!"t:{i}:{t}"
  | .str i s => s!"s:{i}:{showL s}"

def showCalls (l : List Call) : String := if l.isEmpty then "-" else ";".intercalate (l.map showCall)

def showIds (l : List Elem) : String := showL (l.map (·.id))

def parseSimple (s : String) : Option Simple :=
  match s.splitOn "/" with
  | ["type", n] => some (.type (pstr n))
  | ["cls", c] => some (.cls (pstr c))
  | ["id", i] => some (.ident (pstr i))
  | ["has", a] => some (.hasAttr (pstr a))
  | ["eq", a, v] => some (.attrEq (pstr a) (pstr v))
  | _ => none

/-! `findh <variant> <heap> <start> <family> <form all|one> <limit> <name> <attrs> <string> <kwargs> <re> <ft> <fs>`:
the same search on the pointer heap. heap = `;`-separated
`<id>:<kind g|t|s|p>:<parent>:<ps>:<ns>:<pe>:<ne>:<kids a+b|->:<name or text cps>:<pfx|~>:<attrs>` (pointers `~` = None),
exactly the six link fields and `contents` observed on the real objects. -/
structure HNode where
  id : Nat
  kind : BS.Heap.Kind
  parent : Option Nat
  ps : Option Nat
  ns : Option Nat
  pe : Option Nat
  ne : Option Nat
  kids : List Nat
  val : PStr
  pfx : Option PStr
  attrs : List (PStr × AttrVal)

def optNat (s : String) : Option Nat := if s == "~" then none else s.toNat?

def parseHNode (t : String) : Option HNode :=
  match t.splitOn ":" with
  | [i, k, pa, ps, ns, pe, ne, ks, vl, pf, ats] =>
    some { id := i.toNat!, kind := (if k == "g" then .soup else if k == "t" then .tag else if k == "p" then .pre else .str),
           parent := optNat pa, ps := optNat ps, ns := optNat ns, pe := optNat pe, ne := optNat ne,
           kids := natList "+" ks, val := pstr vl, pfx := (if pf == "~" then none else some (pstr pf)),
           attrs := parseAttrs ats }
  | _ => none

def mkHeap (ns : List HNode) : BS.Heap.Heap × Labels :=
  let get : Nat → Option HNode := fun i => ns.find? (·.id == i)
  ({ parent := fun i => (get i).bind (·.parent), ps := fun i => (get i).bind (·.ps), ns := fun i => (get i).bind (·.ns),
     pe := fun i => (get i).bind (·.pe), ne := fun i => (get i).bind (·.ne),
     kids := fun i => ((get i).map (·.kids)).getD [],
     kind := fun i => ((get i).map (·.kind)).getD .str,
     val := fun i => ((get i).map (·.val)).getD [],
     next := ns.length, cap := ns.length + 1 },
   { name := fun i => ((get i).map (·.val)).getD [],
     pfx := fun i => (get i).bind (·.pfx),
     attrs := fun i => ((get i).map (·.attrs)).getD [] })

def handleH : List String → String
  | [var, heap, start, fam, form, limit, name, attrs, string, kw, re, ft, fs] =>
    match parseFam fam with
    | some f =>
      let nodes := (heap.splitOn ";").filterMap parseHNode
      let (h, L) := mkHeap nodes
      let v := if var == "u" then Variant.unrepaired else if var == "p" then Variant.proposed else Variant.repaired
      let O := parseOracle re ft fs
      let q : Query := { name := parseCrit name, attrs := parseAttrsArg attrs, string := parseCrit string,
                         kwargs := parsePairs kw }
      let st := start.toNat!
      if form == "all" then
        match findAllH O v h L st f q (parseLimit limit) with
        | .ok r => s!"{showIds r.1} | {showCalls r.2}"
        | .error _ => "err"
      else if form == "one" then
        match findOneH O v h L st f q with
        | .ok r => s!"{match r.1 with | some e => toString e.id | none => "none"} | {showCalls r.2}"
        | .error _ => "err"
      else "bad-op"
    | none => "bad-op"
  | _ => "bad-op"

/-! `cssd <entry> <sel s|c> <ns none|given> <limit unset|none|N> <flags unset|N> <extra 0|1>`: the soupsieve call the
entry point makes (BS.Css.dispatch), canonically. -/
def handleCss : List String → String
  | [entry, sel, ns, limit, flags, extra] =>
    let e? : Option BS.Css.Entry := match entry with
      | "tag.select" => some .tagSelect | "tag.select_one" => some .tagSelectOne
      | "css.select" => some .cssSelect | "css.select_one" => some .cssSelectOne | "css.iselect" => some .cssIselect
      | "css.closest" => some .cssClosest | "css.match" => some .cssMatch | "css.filter" => some .cssFilter
      | "css.compile" => some .cssCompile | _ => none
    match e? with
    | none => "bad-op"
    | some e =>
      let a : BS.Css.Args :=
        { sel := if sel == "c" then .compiled 0 else .str 0
          ns := if ns == "given" then .given 0 else .none
          limit := if limit == "unset" then .unset else if limit == "none" then .none else .n limit.toNat!
          flags := if flags == "unset" then none else flags.toNat?
          extra := extra == "1" }
      let (c, wrap) := BS.Css.dispatch e 1 a
      let fn := match c.fn with
        | .select => "select" | .selectOne => "select_one" | .iselect => "iselect" | .closest => "closest"
        | .match_ => "match" | .filter => "filter" | .compile => "compile"
      let selS := match c.sel with | .str _ => "s" | .compiled _ => "c"
      let nsS := match c.ns with | .none => "none" | .given _ => "given" | .tagNamespaces => "tagns"
      let limS := match c.limit with | .notTaken => "-" | .none => "~" | .n k => toString k
      s!"fn={fn} sel={selS} tag={bit c.tag.isSome} ns={nsS} limit={limS} flags={c.flags} extra={bit c.extra} wrap={bit wrap}"
  | _ => "bad-op"

/-- `method <name>`: what a method name (canonical or deprecated alias) searches: `<all|one> <family|byrec>` -/
def handleMethod : List String → String
  | [name] =>
    match methodOf name with
    | none => "unknown"
    | some k =>
      let fam := match k.family with
        | none => "byrec" | some .descendants => "desc" | some .children => "child" | some .nextElements => "next"
        | some .previousElements => "prev" | some .nextSiblings => "nsib" | some .previousSiblings => "psib"
        | some .parents => "par"
      s!"{if k.plural then "all" else "one"} {fam}"
  | _ => "bad-op"

def handle : List String → String
  | "findh" :: rest => handleH rest
  | "method" :: rest => handleMethod rest
  | "cssd" :: rest => handleCss rest
  | ["find", var, tree, start, fam, form, limit, name, attrs, string, kw, re, ft, fs] =>
    match parseTree tree, parseFam fam with
    | some root, some f =>
      let v := if var == "u" then Variant.unrepaired else if var == "p" then Variant.proposed else Variant.repaired
      let O := parseOracle re ft fs
      let q : Query := { name := parseCrit name, attrs := parseAttrsArg attrs, string := parseCrit string,
                         kwargs := parsePairs kw }
      let st := start.toNat!
      let lim := parseLimit limit
      if form == "all" then
        let r := findAllFam O v root st f q lim
        s!"{showIds r.1} | {showCalls r.2}"
      else if form == "one" then
        let r := findOneFam O v root st f q
        s!"{match r.1 with | some e => toString e.id | none => "none"} | {showCalls r.2}"
      else if form == "sall" then       -- a SoupStrainer object: as `name`, or its own find_all(generator, limit)
        let r := findAllStrainer O v (famQuery f q) lim (axis root st f)
        s!"{showIds r.1} | {showCalls r.2}"
      else if form == "sone" then       -- find(strainer) = find_all(strainer, limit=1)[0]
        let r := findAllStrainer O v (famQuery f q) (some 1) (axis root st f)
        s!"{match r.1.head? with | some e => toString e.id | none => "none"} | {showCalls r.2}"
      else if form == "sfind" then      -- ElementFilter.find(generator): first of the unlimited filter
        let r := findAllStrainer O v (famQuery f q) none (axis root st f)
        s!"{match r.1.head? with | some e => toString e.id | none => "none"} | -"
      else if form == "spec" then
        let r := findAllSpec O (famQuery f q) (axis root st f)
        showIds (match lim with | some k => r.take k | none => r)
      else if form.startsWith "call." then
        let r := callImpl O v root st q (form == "call.1") lim
        s!"{showIds r.1} | {showCalls r.2}"
      else if form.startsWith "getattr." then
        match getattrImpl O v root st (pstr (form.drop 8).toString) with
        | .ok (some e) => toString e.id
        | .ok none => "none"
        | .attributeError => "attrerr"
      else if form.startsWith "css." then
        match parseSimple (form.drop 4).toString with
        | some s => showIds (cssSpec s (axis root st f))
        | none => "bad-op"
      else "bad-op"
    | _, _ => "bad-tree"
  | _ => "bad-op"

end BS.Drv.C10
