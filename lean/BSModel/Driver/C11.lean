import BSModel.Driver.Util
import BSModel.Model.Depth
/-! line protocol of C11 (call-depth accounting)

    c11 depth <new|old> <rootkx> <midname> <pre codes> <container codes> <k> (<op>:<recv>:<linked>)*k <event>*
        the accounting of each <op> on the tree the events describe; reply: k numbers

    event  := o<name>.<attrs>.<kx>.<void> | c | ci (closed implicitly: no end tag in the markup) | t<text id>
    recv   := r (the root object: the BeautifulSoup object, or the builder-less root tag) | <k> (the k-th tag below the
              root in document order, 0 = the first)
    rootkx := 1 when the root was made with a builder (a BeautifulSoup object), 0 for a builder-less root tag
    midname := name code of the tag the harness calls `mid` (used by the name+string searches)
    linked := 1 when the root object's next_element points into the tree (after insert(0, …) / on a copy)

    c11 events <recv> <event>*      the code mirror of `_event_stream` on the receiver: "<mirror events> | <skeleton> | <cost> <evCmp>"

    The tree is assembled from the events with an explicit stack (no recursion on the nesting). Reply: a number,
    or `bad-…`. -/
namespace BS.Drv.C11
open BS.Depth BS.Drv

structure Frame where
  name : Nat
  attrs : Nat
  kx : Bool
  void : Bool
  kidsRev : List Node

def addKid (k : Node) : List Frame → List Frame
  | [] => []
  | f :: fs => { f with kidsRev := k :: f.kidsRev } :: fs

def nat4 (s : String) : Option (Nat × Nat × Nat × Nat) :=
  match (s.splitOn ".").map String.toNat? with
  | [some a, some b, some c, some d] => some (a, b, c, d)
  | _ => none

/-- fold the events over a stack of open frames; the bottom frame is the root -/
def buildStep (st : Option (List Frame)) (tok : String) : Option (List Frame) :=
  match st with
  | none => none
  | some fs =>
    if tok == "c" || tok == "ci" then
      match fs with
      | f :: g :: rest => some (addKid (.tag f.name f.attrs f.kx f.void f.kidsRev.reverse) (g :: rest))
      | _ => none
    else if tok.startsWith "t" then
      some (addKid (.str ((tok.drop 1).toString.toNat!)) fs)
    else if tok.startsWith "o" then
      match nat4 (tok.drop 1).toString with
      | some (n, a, kx, v) => some (⟨n, a, kx == 1, v == 1, []⟩ :: fs)
      | none => none
    else none

def buildTree (rootkx : Bool) (toks : List String) : Option Node :=
  match toks.foldl buildStep (some [⟨0, 0, rootkx, false, []⟩]) with
  | some [f] => some (.tag f.name f.attrs f.kx f.void f.kidsRev.reverse)
  | _ => none

/-- the tokenizer events of the MARKUP the harness parsed: `ci` marks an end tag that is missing from it -/
def toksToEvs : List String → List Nat → List Ev
  | [], _ => []
  | tok :: rest, open_ =>
    if tok == "c" then
      match open_ with
      | n :: up => (if n == 0 then [] else [.close (n - 1)]) ++ toksToEvs rest up     -- 0 = a void tag (closed at once)
      | [] => toksToEvs rest []
    else if tok == "ci" then toksToEvs rest (open_.drop 1)
    else if tok.startsWith "t" then .text :: toksToEvs rest open_
    else match nat4 (tok.drop 1).toString with
      | some (n, _, _, v) => .open n (v == 1) :: toksToEvs rest ((if v == 1 then 0 else n + 1) :: open_)
      | none => toksToEvs rest open_

/-- harness codes: 6 = pre, 9 = textarea; 7 = rt, 10 = rp, 11 = template -/
def preNames : Names := { isPre := fun n => n == 6 || n == 9, isSc := fun n => n == 7 || n == 10 || n == 11 }

def q0 : Query := ⟨none, false, false, none, false⟩

/-- the harness' operation names -/
def opDepth (cfg : Cfg) (preNames : Names) (op : String) (linked : Bool) (root : Loc) (l : Loc) (midName : Nat) (evs : List Ev) : Option Nat :=
  let parent : Loc := ⟨l.anc.drop 1, [], .tag 0 0 (l.anc.headD true) false l.sibs⟩
  let fresh : Loc := ⟨[], [], .tag 8 0 (kxOf root.node) false []⟩
  let s : Loc := ⟨[], [], .str 0⟩
  let allNodes := (descs root.anc root.node).map (·.node)
  let big := 1000000000
  match op with
  | "parse" | "parse_bytes" | "parse_strainer" | "parse_invariant" | "parse_state_clean" => some (parseDepth preNames big evs)
  | "decode" | "decode_html" | "decode_fn" | "decode_mid" | "decode_inner" => some (decodeDepth cfg l)
  | "encode" | "encode_inner" => some (encodeDepth cfg l)
  | "prettify" | "prettify_enc" => some (prettifyDepth cfg l)
  | "str" | "repr" => some (strDepth cfg l)
  | "decode_contents" => some (decodeContentsDepth cfg l)
  | "encode_contents" => some (encodeContentsDepth cfg l)
  | "hash" => some (hashDepth cfg l)
  | "doc_decode" => some (docDecodeDepth cfg l)
  | "doc_encode" | "doc_prettify" => some (call (docDecodeDepth cfg l))
  | "copy" | "copy_mid" | "copy_inner" => some (copyDepth cfg false l)
  | "deepcopy" => some (call (deepcopyDepth cfg false l))
  | "doc_copy" => some (copyDepth cfg true l)
  | "doc_deepcopy" => some (call (deepcopyDepth cfg true l))
  | "doc_pickle" | "doc_pickle_insert0" | "doc_pickle_py" | "doc_pickle_py_insert0" => some (pickleDepth cfg preNames big linked (feedState preNames big evs) l)
  | "doc_pickle_copy" | "doc_pickle_py_copy" => some (max (copyDepth cfg true l) (pickleDepth cfg preNames big linked (feedState preNames big evs) l))
  | "get_text" | "get_text_sep_strip" | "text" | "doc_get_text" => some (getTextDepth l)
  | "strings" | "stripped_strings" => some (call (allStringsDepth l))
  | "string_getter" | "string_getter_mid" => some (stringDepth cfg l.node)
  | "find_all" | "find_all_true" | "find_all_nonrec" => some (findAllDepth cfg q0 l)
  | "find_all_name" | "find_all_limit" | "doc_find_all" => some (findAllDepth cfg { q0 with name := some 1 } l)
  | "find_all_name_string" => some (findAllDepth cfg { q0 with name := some midName, str := true } l)
  | "find_all_true_string" => some (findAllDepth cfg { q0 with otherNameRule := true, otherMatches := true, str := true } l)
  | "find_all_string" => some (findAllDepth cfg { q0 with str := true } l)
  | "find_all_attrs" => some (findAllDepth cfg { q0 with attrs := some 1 } l)
  | "find_all_attrs_string" => some (findAllDepth cfg { q0 with attrs := some 1, str := true } l)
  | "find_all_re" | "find_all_fn" => some (findAllDepth cfg { q0 with otherNameRule := true } l)
  | "find_all_list" => some (findAllDepth cfg { q0 with otherNameRule := true, otherMatches := true } l)
  | "find" | "call" => some (findDepth cfg { q0 with name := some 99 } l)
  | "find_string" => some (findDepth cfg { q0 with name := some midName, str := true } l)
  | "getattr_find" => some (getattrFindDepth cfg { q0 with name := some 99 } l)
  -- the other axes: `vis` = every element of the document (a superset of any axis; the accounting is monotone in it)
  | "find_parents" | "find_all_next" | "find_all_previous" | "find_next_siblings" | "find_previous_siblings" =>
    some (findAxisDepth cfg q0 allNodes)
  | "find_parents_name" | "find_all_next_name" => some (findAxisDepth cfg { q0 with name := some 1 } allNodes)
  | "find_parent" | "find_next" | "find_previous" | "find_next_sibling" =>
    some (call (findAxisDepth cfg { q0 with name := some 99 } allNodes))
  | "descendants" => some (descGenDepth l)
  | "next_elements" | "previous_elements" | "parents" => some (call (loop0 allNodes))
  | "extract_inner" | "extract_mid" | "extract_top" | "extract_last_child" => some (extractDepth idTest l)
  | "replace_last_child" => some (replaceWithDepth idTest parent l [s])
  | "decompose_top" | "decompose_mid" => some (decomposeDepth idTest l)
  | "clear_top" => some (clearDepth idTest l false)
  | "clear_decompose" => some (clearDepth idTest l true)
  | "unwrap_mid" | "unwrap_top" => some (unwrapDepth idTest parent l)
  | "wrap_mid" => some (wrapDepth idTest parent l fresh)
  | "replace_with_mid" => some (replaceWithDepth idTest parent l [fresh, s])
  | "insert_before_inner" | "insert_after_inner" | "insert_after_mid" => some (insertBesideDepth idTest parent l [s, fresh])
  | "append_inner" | "append_top" | "move_subtree" => some (appendDepth idTest l fresh false)
  | "insert0_top" | "insert0_root" => some (insertDepth idTest l [fresh, s] false)
  | "extend_mid" => some (extendDepth idTest l [s, fresh, s])
  | "nc_extend_tag" => some (extendDepth idTest l [l, l])
  | "str_extract" | "str_decompose" => some (decomposeDepth idTest l)
  | "str_replace_with" => some (replaceWithDepth idTest parent l [s, fresh])
  | "str_insert_before" | "str_insert_after" => some (insertBesideDepth idTest parent l [s])
  | "str_wrap" => some (wrapDepth idTest parent l fresh)
  | "str_find_parents" | "str_find_all_previous" => some (findAxisDepth cfg { q0 with name := some 1 } allNodes)
  | "str_find_parent" | "str_find_next" => some (call (findAxisDepth cfg { q0 with name := some 99 } allNodes))
  | "str_get_text" => some (getTextDepth l)
  | "str_output_ready" => some (call (call (formatterForNameDepth cfg l)))
  | "str_copy" => some (call (call cStrNew))
  | "after_move_decode" => some (max (appendDepth idTest l fresh false) (max (decodeDepth cfg l) (getTextDepth l)))
  | "after_wrap_decode" => some (max (wrapDepth idTest parent l fresh) (max (prettifyDepth cfg l) (findAllDepth cfg { q0 with name := some 1, str := true } l)))
  | "after_unwrap_copy" => some (max (unwrapDepth idTest parent l) (copyDepth cfg false l))
  | "after_replace_decode" => some (max (replaceWithDepth idTest parent l [l]) (max (decodeDepth cfg l) (smoothDepth cfg l)))
  | "api_build" => some (max (appendDepth idTest l fresh false) (call cTagInit))
  | "doc_pickle_proto2" => some (pickleDepth cfg preNames big linked (feedState preNames big evs) l)
  | "index" | "tw_index" | "tw_index_last" => some (indexDepth idTest (kidsOf l.node) l.node)
  -- an argument that is a near copy of the receiver is, for the accounting, just another element: identity tests only
  | "nc_replace_with" | "nc_replace_with_exact" | "nc_replace_with_top" | "nc_replace_with_parentcopy"
  | "tw_replace_with" | "tw_replace_with_sibling" => some (replaceWithDepth idTest parent l [l])
  | "nc_replace_with_two" => some (replaceWithDepth idTest parent l [l, l])
  | "nc_insert_before" | "nc_insert_before_exact" | "nc_insert_after" | "tw_insert_before" | "tw_insert_after" =>
    some (insertBesideDepth idTest parent l [l, l])
  | "nc_append_to_parent" | "nc_append_into_self" | "nc_append_child_of_copy" | "tw_move_first_to_end" => some (appendDepth idTest l l false)
  | "nc_insert0_parent" | "nc_insert_two" | "tw_insert_existing" => some (insertDepth idTest parent [l, l] false)
  | "nc_extend" => some (extendDepth idTest parent [l, l])
  | "nc_wrap_in_copy" | "tw_wrap" => some (wrapDepth idTest parent l l)
  | "nc_extract_before_parentcopy" | "tw_extract" | "tw_extract_last" => some (extractDepth idTest l)
  | "tw_unwrap" => some (unwrapDepth idTest parent l)
  | "tw_decompose" => some (decomposeDepth idTest l)
  | "tw_clear" => some (clearDepth idTest l false)
  | "tw_string_setter" => some (stringSetDepth idTest l)
  | "tw_smooth" => some (smoothDepth cfg l)
  | "tw_decode" => some (decodeDepth cfg l)
  | "tw_decode_parent" => some (prettifyDepth cfg l)
  | "tw_get_text" => some (getTextDepth l)
  | "tw_find_all" => some (findAllDepth cfg { q0 with name := some midName } l)
  | "tw_find_next_siblings" => some (findAxisDepth cfg { q0 with name := some midName } allNodes)
  | "tw_copy_parent" => some (copyDepth cfg false l)
  | "smooth" | "doc_smooth" => some (max (appendDepth idTest l s false) (smoothDepth cfg l))
  | "string_setter_mid" | "string_setter_inner" => some (stringSetDepth idTest l)
  | "len_bool_iter" | "contains_str" | "contains_child" => some (call (loop0 (kidsOf l.node)))
  -- positive control (inherently recursive, outside the property): `tag == copy.copy(tag)`
  | "eq_copy" => some (max (copyDepth cfg false l) (call (eqDepth l.node l.node)))
  | _ => none

/-- `<op>:<recv>:<linked>` -/
def oneOp (cfg : Cfg) (nm : Names) (root : Loc) (tags : List Loc) (midName : Nat) (evs : List Ev) (spec : String) : String :=
  match spec.splitOn ":" with
  | [op, recv, linked] =>
    let loc : Option Loc := if recv == "r" then some root else tags[recv.toNat!]?
    match loc with
    | none => "bad-recv"
    | some l =>
      match opDepth cfg nm op (linked == "1") root l midName evs with
      | some d => toString d
      | none => "bad-op"
  | _ => "bad-spec"

def showEvt : Evt → String
  | .start i => s!"S{i}"
  | .end i => s!"E{i}"
  | .empty i => s!"X{i}"
  | .string i => s!"T{i}"

/-- `events <recv> <event>*` (recv: `r` = the hidden document object, `<k>` = the k-th tag, `c<k>` = that tag with
    `iterator=self.descendants`): the code mirror of `_event_stream` on the receiver's subtree (identities = positions in
    document order below the receiver), then the recursive skeleton, then the deepest comparison of the `!=` variant -/
def handleEvents (recv : String) (toks : List String) : String :=
  match buildTree true toks with
  | none => "bad-events"
  | some rootNode =>
    let tags := (descs [] rootNode).filter (fun d => isTag d.node)
    let contents := recv == "r" || recv.startsWith "c"
    let idx := if recv.startsWith "c" then (recv.drop 1).toString else recv
    match (if recv == "r" then some rootNode else (tags[idx.toNat!]?).map (·.node)) with
    | none => "bad-recv"
    | some t =>
      let r := if contents then eventStreamContentsImpl repaired t else eventStreamImpl repaired t
      let o := if contents then eventStreamContentsImpl unrepaired t else eventStreamImpl unrepaired t
      let spec := if contents then evSpecL 1 (kidsOf t) else evSpecN 0 t
      let ch := if contents then evCmpContents unrepaired t else evCmp unrepaired t
      " ".intercalate (r.1.map showEvt) ++ " | " ++ " ".intercalate (spec.map showEvt) ++ " | " ++
        toString o.2 ++ " " ++ toString ch

def showVal : Val → String
  | .flat => "flat"
  | .self => "self"
  | .tree _ => "tree"

def showDict (d : List Field) : String := " ".intercalate (d.map (fun f => f.key.name ++ "=" ++ showVal f.val))

/-- `state <new|old> <linked> <haskids> <mostrecent> <pre codes> <container codes> <event>*`: the document object's
    `__dict__` after parsing the markup these events stand for (then linked or not), and what `__getstate__` makes of it -/
def handleState (variant linked haskids mostrecent prel scl : String) (toks : List String) : String :=
  let cfg := if variant == "old" then unrepaired else repaired
  let nm : Names := { isPre := (natList "," prel).contains, isSc := (natList "," scl).contains }
  let ps := feedState nm 1000000000 (toksToEvs toks [])
  let d := soupDict ps (haskids == "1") (linked == "1") (mostrecent == "1")
  showDict d ++ " | " ++ showDict (getstateImpl cfg d)

def optNat (s : String) : Option Nat := if s == "-" then none else s.toNat?

/-- `reads <name|-> <other: 0 none, 1 matches, 2 does not match> <attrs|-> <str> <event>*`: the positions (document
    order below the document object) of the tags whose `.string` a `find_all` with these criteria reads -/
def handleReads (name other attrs str : String) (toks : List String) : String :=
  match buildTree true toks with
  | none => "bad-events"
  | some rootNode =>
    let q : Query := ⟨optNat name, other != "0", other == "1", optNat attrs, str == "1"⟩
    showL (stringReads q rootNode)

def handle : List String → String
  | "events" :: recv :: toks => handleEvents recv toks
  | "reads" :: name :: other :: attrs :: str :: toks => handleReads name other attrs str toks
  | "state" :: variant :: linked :: haskids :: mostrecent :: prel :: scl :: toks => handleState variant linked haskids mostrecent prel scl toks
  | "depth" :: variant :: rootkx :: midname :: prel :: scl :: nops :: rest =>
    let cfg := if variant == "old" then unrepaired else repaired
    let k := nops.toNat!
    let specs := rest.take k
    match buildTree (rootkx == "1") (rest.drop k) with
    | none => "bad-events"
    | some rootNode =>
      let root : Loc := ⟨[], [rootNode], rootNode⟩
      let tags := (descs [] rootNode).filter (fun d => isTag d.node)
      let nm : Names := { isPre := (natList "," prel).contains, isSc := (natList "," scl).contains }
      " ".intercalate (specs.map (oneOp cfg nm root tags midname.toNat! (toksToEvs (rest.drop k) [])))
  | _ => "bad-op"

end BS.Drv.C11
