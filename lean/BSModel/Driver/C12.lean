import BSModel.Driver.Util
import BSModel.Model.Copy
/-! line protocol of C12 (copies, equality)

    c12 setitem  <dictCls> <key> <val>           what `d[key] = val` stores in a dict of that class (`coerce`): <val> | drop
    c12 copy     <inh> <next> <path> <tree>      `copyImpl` on the node at <path>; reply `<next'> <tree>` | `underflow`
    c12 copyspec <inh> <next> <path> <tree>      the same through `copySpec`
    c12 soupcopy <inh> <next> <fresh: a T node without children> <tree>     `copySoupImpl` on the root
    c12 events   <inh> <path> <tree>             the event stream below the node: s<name> | m<name> | t<val> | x
    c12 eq <tree> <tree>                         `eqImpl a b`, `eqImpl b a`, `neImpl a b` as three bits
    c12 edit <edit> <tree> <tree>                both trees after `applyEdit`, joined by ` | `

    str    := e | <cps>                          ostr := N | str         onat := N | <n>        obool := N | 0 | 1
    tree   := S <id> <cls> <str>
            | T <id> <name:str> <pfx:ostr> <ns:ostr> <attrs> <settings> <parserClass:onat> <dictCls> <avlCls> <nkids> tree*nkids
    attrs  := - | entry;entry…    entry := <key>=<val>
    key    := <str> | <str>~<prefix:ostr>~<name:ostr>~<namespace:ostr>      (the latter: a NamespacedAttribute)
    val    := s:<cls>:<str> | l:<lid>:<cls>:<item|item…> (no items: empty) | i:<int> | b:<0|1> | n
    settings := canBeEmpty.cdata.preserveWs.interesting.hidden.sourceline.sourcepos.knownXml.namespaces
    edit   := setattr <tag> <key> <val> | delattr <tag> <key> | lappend <lid> <item> | lset <lid> <items>
            | setname <tag> <name> | insert <tag> <pos> <tree> | clear <tag> | remove <id> | replace <id> <tree>
    path   := r | i.j.k -/
namespace BS.Drv.C12
open BS.Copy BS.Drv

def pstr (s : String) : PStr := if s == "e" then [] else natList "," s
def showP (s : PStr) : String := if s.isEmpty then "e" else showCps s
def ostr (s : String) : Option PStr := if s == "N" then none else some (pstr s)
def showOP : Option PStr → String
  | none => "N"
  | some s => showP s
def onat (s : String) : Option Nat := if s == "N" then none else s.toNat?
def showON : Option Nat → String
  | none => "N"
  | some n => toString n
def obool (s : String) : Option Bool := if s == "N" then none else some (s == "1")
def showOB : Option Bool → String
  | none => "N"
  | some b => bit b

def parseVal (s : String) : AVal :=
  match s.splitOn ":" with
  | ["s", c, v] => .str c.toNat! (pstr v)
  | ["l", lid, c, items] => .list lid.toNat! c.toNat! (if items.isEmpty then [] else (items.splitOn "|").map pstr)
  | ["i", n] => .int n.toInt!
  | ["b", b] => .bool (b == "1")
  | ["n"] => .none
  | _ => .str 0 []

def showVal : AVal → String
  | .str c s => s!"s:{c}:" ++ showP s
  | .list lid c items => s!"l:{lid}:{c}:" ++ "|".intercalate (items.map showP)
  | .int n => s!"i:{n}"
  | .bool b => "b:" ++ bit b
  | .none => "n"

def parseKey (s : String) : PStr × KMeta :=
  match s.splitOn "~" with
  | [k, p, n, ns] => (pstr k, some ⟨ostr p, ostr n, ostr ns⟩)
  | _ => (pstr s, none)

def showKey (k : PStr) : KMeta → String
  | none => showP k
  | some nk => showP k ++ "~" ++ showOP nk.pfx ++ "~" ++ showOP nk.name ++ "~" ++ showOP nk.ns

def parseAttrs (s : String) : Attrs :=
  if s == "-" then [] else (s.splitOn ";").filterMap fun e =>
    match e.splitOn "=" with
    | [k, v] => let km := parseKey k; some (km.1, km.2, parseVal v)
    | _ => none

def showAttrs (l : Attrs) : String :=
  if l.isEmpty then "-" else ";".intercalate (l.map fun kv => showKey kv.1 kv.2.1 ++ "=" ++ showVal kv.2.2)

def parseSettings (s : String) : Settings :=
  match s.splitOn "." with
  | [a, b, c, d, e, f, g, h, i] => ⟨obool a, onat b, onat c, onat d, e == "1", onat f, onat g, obool h, onat i⟩
  | _ => ⟨none, none, none, none, false, none, none, none, none⟩

def showSettings (s : Settings) : String :=
  ".".intercalate [showOB s.canBeEmpty, showON s.cdata, showON s.preserveWs, showON s.interesting, bit s.hidden,
    showON s.sourceline, showON s.sourcepos, showOB s.knownXml, showON s.namespaces]

mutual
def parseNode : Nat → List String → Option (Node × List String)
  | 0, _ => none
  | _ + 1, "S" :: i :: c :: v :: rest => some (.str i.toNat! c.toNat! (pstr v), rest)
  | f + 1, "T" :: i :: nm :: pf :: ns :: att :: st :: pc :: dc :: ac :: n :: rest =>
    match parseKids f n.toNat! rest with
    | some (ks, rest') =>
      some (.tag i.toNat! ⟨pstr nm, ostr pf, ostr ns, parseAttrs att, parseSettings st, onat pc, dc.toNat!, ac.toNat!⟩ ks, rest')
    | none => none
  | _ + 1, _ => none
def parseKids : Nat → Nat → List String → Option (List Node × List String)
  | 0, _, _ => none
  | _ + 1, 0, rest => some ([], rest)
  | f + 1, n + 1, rest =>
    match parseNode f rest with
    | some (k, rest') =>
      match parseKids f n rest' with
      | some (ks, rest'') => some (k :: ks, rest'')
      | none => none
    | none => none
end

mutual
def showNode : Node → List String
  | .str i c v => ["S", toString i, toString c, showP v]
  | .tag i d ks =>
    ["T", toString i, showP d.name, showOP d.pfx, showOP d.ns, showAttrs d.attrs, showSettings d.st, showON d.parserClass,
     toString d.dictCls, toString d.avlCls, toString ks.length] ++ showKids ks
def showKids : List Node → List String
  | [] => []
  | k :: ks => showNode k ++ showKids ks
end

def dump (n : Node) : String := " ".intercalate (showNode n)

/-- the node at a path together with the `_is_xml` of its parent -/
def nodeAt (inh : Option Bool) : Node → List Nat → Option (Node × Option Bool)
  | n, [] => some (n, inh)
  | .tag _ d ks, i :: p => match ks[i]? with
    | some k => nodeAt (isXml inh d) k p
    | none => none
  | .str _ _ _, _ :: _ => none

def parsePath (s : String) : List Nat := if s == "r" then [] else natList "." s

def showEv : Ev → String
  | .start d _ => "s" ++ showP d.name
  | .empty d _ => "m" ++ showP d.name
  | .string _ v => "t" ++ showP v
  | .stop => "x"

def parseEdit : List String → Option (Edit × List String)
  | "setattr" :: t :: k :: v :: rest => let km := parseKey k; some (.setAttr t.toNat! km.1 km.2 (parseVal v), rest)
  | "delattr" :: t :: k :: rest => some (.delAttr t.toNat! (pstr k), rest)
  | "lappend" :: l :: item :: rest => some (.listAppend l.toNat! (pstr item), rest)
  | "lset" :: l :: items :: rest =>
    some (.listSet l.toNat! (if items == "-" then [] else (items.splitOn "|").map pstr), rest)
  | "setname" :: t :: nm :: rest => some (.setName t.toNat! (pstr nm), rest)
  | "clear" :: t :: rest => some (.clear t.toNat!, rest)
  | "remove" :: x :: rest => some (.remove x.toNat!, rest)
  | "insert" :: t :: pos :: rest =>
    match parseNode (rest.length + 1) rest with
    | some (n, rest') => some (.insertKid t.toNat! pos.toNat! n, rest')
    | none => none
  | "replace" :: x :: rest =>
    match parseNode (rest.length + 1) rest with
    | some (n, rest') => some (.replace x.toNat! n, rest')
    | none => none
  | _ => none

def copyWith (f : Option Bool → Nat → Node → Option (Node × Nat)) (inh next path : String) (toks : List String) : String :=
  match parseNode (toks.length + 1) toks with
  | some (root, []) =>
    match nodeAt (obool inh) root (parsePath path) with
    | none => "bad-path"
    | some (n, i) =>
      match f i next.toNat! n with
      | none => "underflow"
      | some (c, n') => s!"{n'} {dump c}"
  | _ => "bad-tree"

def handle : List String → String
  | ["setitem", cls, k, v] =>
    let km := parseKey k
    match coerce cls.toNat! km.1 km.2 (parseVal v) with
    | none => "drop"
    | some v' => showVal v'
  | "copy" :: inh :: next :: path :: toks => copyWith copyImpl inh next path toks
  | "copyspec" :: inh :: next :: path :: toks => copyWith (fun i n t => some (copySpec i n t)) inh next path toks
  | "soupcopy" :: inh :: next :: toks =>
    match parseNode (toks.length + 1) toks with
    | some (.tag _ fresh [], rest) =>
      match parseNode (rest.length + 1) rest with
      | some (root, []) =>
        match copySoupImpl fresh (obool inh) next.toNat! root with
        | none => "underflow"
        | some (c, n') => s!"{n'} {dump c}"
      | _ => "bad-tree"
    | _ => "bad-fresh"
  | "events" :: inh :: path :: toks =>
    match parseNode (toks.length + 1) toks with
    | some (root, []) =>
      match nodeAt (obool inh) root (parsePath path) with
      | some (.tag _ d ks, i) =>
        let evs := eventsL (isXml i d) ks
        if evs.isEmpty then "-" else " ".intercalate (evs.map showEv)
      | some (.str _ _ _, _) => "-"
      | none => "bad-path"
    | _ => "bad-tree"
  | "eq" :: toks =>
    match parseNode (toks.length + 1) toks with
    | some (a, rest) =>
      match parseNode (rest.length + 1) rest with
      | some (b, []) => bit (eqImpl a b) ++ bit (eqImpl b a) ++ bit (neImpl a b)
      | _ => "bad-tree"
    | none => "bad-tree"
  | "edit" :: toks =>
    match parseEdit toks with
    | some (e, rest) =>
      match parseNode (rest.length + 1) rest with
      | some (a, rest') =>
        match parseNode (rest'.length + 1) rest' with
        | some (b, []) => dump (applyEdit e a) ++ " | " ++ dump (applyEdit e b)
        | _ => "bad-tree"
      | none => "bad-tree"
    | none => "bad-edit"
  | _ => "bad-op"

end BS.Drv.C12
