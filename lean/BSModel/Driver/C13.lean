import BSModel.Driver.Util
import BSModel.Driver.C01
import BSModel.Model.Text
import BSModel.Model.TextHeap
import BSModel.Model.Builder
import BSModel.Gen.Text
/-! line protocol of C13 (text extraction)

    c13 run  <nq> <query>*nq <tree>      code-mirror answers, joined by " | "
    c13 spec <nq> <query>*nq <tree>      the same queries through the recursive evaluator
    c13 sc <elementClasses> <containers> <top|N> <base|N>     BeautifulSoup.string_container
    c13 interesting <containers> <name>                        Tag.__init__'s interesting_string_types
    c13 strip <cps>
    c13 parseloop <containers> <preserve names ';'|-> <attempt>|<attempt>…
        the retry loop of `BeautifulSoup.__init__` over the candidates of `prepare_markup` (C03's `parseLoop`, which starts
        every attempt from `reset()`), run with `builderCfg`; attempt = `R:<events>` (rejected with ParserRejectedMarkup
        after sending these events) or `A:<events>` (accepted); reply as `parsecls`, or `rejected` when none is accepted
    c13 iter <kinds> <ops|-> <cls> <interesting> <receiver label> <types> <edit templates ';'|->
        `for s in receiver._all_strings(False, types): <edit>` on the pointer heap after the history: the k-th string handed
        out is edited by the k-th template (cyclically; `$` = the label of that string, `_` = no edit; C01 op syntax);
        reply: the labels handed out, `.`-joined, then ` | ` and the final children lists of all tags
    c13 parsecls <containers> <preserve names ';'|-> <events ';'>
        C03's builder machine (Model/Builder.lean: pushTag/popTag with BOTH context stacks, _popToTag, endData,
        string_container) run with the configuration `builderCfg` of a string_containers table and a
        preserve_whitespace_tags set; events `s:<name cps>` `e:<name cps>` `d:<cps>` `x:<cls>|x:-`;
        reply: class code of every string of the finished document, in document order, `.`-joined (`-` if none)
    c13 heap <mode> <kinds> <ops|-> <cls> <interesting> <nq> <query>*nq
        the pointer heap of Model/Heap.lean after the edit history `ops` (protocol of Driver/C01.lean) on fresh objects
        of the given kinds; cls = class code per initial id ('.'-separated; strings the library allocates are
        NavigableString, or Comment for a preformatted `.string=`); interesting = per id, ';'-separated, `_` = main content
        classes; mode `heap` = `allStringsHeap`/`getTextHeap`/`stringPropHeap` (pointer chase), mode `tree` = the tree-level
        code-mirror on `toNode`; a query's receiver is a C01 label (`t3`, `s7`)

    tree   := S <cls> <cps> | T <name> <interesting> <nkids> tree*nkids
    query  := <path>/<op>[/<arg>…]   path = r | i.j.k   (child indices from the root)
              A/<strip>/<types>  G/<strip>/<types>/<sep>  ST  SS  TX  SP
    types  := d | n | o<cls> | m<cls.cls…> | m-
    cls    := index into the generated `c13KnownStringClasses`, or 100+k for `.other k` -/
namespace BS.Drv.C13
open BS.Text BS.Drv

def clsOf (n : Nat) : StrClass :=
  if n ≥ 100 then .other (n - 100) else BS.Gen.c13KnownStringClasses.getD n (.other 99999)

def codeOf (c : StrClass) : Nat :=
  match c with
  | .other k => 100 + k
  | c => BS.Gen.c13KnownStringClasses.idxOf c

def parseCls (s : String) : StrClass := clsOf s.toNat!

def parseClsList (s : String) : List StrClass := (natList "." s).map clsOf

def parseTypes (s : String) : TypesArg :=
  if s == "d" then .dflt
  else if s == "n" then .none
  else if s.startsWith "o" then .one (parseCls (s.drop 1).toString)
  else .many (parseClsList (s.drop 1).toString)

/-- strip as passed: `0`/`1` bool, `i<n>` int, `n` None, `s<cps|->` str -/
def parseStrip (s : String) : PyArg :=
  if s == "1" then .bool true
  else if s == "0" then .bool false
  else if s == "n" then .none
  else if s.startsWith "i" then .int ((s.drop 1).toString.toInt?.getD 0)
  else .str (cps (s.drop 1).toString)

def parseInteresting (s : String) : Interesting :=
  if s == "N" then .none
  else if s.startsWith "n" then .noneOf (parseClsList (s.drop 1).toString)
  else if s.startsWith "o" then .one (parseCls (s.drop 1).toString)
  else .many (parseClsList (s.drop 1).toString)

mutual
def parseNode : Nat → List String → Option (Node × List String)
  | 0, _ => none
  | _ + 1, "S" :: c :: v :: rest => some (.str (parseCls c) (cps v), rest)
  | f + 1, "T" :: nm :: i :: n :: rest =>
    match parseKids f n.toNat! rest with
    | some (ks, rest') => some (.tag (cps nm) (parseInteresting i) ks, rest')
    | none => none
  | _ + 1, _ => none
def parseKids : Nat → Nat → List String → Option (List Node × List String)
  | 0, _, _ => none
  | _ + 1, 0, rest => some ([], rest)
  | f + 1, n + 1, rest =>
    match parseNode f rest with
    | some (k, rest') =>
      match parseKids f n rest' with
      | some (ks, rest'') => some (k :: ks, rest'')
      | none => none
    | none => none
end

def nodeAt : Node → List Nat → Option Node
  | n, [] => some n
  | .tag _ _ ks, i :: p => match ks[i]? with
    | some k => nodeAt k p
    | none => none
  | .str _ _, _ :: _ => none

def showP (s : PStr) : String := if s.isEmpty then "e" else showCps s
def showPieces (l : List PStr) : String := "[" ++ ";".intercalate (l.map showP) ++ "]"

def main := BS.Gen.c13MainContentStringTypes

/-- the recursive evaluator's answer to an `_all_strings` query -/
def specAll (strp : Bool) (types : TypesArg) : Node → List PStr
  | .tag _ i ks =>
    let l := textOfL (resolveTag main i types).keeps ks
    if strp then (l.map strip).filter (fun s => !s.isEmpty) else l
  | .str c v =>
    let l := textOf (resolveStr main types).keeps (.str c v)
    ((if strp then l.map strip else l)).filter (fun s => !s.isEmpty)

def answer (spec : Bool) (root : Node) (q : String) : String :=
  match q.splitOn "/" with
  | path :: op :: args =>
    match nodeAt root (if path == "r" then [] else natList "." path) with
    | none => "bad-path"
    | some n =>
      match op, args with
      | "A", [s, t] =>
        if t.startsWith "i" then showPieces (allStringsIterImpl (parseStrip s).truthy (parseClsList (t.drop 1).toString) n)
        else showPieces (if spec then specAll (parseStrip s).truthy (parseTypes t) n else allStringsArg main (parseStrip s) (parseTypes t) n)
      | "G", [s, t, sep] =>
        if t.startsWith "i" then
          showP (joinImpl (cps sep) (allStringsIterImpl (parseStrip s).truthy (parseClsList (t.drop 1).toString) n))
        else showP (if spec then joinSpec (cps sep) (specAll (parseStrip s).truthy (parseTypes t) n)
               else getTextImpl main (cps sep) (parseStrip s).truthy (parseTypes t) n)
      | "ST", [] => showPieces (if spec then specAll false .dflt n else stringsImpl main n)
      | "SS", [] => showPieces (if spec then specAll true .dflt n else strippedStringsImpl main n)
      | "TX", [] => showP (if spec then joinSpec [] (specAll false .dflt n) else textImpl main n)
      | "SP", [] =>
        match stringProp n with
        | none => "none"
        | some (c, v) => s!"{codeOf c}:{showP v}"
      | _, _ => "bad-query"
  | _ => "bad-query"

def runQueries (spec : Bool) (nq : String) (rest : List String) : String :=
  let k := nq.toNat!
  let qs := rest.take k
  let treeToks := rest.drop k
  match parseNode (treeToks.length + 1) treeToks with
  | some (root, []) => " | ".intercalate (qs.map (answer spec root))
  | _ => "bad-tree"

def parseContainers (s : String) : List (PStr × StrClass) :=
  (splitNE ";" s).filterMap fun item =>
    match item.splitOn ":" with
    | [nm, c] => some (cps nm, parseCls c)
    | _ => none

def parseElementClasses (s : String) : List (StrClass × StrClass) :=
  (splitNE ";" s).filterMap fun item =>
    match item.splitOn ":" with
    | [a, b] => some (parseCls a, parseCls b)
    | _ => none

def showInteresting : Interesting → String
  | .none => "N"
  | .one c => s!"o{codeOf c}"
  | .many cs => "m" ++ (if cs.isEmpty then "-" else ".".intercalate (cs.map (fun c => toString (codeOf c))))
  | .noneOf cs => "n" ++ (if cs.isEmpty then "-" else ".".intercalate (cs.map (fun c => toString (codeOf c))))

/-! ### the pointer heap -/
open BS.Heap in
def runHist : Heap → List String → Option Heap
  | h, [] => some h
  | h, o :: os =>
    match BS.Drv.C01.parseOp h o with
    | none => none
    | some op =>
      match step h op with
      | .error _ => none
      | .ok h1 => runHist h1 os

open BS.Heap in
def heapLabels (n : Nat) (cls : List Nat) (ints : List String) (h : Heap) : Labels :=
  { cls := fun i =>
      if i < n then clsOf (cls.getD i 0)
      else if h.kind i = .pre then .comment else .navigableString,
    interesting := fun i =>
      match ints[i]? with
      | some s => if s == "_" then .many main else parseInteresting s
      | none => .many main,
    name := fun i => [i] }

open BS.Heap in
def answerHeap (tree : Bool) (h : Heap) (L : Labels) (q : String) : String :=
  match q.splitOn "/" with
  | lab :: op :: args =>
    match BS.Drv.C01.resolve h lab with
    | none => "bad-label"
    | some x =>
      let all := fun (s : Bool) (t : TypesArg) =>
        if tree then Except.ok (allStringsImpl main s t (toNode h L h.cap x)) else allStringsHeap main h L s t x
      let showA := fun (r : Except Err (List PStr)) => match r with | .ok l => showPieces l | .error _ => "crash"
      match op, args with
      | "A", [s, t] => showA (all (s == "1") (parseTypes t))
      | "ST", [] => showA (all false .dflt)
      | "SS", [] => showA (all true .dflt)
      | "G", [s, t, sep] =>
        if tree then showP (getTextImpl main (cps sep) (s == "1") (parseTypes t) (toNode h L h.cap x))
        else match getTextHeap main h L (cps sep) (s == "1") (parseTypes t) x with
          | .ok r => showP r
          | .error _ => "crash"
      | "TX", [] =>
        if tree then showP (textImpl main (toNode h L h.cap x))
        else match getTextHeap main h L [] false .dflt x with
          | .ok r => showP r
          | .error _ => "crash"
      | "SP", [] =>
        if tree then
          match stringProp (toNode h L h.cap x) with
          | none => "none"
          | some (c, v) => s!"{codeOf c}:{showP v}"
        else
          match stringPropHeap h h.cap x with
          | none => "none"
          | some sId => s!"{codeOf (L.cls sId)}:{showP (h.val sId)}@{BS.Drv.C01.label h sId}"
      | _, _ => "bad-query"
  | _ => "bad-query"

def handleHeap (mode kinds ops cls ints nq : String) (qs : List String) : String :=
  let h0 := BS.Drv.C01.initHeap kinds
  match runHist h0 (splitNE ";" ops) with
  | none => "bad-history"
  | some h =>
    let L := heapLabels kinds.length (natList "." cls) (ints.splitOn ";") h
    " | ".intercalate ((qs.take nq.toNat!).map (answerHeap (mode == "tree") h L))

def showContainers (l : List (PStr × StrClass)) : String :=
  if l.isEmpty then "-" else ";".intercalate (l.map fun p => s!"{showL p.1}:{codeOf p.2}")

def parseSCArg (s : String) : SCArg :=
  if s == "U" then .useDefault
  else if s == "N" then .none
  else .dict (parseContainers (s.drop 2).toString)      -- `D:<containers>`

def parseBuilder (s : String) : Option (Option (List (PStr × StrClass))) :=
  if s == "N" then none
  else if s == "BN" then some none
  else some (some (parseContainers (s.drop 2).toString))   -- `B:<containers>`

def showInit : InitResult → String
  | .ok i => "ok " ++ showInteresting i
  | .typeError => "TypeError"

/-! ### the parser machine of C03 with a string_containers table -/
open BS.Builder in
def parseCfg (cont : List (PStr × StrClass)) (pres : List PStr) : Cfg :=
  builderCfg cont (fun n => pres.contains n) [32, 10, 9, 12, 13] (ofS "[document]")

open BS.Builder in
def parseEvent (s : String) : Option Ev :=
  match s.splitOn ":" with
  | ["s", n] => some (.start (cps n) none)
  | ["e", n] => some (.stop (cps n) none)
  | ["d", c] => some (.data (cps c))
  | ["x", c] => some (.endData (if c == "-" then none else c.toNat?.map (fun k => (clsOf k).code)))
  | _ => none

open BS.Builder in
partial def docClasses : Doc → List Nat
  | .elem _ _ ks => ks.flatMap docClasses
  | .text c _ => [codeOf (StrClass.ofCode c)]

open BS.Builder in
def handleParseCls (cont pres evs : String) : String :=
  let cfg := parseCfg (parseContainers cont) ((splitNE ";" pres).map cps)
  match (splitNE ";" evs).mapM parseEvent with
  | none => "bad-event"
  | some es =>
    let cs := (build cfg es).flatMap docClasses
    if cs.isEmpty then "-" else ".".intercalate (cs.map toString)

open BS.Heap in
def handleIter (kinds ops cls ints recv types edits : String) : String :=
  let h0 := BS.Drv.C01.initHeap kinds
  match runHist h0 (splitNE ";" ops) with
  | none => "bad-history"
  | some h =>
    match BS.Drv.C01.resolve h recv with
    | none => "bad-label"
    | some x =>
      let n := kinds.length
      let clsL := natList "." cls
      let intsL := ints.splitOn ";"
      let L : Labels := heapLabels n clsL intsL h
      let tmpl := splitNE ";" edits
      let edit : Heap → Nat → Nat → Option Op := fun hh k s =>
        match tmpl[k % (max tmpl.length 1)]? with
        | none => none
        | some t => if t == "_" then none else BS.Drv.C01.parseOp hh (t.replace "$" (BS.Drv.C01.label hh s))
      -- the class of a node is a fixed attribute: library-allocated strings are plain NavigableStrings (or Comments)
      let Lof : Heap → Labels := fun hh => heapLabels n clsL intsL hh
      let keep : Heap → Nat → Bool := fun hh e => heapKeeps main (Lof hh) (parseTypes types) x hh e
      match genStart h x with
      | .error _ => "crash"
      | .ok none => "- | " ++ BS.Drv.C01.labels h (h.kids x)
      | .ok (some st) =>
        match stringsIterEdit keep edit 100000 h st 0 with
        | .error e => "err:" ++ BS.Drv.C01.errName e
        | .ok (l, h') =>
          let tags := (List.range h'.next).filter (fun i => (h'.kind i).isTag)
          BS.Drv.C01.labels h' l ++ " | " ++ ",".intercalate (tags.map fun t => s!"{BS.Drv.C01.label h' t}:{BS.Drv.C01.labels h' (h'.kids t)}")

open BS.Builder in
def handleParseLoop (cont pres atts : String) : String :=
  let cfg := parseCfg (parseContainers cont) ((splitNE ";" pres).map cps)
  let parsed := (atts.splitOn "|").mapM fun a =>
    let rej := a.startsWith "R:"
    ((splitNE ";" (a.drop 2).toString).mapM parseEvent).map fun es => (⟨es, rej⟩ : Attempt)
  match parsed with
  | none => "bad-event"
  | some as =>
    match parseLoop cfg (St.init cfg) as with
    | none => "rejected"
    | some ds =>
      let cs := ds.flatMap docClasses
      if cs.isEmpty then "-" else ".".intercalate (cs.map toString)

def handle : List String → String
  | ["parseloop", cont, pres, atts] => handleParseLoop cont pres atts
  | ["iter", kinds, ops, cls, ints, recv, types, edits] => handleIter kinds ops cls ints recv types edits
  | ["parsecls", cont, pres, evs] => handleParseCls cont pres evs
  | ["scarg", dflt, arg] =>
    match builderStringContainers (parseContainers dflt) (parseSCArg arg) with
    | none => "none"
    | some l => "some " ++ showContainers l
  | ["taginit", b, nm, param] => showInit (tagInitInteresting main (parseBuilder b) (cps nm) (parseInteresting param))
  | ["taginit", b, nm, param, cm] =>   -- a tag class whose MAIN_CONTENT_STRING_TYPES is `cm`
    showInit (tagInitInteresting (parseClsList (cm.drop 1).toString) (parseBuilder b) (cps nm) (parseInteresting param))
  | ["pickledsc", pk, dflt, sc, truthy, htmlDflt] =>
    (match pickledStringContainersObj (pk == "1") (parseContainers dflt) (parseContainers htmlDflt)
        ⟨(if sc == "N" then none else some (parseContainers (sc.drop 2).toString)), truthy == "1"⟩ with
     | none => "none"
     | some l => "some " ++ showContainers l)
  | ["pickledsc", pk, dflt, sc] =>
    (match pickledStringContainers (pk == "1") (parseContainers dflt) (if sc == "N" then none else some (parseContainers (sc.drop 2).toString)) with
     | none => "none"
     | some l => "some " ++ showContainers l)
  | ["newtag", b, nm] =>
    (match parseBuilder b with
     | some sc => showInit (newTagInteresting main sc (cps nm))
     | none => "bad-op")
  | ["copyself", nm, param] => showInit (copySelfInteresting main (cps nm) (parseInteresting param))
  | ["cstack", cont, names] =>
    let c := parseContainers cont
    let top := containerStackTop c ((splitNE ";" names).map cps)
    s!"{match top with | none => "N" | some n => showL n} {codeOf (stringContainer [] c top none)}"
  | "heap" :: mode :: kinds :: ops :: cls :: ints :: nq :: qs => handleHeap mode kinds ops cls ints nq qs
  | "run" :: nq :: rest => runQueries false nq rest
  | "spec" :: nq :: rest => runQueries true nq rest
  | ["sc", ec, cont, top, base] =>
    let r := stringContainer (parseElementClasses ec) (parseContainers cont)
      (if top == "N" then none else some (cps top)) (if base == "N" then none else some (parseCls base))
    toString (codeOf r)
  | ["interesting", cont, nm] => showInteresting (interestingFor main (parseContainers cont) (cps nm))
  | ["strip", s] => showP (strip (cps s))
  | _ => "bad-op"

end BS.Drv.C13
