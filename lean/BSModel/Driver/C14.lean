import BSModel.Driver.Util
import BSModel.Model.Pretty
/-! line protocol of C14 (pretty-printing)

    c14 dec  <unit> <sets> <nq> <query>*nq <tree>    code-mirror `decodeImpl` on `receiverStream`; answers joined by " | "
    c14 spec <unit> <sets> <nq> <query>*nq <tree>    the same queries through the recursive `decodeSpec`
    c14 ev   <unit> <sets> <nq> <query>*nq <tree>    the event stream of the receiver (kinds and identities)
    c14 indent <arg>                                  `Formatter.__init__`'s normalisation of `indent`
    c14 strip <cps>
    c14 spp <set|N> <name>                            `_should_pretty_print()`

    unit   := cps | -
    sets   := - | set;set;…        set := e | name/name/…      name := cps
    tree   := S <ready> | T <id> <open> <close> <setidx|N> <name> <canBeEmpty> <nkids> tree*nkids
    query  := <path>/<lvl|N|T>/<hidden>/<contentsOnly>     path = r | i.j.k (child indices from the root)
    arg    := N | i<int> | s<cps or -> | o -/
namespace BS.Drv.C14
open BS.Pretty BS.Drv

def showP (s : PStr) : String := if s.isEmpty then "e" else showCps s

def parseSet (s : String) : List PStr :=
  if s == "e" then [] else (s.splitOn "/").map cps

def parseSets (s : String) : List (List PStr) := (splitNE ";" s).map parseSet

mutual
def parseNode (sets : List (List PStr)) : Nat → List String → Option (Node × List String)
  | 0, _ => none
  | _ + 1, "S" :: v :: rest => some (.str (cps v), rest)
  | f + 1, "T" :: i :: o :: c :: si :: nm :: cbe :: n :: rest =>
    match parseKids sets f n.toNat! rest with
    | some (ks, rest') =>
      let pwt : Option (List PStr) := if si == "N" then none else some (sets.getD si.toNat! [])
      some (mkTag i.toNat! (cps o) (cps c) pwt (cps nm) (cbe == "1") ks, rest')
    | none => none
  | _ + 1, _ => none
def parseKids (sets : List (List PStr)) : Nat → Nat → List String → Option (List Node × List String)
  | 0, _, _ => none
  | _ + 1, 0, rest => some ([], rest)
  | f + 1, n + 1, rest =>
    match parseNode sets f rest with
    | some (k, rest') =>
      match parseKids sets f n rest' with
      | some (ks, rest'') => some (k :: ks, rest'')
      | none => none
    | none => none
end

def nodeAt : Node → List Nat → Option Node
  | n, [] => some n
  | .elem _ _ _ _ ks, i :: p => match ks[i]? with
    | some k => nodeAt k p
    | none => none
  | _, _ :: _ => none

def parseLvl (s : String) : Option Int :=
  if s == "N" then levelOf .none else if s == "T" then levelOf .true else (s.toInt?.map (fun n => levelOf (.int n))).join

def showEv : Ev → String
  | .start i _ pre => s!"S{i}{if pre then "!" else ""}"
  | .stop i _ => s!"E{i}"
  | .empty _ => "V"
  | .text _ => "T"

def answer (mode : String) (unit : PStr) (root : Node) (q : String) : String :=
  match q.splitOn "/" with
  | [path, lvl, hid, co] =>
    match nodeAt root (if path == "r" then [] else natList "." path) with
    | none => "bad-path"
    | some n =>
      let hidden := hid == "1"
      let contentsOnly := co == "1"
      if mode == "dec" then showP (decodeImpl unit (parseLvl lvl) (receiverStream hidden contentsOnly n))
      else if mode == "spec" then showP (decodeSpec unit (parseLvl lvl) hidden contentsOnly n)
      else
        let evs := receiverStream hidden contentsOnly n
        if evs.isEmpty then "-" else ",".intercalate (evs.map showEv)
  | _ => "bad-query"

def runQueries (mode : String) (unit sets nq : String) (rest : List String) : String :=
  let k := nq.toNat!
  let qs := rest.take k
  let treeToks := rest.drop k
  match parseNode (parseSets sets) (treeToks.length + 1) treeToks with
  | some (root, []) => " | ".intercalate (qs.map (answer mode (cps unit) root))
  | _ => "bad-tree"

def parseIndentArg (s : String) : Option IndentArg :=
  if s == "N" then some .none
  else if s == "o" then some .other
  else if s.startsWith "i" then (s.drop 1).toString.toInt?.map .int
  else if s.startsWith "s" then some (.str (cps (s.drop 1).toString))
  else none

def handle : List String → String
  | "dec" :: unit :: sets :: nq :: rest => runQueries "dec" unit sets nq rest
  | "spec" :: unit :: sets :: nq :: rest => runQueries "spec" unit sets nq rest
  | "ev" :: unit :: sets :: nq :: rest => runQueries "ev" unit sets nq rest
  | ["indent", a] =>
    match parseIndentArg a with
    | some a => showP (indentOf a)
    | none => "bad-arg"
  | ["strip", s] => showP (strip (cps s))
  | ["spp", set, nm] =>
    bit (shouldPrettyPrint (if set == "N" then none else some (parseSet set)) (cps nm))
  | _ => "bad-op"

end BS.Drv.C14
