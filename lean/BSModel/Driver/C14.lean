import BSModel.Driver.Util
import BSModel.Model.Pretty
import BSModel.Model.PrettyReparse
import BSModel.Driver.TK
/-! line protocol of C14 (pretty-printing)

    c14 dec  <unit> <sets> <nq> <query>*nq <tree>    code-mirror `decodeImpl` on `receiverStream`; answers joined by " | "
    c14 spec <unit> <sets> <nq> <query>*nq <tree>    the same queries through the recursive `decodeSpec`
    c14 ev   <unit> <sets> <nq> <query>*nq <tree>    the event stream of the receiver (kinds and identities)
    c14 indent <arg>                                  `Formatter.__init__`'s normalisation of `indent`
    c14 strip <cps>
    c14 spp <set|N> <name>                            `_should_pretty_print()`
    c14 reparse <void> <dup> <lines> <pre> <cont> <table> <text>
                                                      parse of a text through the tokenizer MODEL (`Tokenizer.run`, `feed; close`) +
                                                      `adapterBuild`: `<flag>|<tree as c04 adapt prints it>|<eraseWsL of the tree>`;
                                                      configuration tokens as for `c04 adapt`, table as for `tk tokens`

    unit   := cps | -
    sets   := - | set;set;…        set := e | name/name/…      name := cps
    tree   := S <ready> | T <id> <open> <close> <setidx|N> <name> <canBeEmpty> <nkids> tree*nkids
    query  := <path>/<lvl|N|T>/<hidden>/<contentsOnly>     path = r | i.j.k (child indices from the root)
    arg    := N | i<int> | s<cps or -> | o -/
namespace BS.Drv.C14
open BS.Pretty BS.Drv

def showP (s : PStr) : String := if s.isEmpty then "e" else showCps s

def parseSet (s : String) : List PStr :=
  if s == "e" then [] else (s.splitOn "/").map cps

def parseSets (s : String) : List (List PStr) := (splitNE ";" s).map parseSet

mutual
def parseNode (sets : List (List PStr)) : Nat → List String → Option (Node × List String)
  | 0, _ => none
  | _ + 1, "S" :: v :: rest => some (.str (cps v), rest)
  | f + 1, "T" :: i :: o :: c :: si :: nm :: cbe :: n :: rest =>
    match parseKids sets f n.toNat! rest with
    | some (ks, rest') =>
      let pwt : Option (List PStr) := if si == "N" then none else some (sets.getD si.toNat! [])
      some (mkTag i.toNat! (cps o) (cps c) pwt (cps nm) (cbe == "1") ks, rest')
    | none => none
  | _ + 1, _ => none
def parseKids (sets : List (List PStr)) : Nat → Nat → List String → Option (List Node × List String)
  | 0, _, _ => none
  | _ + 1, 0, rest => some ([], rest)
  | f + 1, n + 1, rest =>
    match parseNode sets f rest with
    | some (k, rest') =>
      match parseKids sets f n rest' with
      | some (ks, rest'') => some (k :: ks, rest'')
      | none => none
    | none => none
end

def nodeAt : Node → List Nat → Option Node
  | n, [] => some n
  | .elem _ _ _ _ ks, i :: p => match ks[i]? with
    | some k => nodeAt k p
    | none => none
  | _, _ :: _ => none

def parseLvl (s : String) : Option Int :=
  if s == "N" then levelOf .none else if s == "T" then levelOf .true else if s == "F" then levelOf .false
  else (s.toInt?.map (fun n => levelOf (.int n))).join

def showEv : Ev → String
  | .start i _ pre => s!"S{i}{if pre then "!" else ""}"
  | .stop i _ => s!"E{i}"
  | .empty _ => "V"
  | .text _ => "T"

def answer (mode : String) (unit : PStr) (root : Node) (q : String) : String :=
  match q.splitOn "/" with
  | [path, lvl, hid, co] =>
    match nodeAt root (if path == "r" then [] else natList "." path) with
    | none => "bad-path"
    | some n =>
      let hidden := hid == "1"
      let contentsOnly := co == "1"
      if mode == "dec" then showP (decodeImpl unit (parseLvl lvl) (receiverStream hidden contentsOnly n))
      else if mode == "spec" then showP (decodeSpec unit (parseLvl lvl) hidden contentsOnly n)
      else
        let evs := receiverStream hidden contentsOnly n
        if evs.isEmpty then "-" else ",".intercalate (evs.map showEv)
  | _ => "bad-query"

def runQueries (mode : String) (unit sets nq : String) (rest : List String) : String :=
  let k := nq.toNat!
  let qs := rest.take k
  let treeToks := rest.drop k
  match parseNode (parseSets sets) (treeToks.length + 1) treeToks with
  | some (root, []) => " | ".intercalate (qs.map (answer mode (cps unit) root))
  | _ => "bad-tree"

/-! ### the raw layer: pieces computed by the model, receivers, encodings, bytes flavour

    c14 raw <impl|spec> <unit> <vcp> <sets> <nq> <query>*nq <rtree>
    rtree := S <pre> <suf> <body> | T <id> <soup N|0|1> <hidden> <nsprefix> <name> <attrs> <setidx|N> <cbe> <nkids> rtree*nkids
    attrs := <default>[;<enc>=<attrstring>]*       enc = N | cps
    query := <path>/<call>/<lvl N|T|F|int>/<enc D|N|cps>     call = d | c | e | ec | p | tp | tq (canonical plain / pretty tokens)
    reply per query: cps | e   or   b:<enc>:<cps|e>  for a bytes result -/

def parseAttrs (s : String) : PStr × List (Option PStr × PStr) :=
  match s.splitOn ";" with
  | [] => ([], [])
  | d :: rest =>
    (cps d, rest.filterMap fun item =>
      match item.splitOn "=" with
      | [k, v] => some (if k == "N" then none else some (cps k), cps v)
      | _ => none)

mutual
def parseR (sets : List (List PStr)) : Nat → List String → Option (RNode × List String)
  | 0, _ => none
  | _ + 1, "S" :: p :: sf :: b :: rest => some (.str (cps p) (cps sf) (cps b), rest)
  | f + 1, "T" :: i :: sx :: hid :: pf :: nm :: atr :: si :: cbe :: n :: rest =>
    match parseRKids sets f n.toNat! rest with
    | some (ks, rest') =>
      let pwt : Option (List PStr) := if si == "N" then none else some (sets.getD si.toNat! [])
      let a := parseAttrs atr
      let info : TagInfo := { id := i.toNat!, soupXml := if sx == "N" then none else some (sx == "1"), hidden := hid == "1",
                              nsPrefix := cps pf, name := cps nm, attrDefault := a.1, attrBy := a.2, preserveWs := pwt,
                              canBeEmpty := cbe == "1" }
      some (.tag info ks, rest')
    | none => none
  | _ + 1, _ => none
def parseRKids (sets : List (List PStr)) : Nat → Nat → List String → Option (List RNode × List String)
  | 0, _, _ => none
  | _ + 1, 0, rest => some ([], rest)
  | f + 1, n + 1, rest =>
    match parseR sets f rest with
    | some (k, rest') =>
      match parseRKids sets f n rest' with
      | some (ks, rest'') => some (k :: ks, rest'')
      | none => none
    | none => none
end

def rnodeAt : RNode → List Nat → Option RNode
  | n, [] => some n
  | .tag _ ks, i :: p => match ks[i]? with
    | some k => rnodeAt k p
    | none => none
  | _, _ :: _ => none

def parseLevelArg (s : String) : LevelArg :=
  if s == "N" then .none else if s == "T" then .true else if s == "F" then .false else .int (s.toInt?.getD 0)

def parseEnc (s : String) (dflt : Option PStr) : Option PStr :=
  if s == "D" then dflt else if s == "N" then none else some (cps s)

def showOut : Out → String
  | .str s => showP s
  | .bytes e t => s!"b:{showCps e}:{showP t}"

def showToks (ts : List Tok) : String :=
  if ts.isEmpty then "-" else ";".intercalate (ts.map fun t => match t with
    | .markup p => "M" ++ showP p
    | .data d => "D" ++ showP d)

def rawAnswer (spec : Bool) (unit vcp : PStr) (root : RNode) (q : String) : String :=
  match q.splitOn "/" with
  | [path, call, lvl, enc] =>
    match rnodeAt root (if path == "r" then [] else natList "." path) with
    | none => "bad-path"
    | some r =>
      let l := parseLevelArg lvl
      let isSoup := r.soupXml.isSome
      let dec := fun (l : LevelArg) (e : Option PStr) (co : Bool) =>
        if spec then recvSpec unit vcp l e co r else recvDecode unit vcp l e co r
      if call == "d" then
        showP (dec l (parseEnc enc (if isSoup then BS.Gen.Pretty.soupDecodeDefaultEnc else BS.Gen.Pretty.tagDecodeDefaultEnc)) false)
      else if call == "c" then showP (dec l (parseEnc enc BS.Gen.Pretty.tagDecodeContentsDefaultEnc) true)
      else if call == "e" then
        match parseEnc enc BS.Gen.Pretty.tagEncodeDefaultEnc with
        | some e => showOut (if spec then .bytes e (dec l (some e) false) else encodeImpl unit vcp e l r)
        | none => "type-error"
      else if call == "ec" then
        match parseEnc enc BS.Gen.Pretty.tagEncodeContentsDefaultEnc with
        | some e => showOut (if spec then .bytes e (dec l (some e) true) else encodeContentsImpl unit vcp l e r)
        | none => "type-error"
      else if call == "p" then
        let e := parseEnc enc BS.Gen.Pretty.tagPrettifyDefaultEnc
        if spec then
          match e with
          | none => showOut (.str (dec (.int 0) (if isSoup then BS.Gen.Pretty.soupDecodeDefaultEnc else BS.Gen.Pretty.tagDecodeDefaultEnc) false))
          | some e => showOut (.bytes e (dec (.int 0) (some e) false))
        else showOut (prettifyRaw unit vcp e r)
      else if call == "rc1" || call == "rc0" then
        match parseEnc enc BS.Gen.Pretty.tagEncodeContentsDefaultEnc with
        | some e =>
          showOut (if spec then .bytes e (dec (if call == "rc1" then l else .none) (some e) true)
                   else renderContentsImpl unit vcp e (call == "rc1") l r)
        | none => "type-error"
      else if call == "tp" then showToks (canon (plainToks ⟨parseEnc enc BS.Gen.Pretty.tagDecodeDefaultEnc, vcp⟩ r))
      else if call == "tq" then
        showToks (canon (prettyToks ⟨parseEnc enc BS.Gen.Pretty.tagDecodeDefaultEnc, vcp⟩ unit ((levelOf l).getD 0) false r))
      else "bad-call"
  | _ => "bad-query"

def runRaw (spec : Bool) (unit vcp sets nq : String) (rest : List String) : String :=
  let k := nq.toNat!
  let qs := rest.take k
  let treeToks := rest.drop k
  match parseR (parseSets sets) (treeToks.length + 1) treeToks with
  | some (root, []) => " | ".intercalate (qs.map (rawAnswer spec (cps unit) (cps vcp) root))
  | _ => "bad-tree"

/-! ### `_event_stream` on the iterator's elements with their parent pointers

    c14 evs <sets> <item>*      item := T <parent> <id> <canBeEmpty> <ncontents> <setidx|N> <name> | S <parent> -/
def parseItems (sets : List (List PStr)) : Nat → List String → Option (List FItem)
  | 0, _ => none
  | _, [] => some []
  | f + 1, "S" :: p :: rest => (parseItems sets f rest).map (FItem.str p.toNat! [] :: ·)
  | f + 1, "T" :: p :: i :: cbe :: n :: si :: nm :: rest =>
    let pwt : Option (List PStr) := if si == "N" then none else some (sets.getD si.toNat! [])
    -- `is_empty_element`: `len(self.contents) == 0 and self.can_be_empty_element is True`
    let isEmpty := n.toNat! == 0 && cbe == "1"
    (parseItems sets f rest).map (FItem.tag p.toNat! i.toNat! isEmpty [] [] (!shouldPrettyPrint pwt (cps nm)) :: ·)
  | _ + 1, _ => none

def parseIndentArg (s : String) : Option IndentArg :=
  if s == "N" then some .none
  else if s == "o" then some .other
  else if s.startsWith "i" then (s.drop 1).toString.toInt?.map .int
  else if s.startsWith "s" then some (.str (cps (s.drop 1).toString))
  else none

/-- a tree without start infos: `<name>[…]`, text `"cls:cps"` -/
partial def showPlain : List BS.Builder.Doc → String
  | [] => ""
  | .text c s :: ds => s!"\"{c}:{showL s}\"" ++ showPlain ds
  | .elem n _ ks :: ds => s!"<{showL n}>[{showPlain ks}]" ++ showPlain ds

/-- text → tokenizer model → bs4's handlers → construction machine; the tree and its `eraseWsL` -/
def handleReparse (void dup lines pre cont tab text : String) : String :=
  let bcfg0 := C03.mkCfg pre cont
  let bcfg := { bcfg0 with asciiSpaces := BS.Gen.asciiSpaces, rootName := BS.Gen.rootTagName }
  let t := TK.parseTab tab
  let r := BS.Tokenizer.run (TK.params t) (cps text)
  let voidS := (void.drop 5).toString
  let voids := (splitNE "." voidS).map ofS
  let cfg : BS.Adapter.ACfg :=
    { isVoid := fun n => voidS == "*" || voids.contains n,
      dup := if dup == "dup=ignore" then .ignore else if dup == "dup=acc" then .accumulate else .replace,
      storeLines := lines == "lines=1",
      entity := fun n => (TK.look t.e n).join,
      cp1252 := fun n => (BS.Gen.cp1252Table.find? (fun e => e.1 == n)).map (·.2),
      origDecode := fun _ => none,
      maxDigits := BS.Gen.intMaxStrDigitsC04 }
  let b := BS.Adapter.adapterBuild bcfg cfg (BS.Tokenizer.callbacks r)
  s!"{TK.showFlag r.flag}|{(C04.showDocs b.1 b.2).1}|{showPlain (BS.PrettyReparse.eraseWsL bcfg b.1)}"

def handle : List String → String
  | ["reparse", void, dup, lines, pre, cont, tab, text] => handleReparse void dup lines pre cont tab text
  | "dec" :: unit :: sets :: nq :: rest => runQueries "dec" unit sets nq rest
  | "spec" :: unit :: sets :: nq :: rest => runQueries "spec" unit sets nq rest
  | "ev" :: unit :: sets :: nq :: rest => runQueries "ev" unit sets nq rest
  | "raw" :: "impl" :: unit :: vcp :: sets :: nq :: rest => runRaw false unit vcp sets nq rest
  | "raw" :: "spec" :: unit :: vcp :: sets :: nq :: rest => runRaw true unit vcp sets nq rest
  | "evs" :: sets :: rest =>
    match parseItems (parseSets sets) (rest.length + 1) rest with
    | some items =>
      let evs := streamImpl [] items
      if evs.isEmpty then "-" else ",".intercalate (evs.map showEv)
    | none => "bad-items"
  | ["xmldecl", x, enc] => showP (xmlDecl (x == "1") (parseEnc enc BS.Gen.Pretty.soupDecodeDefaultEnc))
  | ["affix", nm] =>
    match BS.Gen.Pretty.stringAffixes.find? (fun e => e.1 == cps nm) with
    | some e => s!"{showP e.2.1} {showP e.2.2.1} {bit e.2.2.2}"
    | none => "unknown"
  | ["indent", a] =>
    match parseIndentArg a with
    | some a => showP (indentOf a)
    | none => "bad-arg"
  | ["strip", s] => showP (strip (cps s))
  | ["sppat", lvl, set, nm] =>
    bit (shouldPrettyPrintAt (parseLvl lvl) (if set == "N" then none else some (parseSet set)) (cps nm))
  | ["spp", set, nm] =>
    bit (shouldPrettyPrint (if set == "N" then none else some (parseSet set)) (cps nm))
  | _ => "bad-op"

end BS.Drv.C14
