import BSModel.Driver.Util
import BSModel.Model.Formatter
import BSModel.Model.FormatterBuild
import BSModel.Model.FormatterPopulate
import BSModel.Model.FormatterHidden
import BSModel.Gen.FormatterHtml5
import BSModel.Gen.Formatter
/-! line protocol of C15 (formatters)

    c15 ctor <fmt>                                   the constructed object's attributes
    c15 ffn <isXml> <fmt>                            formatter_for_name: attributes or KeyError
    c15 run <isXml> <fmt> <mode> <parent> <ng> <graph>*ng <tree>
                                                     resolve the formatter, then render
    c15 runat <chain> <rootAttr> <fmt> <mode> <parent> <ng> <graph>*ng <tree>   like run; the flavour comes from isXmlOf
    c15 populate | c2e | e2c                         the mirror of _populate_class_variables on the generated stdlib tables:
                                                     alternatives key/notNext/repl, CHARACTER_TO_HTML_ENTITY, HTML_ENTITY_TO_CHARACTER
    c15 substpop <cps>                               substitute_html over the mirror's alternatives
    c15 subst x|h <cps>                              substitute_xml / substitute_html (re.sub over the generated table)
    c15 substrev <cps>                               substitute_html with the alternatives listed in reverse

    fmt    := k/<class>/<lang>/<es>/<vecp>/<cdata>/<eab>/<indent>   an object built by class F|H|X (repaired) or HO|XO (as shipped)
            | o/<lang>/<es>/<vecp>/<cdata>/<eab>/<indentcps>        an object given by its attributes
            | n/<cps>|n/N                                            a registry key
            | f/<es>                                                 a function
    lang   := N | h | x | o          es := n | x | h | 5 | c<k>
    vecp   := N | <cps> | -         cdata := N | E | <cps>;<cps>…    eab := 0|1
    indent := N | o | i<int> | s<cps> | s-
    mode   := D decode | C decode_contents | P<level> | Q<level> (pretty of node / of contents) | L call log
    parent := N | <cps>             (name of the receiver's parent, for a string receiver)
    graph  := <es>~<from>~<to>      what function <es> returns for <from> (identity if not listed; x and h are computed)
    tree   := S <kind> <cps> | T <name> <pfx> <cbe> <pre> <nattrs> (<key> <val>)*nattrs <nkids> tree*nkids
    val    := N | s<cps> | s- | l<cps>;<cps>… | l- | o<cps> | o-   (o = a non-str object, given by its str()) -/
namespace BS.Drv.C15
open BS.Formatter BS.Drv

def showP (s : PStr) : String := if s.isEmpty then "-" else showCps s
def pcps (s : String) : PStr := if s == "-" then [] else BS.parseCps s

def parseLang (s : String) : Option Lang :=
  if s == "h" then some .html else if s == "x" then some .xml else if s == "o" then some (.other 0) else none

def parseSubst (s : String) : Subst :=
  if s == "x" then .xml else if s == "h" then .html else if s == "5" then .html5
  else if s.startsWith "c" then .custom (s.drop 1).toString.toNat! else .none

def showSubst : Subst → String
  | .none => "n" | .xml => "x" | .html => "h" | .html5 => "5" | .custom k => s!"c{k}"

def parseNames (s : String) : List PStr := if s == "E" then [] else (s.splitOn ";").map pcps

def parseIndent (s : String) : IndentArg :=
  if s == "N" then .none else if s == "o" then .other
  else if s.startsWith "i" then
    let r := (s.drop 1).toString
    if r.startsWith "-" then .int (-(Int.ofNat (r.drop 1).toString.toNat!)) else .int (Int.ofNat r.toNat!)
  else .str (pcps (s.drop 1).toString)

def parseArgs (es vecp cdata eab indent : String) : Args :=
  { entity_substitution := parseSubst es
    void_element_close_prefix := if vecp == "N" then none else some (pcps vecp)
    cdata_containing_tags := if cdata == "N" then none else some (parseNames cdata)
    empty_attributes_are_booleans := eab == "1"
    indent := parseIndent indent }

def showLang : Lang → String
  | .html => "h" | .xml => "x" | .other _ => "o"

def showCfg (c : Cfg) : String :=
  "|".intercalate [showLang c.language, showSubst c.entity_substitution,
    (match c.void_element_close_prefix with | none => "N" | some p => showP p),
    (if c.cdata_containing_tags.isEmpty then "E" else ";".intercalate (c.cdata_containing_tags.map showP)),
    bit c.empty_attributes_are_booleans, showP c.indent]

def parseFmt (s : String) : Option FmtArg :=
  match s.splitOn "/" with
  | ["k", cls, lang, es, vecp, cdata, eab, indent] =>
    let a := parseArgs es vecp cdata eab indent
    -- `F@<names>` etc.: a user subclass whose HTML_DEFAULTS['cdata_containing_tags'] is <names> (E = empty)
    if cls.contains '@' then
      match cls.splitOn "@" with
      | [base, hd] =>
        let l := if base == "F" then parseLang lang else if base == "H" then some .html else some .xml
        some (.obj (mkFormatterCls (parseNames hd) l a))
      | _ => none
    else if cls == "F" then some (.obj (mkFormatter (parseLang lang) a))
    else if cls == "H" then some (.obj (mkHTMLFormatter a))
    else if cls == "X" then some (.obj (mkXMLFormatter a))
    else if cls == "HO" then some (.obj (mkHTMLFormatterOld a))
    else if cls == "XO" then some (.obj (mkXMLFormatterOld a))
    else none
  | ["o", lang, es, vecp, cdata, eab, indent] =>
    some (.obj { language := (parseLang lang).getD .html, entity_substitution := parseSubst es,
                 void_element_close_prefix := if vecp == "N" then none else some (pcps vecp),
                 cdata_containing_tags := parseNames cdata, empty_attributes_are_booleans := eab == "1",
                 indent := pcps indent })
  | ["n", nm] => some (.name (if nm == "N" then none else some (pcps nm)))
  | ["f", es] => some (.fn (parseSubst es))
  | _ => none

def parseKind (s : String) : StrKind :=
  match s.toNat! with
  | 0 => .text | 1 => .preformatted | 2 => .cdata | 3 => .pi | 4 => .xmlpi | 5 => .comment | 6 => .declaration | _ => .doctype

def parseVal (s : String) : AttrVal :=
  if s == "N" then .none
  else if s.startsWith "s" then .str (pcps (s.drop 1).toString)
  else if s.startsWith "o" then .other (pcps (s.drop 1).toString)
  else
    let r := (s.drop 1).toString
    .list (if r == "-" then [] else (r.splitOn ";").map pcps)

def parseAttrs : Nat → List String → Option (List (PStr × AttrVal) × List String)
  | 0, rest => some ([], rest)
  | n + 1, k :: v :: rest =>
    match parseAttrs n rest with
    | some (as, rest') => some ((pcps k, parseVal v) :: as, rest')
    | none => none
  | _ + 1, _ => none

mutual
def parseNode : Nat → List String → Option (Node × List String)
  | 0, _ => none
  | _ + 1, "S" :: k :: v :: rest => some (.str (parseKind k) (pcps v), rest)
  | f + 1, "T" :: nm :: pfx :: cbe :: pre :: na :: rest =>
    match parseAttrs na.toNat! rest with
    | some (as, nk :: rest') =>
      match parseKids f nk.toNat! rest' with
      | some (ks, rest'') => some (.tag (pcps nm) (pcps pfx) as (cbe == "1") (pre == "1") ks, rest'')
      | none => none
    | _ => none
  | _ + 1, _ => none
def parseKids : Nat → Nat → List String → Option (List Node × List String)
  | 0, _, _ => none
  | _ + 1, 0, rest => some ([], rest)
  | f + 1, n + 1, rest =>
    match parseNode f rest with
    | some (k, rest') =>
      match parseKids f n rest' with
      | some (ks, rest'') => some (k :: ks, rest'')
      | none => none
    | none => none
end

/-- interpretation of the function identities: `substitute_xml` and `substitute_html` are computed by the model, every
    other function (html5, user functions) is the finite graph the harness observed -/
def interpOf (graph : List (Subst × PStr × PStr)) : Subst → PStr → PStr
  | .xml => substXml
  | .html => reSub BS.Gen.htmlAlts
  | s => fun x => match graph.find? (fun e => e.1 == s && e.2.1 == x) with
    | some e => e.2.2
    | none => x

def parseGraph (l : List String) : List (Subst × PStr × PStr) :=
  l.filterMap fun t => match t.splitOn "~" with
    | [es, a, b] => some (parseSubst es, pcps a, pcps b)
    | _ => none

def parseMode (mode : String) : Option Mode :=
  if mode == "D" then some .decode
  else if mode == "C" then some .contents
  else if mode.startsWith "P" then some (.pretty (mode.drop 1).toString.toNat!)
  else if mode.startsWith "Q" then some (.prettyContents (mode.drop 1).toString.toNat!)
  else none

def showOut : Out → String
  | .ok s => showP s
  | .keyError => "KeyError"
  | .badReceiver => "bad-receiver"

/-! raw trees and builder configurations (op `build`)

    c15 build <eet> <pwt> <cla> <ondup> <rawtree>     the built tree, in the `tree` syntax above
    eet   := N | E | <cps>;<cps>…        pwt := E | <cps>;…      ondup := r | i
    cla   := E | <key>=<cps>;<cps>…|<key>=…   (a value may be E for the empty set)
    rawtree := S <kind> <cps> | T <name> <nattrs> (<key> <N|v<cps>|v->)*nattrs <nkids> rawtree*nkids -/

def parseCla (s : String) : List (PStr × List PStr) :=
  if s == "E" then [] else (s.splitOn "|").filterMap fun e => match e.splitOn "=" with
    | [k, v] => some (pcps k, parseNames v)
    | _ => none

def parseRawAttrs : Nat → List String → Option (List (PStr × Option PStr) × List String)
  | 0, rest => some ([], rest)
  | n + 1, k :: v :: rest =>
    match parseRawAttrs n rest with
    | some (as, rest') => some ((pcps k, if v == "N" then none else some (pcps (v.drop 1).toString)) :: as, rest')
    | none => none
  | _ + 1, _ => none

mutual
def parseRaw : Nat → List String → Option (RawNode × List String)
  | 0, _ => none
  | _ + 1, "S" :: k :: v :: rest => some (.str (parseKind k) (pcps v), rest)
  | f + 1, "T" :: nm :: na :: rest =>
    match parseRawAttrs na.toNat! rest with
    | some (as, nk :: rest') =>
      match parseRawKids f nk.toNat! rest' with
      | some (ks, rest'') => some (.tag (pcps nm) as ks, rest'')
      | none => none
    | _ => none
  | _ + 1, _ => none
def parseRawKids : Nat → Nat → List String → Option (List RawNode × List String)
  | 0, _, _ => none
  | _ + 1, 0, rest => some ([], rest)
  | f + 1, n + 1, rest =>
    match parseRaw f rest with
    | some (k, rest') =>
      match parseRawKids f n rest' with
      | some (ks, rest'') => some (k :: ks, rest'')
      | none => none
    | none => none
end

def showVal : AttrVal → String
  | .none => "N"
  | .str s => "s" ++ showP s
  | .list l => "l" ++ (if l.isEmpty then "-" else ";".intercalate (l.map showP))
  | .other s => "o" ++ showP s

mutual
def showNode : Node → List String
  | .str k v => ["S", toString k.code, showP v]
  | .tag n p as cbe pre ks =>
    ["T", showP n, showP p, bit cbe, bit pre, toString as.length] ++ as.flatMap (fun kv => [showP kv.1, showVal kv.2])
      ++ [toString ks.length] ++ showNodes ks
def showNodes : List Node → List String
  | [] => []
  | k :: ks => showNode k ++ showNodes ks
end

/-! trees with hidden tags (op `runh`): the `tree` syntax with `TH` in the place of `T` for a hidden tag -/
mutual
def parseHNode : Nat → List String → Option (HNode × List String)
  | 0, _ => none
  | _ + 1, "S" :: k :: v :: rest => some (.str (parseKind k) (pcps v), rest)
  | f + 1, t :: nm :: pfx :: cbe :: pre :: na :: rest =>
    if t == "T" || t == "TH" then
      match parseAttrs na.toNat! rest with
      | some (as, nk :: rest') =>
        match parseHKids f nk.toNat! rest' with
        | some (ks, rest'') => some (.tag (t == "TH") (pcps nm) (pcps pfx) as (cbe == "1") (pre == "1") ks, rest'')
        | none => none
      | _ => none
    else none
  | _ + 1, _ => none
def parseHKids : Nat → Nat → List String → Option (List HNode × List String)
  | 0, _, _ => none
  | _ + 1, 0, rest => some ([], rest)
  | f + 1, n + 1, rest =>
    match parseHNode f rest with
    | some (k, rest') =>
      match parseHKids f n rest' with
      | some (ks, rest'') => some (k :: ks, rest'')
      | none => none
    | none => none
end

def doRunH (isXml : Bool) (fmt mode parent ng : String) (rest : List String) : String :=
  match parseFmt fmt with
  | none => "bad-fmt"
  | some a =>
    let k := ng.toNat!
    let graph := parseGraph (rest.take k)
    let tt := rest.drop k
    let par := if parent == "N" then none else some (pcps parent)
    match parseHNode (tt.length + 1) tt, parseMode mode with
    | some (n, []), some m =>
      match formatterForName BS.Gen.fmtHtmlRegistry BS.Gen.fmtXmlRegistry isXml a with
      | .keyError => "KeyError"
      | .ok c => showOut (renderModeH c (interpOf graph) m par n)
    | _, _ => "bad-tree"

def doRun (isXml : Bool) (fmt mode parent ng : String) (rest : List String) : String :=
    match parseFmt fmt with
    | none => "bad-fmt"
    | some a =>
      let k := ng.toNat!
      let graph := parseGraph (rest.take k)
      let tt := rest.drop k
      let par := if parent == "N" then none else some (pcps parent)
      match parseNode (tt.length + 1) tt with
      | some (n, []) =>
        if mode == "L" then
          match formatterForName BS.Gen.fmtHtmlRegistry BS.Gen.fmtXmlRegistry isXml a with
          | .keyError => "KeyError"
          | .ok c => "[" ++ ";".intercalate ((calls c par n).map showP) ++ "]"
        else match parseMode mode with
          | some m => showOut (entry BS.Gen.fmtHtmlRegistry BS.Gen.fmtXmlRegistry isXml a (interpOf graph) m par n)
          | none => "bad-mode"
      | _ => "bad-tree"

def handle : List String → String
  | ["ctor", fmt] =>
    match parseFmt fmt with
    | some (.obj c) => showCfg c
    | _ => "bad-fmt"
  | ["ffn", isXml, fmt] =>
    match parseFmt fmt with
    | some a =>
      match formatterForName BS.Gen.fmtHtmlRegistry BS.Gen.fmtXmlRegistry (isXml == "1") a with
      | .ok c => showCfg c
      | .keyError => "KeyError"
    | none => "bad-fmt"
  | "run" :: isXml :: fmt :: mode :: parent :: ng :: rest => doRun (isXml == "1") fmt mode parent ng rest
  | "runh" :: isXml :: fmt :: mode :: parent :: ng :: rest => doRunH (isXml == "1") fmt mode parent ng rest
  | "runat" :: chain :: rootAttr :: fmt :: mode :: parent :: ng :: rest =>
    -- the flavour is computed by the model's walk over the known_xml chain (N / 0 / 1, innermost first, comma separated)
    let ch : List (Option Bool) := (chain.splitOn ",").filterMap fun t =>
      if t == "N" then some none else if t == "1" then some (some true) else if t == "0" then some (some false) else none
    doRun (isXmlOf ch (rootAttr == "1")) fmt mode parent ng rest
  | "build" :: eet :: pwt :: cla :: od :: tt =>
    let b : BuilderCfg := { emptyElementTags := if eet == "N" then none else some (parseNames eet),
                            preserveWhitespaceTags := parseNames pwt, cdataListAttributes := parseCla cla,
                            onDuplicate := if od == "i" then .ignore else .replace }
    match parseRaw (tt.length + 1) tt with
    | some (t, []) => " ".intercalate (showNode (build b t))
    | _ => "bad-tree"
  | "runhook" :: hook :: fmt :: parent :: ng :: rest =>
    -- decode(formatter=<instance of a subclass overriding attributes()>): U items as they come, R sorted in reverse,
    -- D the base class's answer without the keys that start with "data-"
    match parseFmt fmt with
    | some (.obj c) =>
      let k := ng.toNat!
      let graph := parseGraph (rest.take k)
      let tt := rest.drop k
      let par := if parent == "N" then none else some (pcps parent)
      let h : AttrHook :=
        if hook == "U" then id
        else if hook == "R" then fun as => (sortAttrs as).reverse
        else fun as => (attributes c as).filter fun kv => !([100, 97, 116, 97, 45].isPrefixOf kv.1)
      match parseNode (tt.length + 1) tt with
      | some (n, []) => showP (renderHook h c (interpOf graph) par n)
      | _ => "bad-tree"
    | _ => "bad-fmt"
  | ["populate"] =>
    -- the alternatives the mirror of `_populate_class_variables` assembles from the generated stdlib tables
    " ".intercalate ((populateAlts BS.Gen.c15Html5Items BS.Gen.c15Codepoint2name).map fun a =>
      showP a.key ++ "/" ++ showP a.notNext ++ "/" ++ showP a.repl)
  | ["c2e"] =>
    " ".intercalate ((charToEntity BS.Gen.c15Html5Items BS.Gen.c15Codepoint2name).map fun e => showP e.1 ++ "/" ++ showP e.2)
  | ["e2c"] =>
    " ".intercalate ((popLoop BS.Gen.c15Html5Items).nameToUnicode.map fun e => showP e.1 ++ "/" ++ showP e.2)
  | ["substpop", s] => showP (reSub (populateAlts BS.Gen.c15Html5Items BS.Gen.c15Codepoint2name) (pcps s))
  | ["subst", "x", s] => showP (substXml (pcps s))
  | ["subst", "h", s] => showP (reSub BS.Gen.htmlAlts (pcps s))
  | ["substrev", s] => showP (reSub BS.Gen.htmlAlts.reverse (pcps s))
  | _ => "bad-op"

end BS.Drv.C15
