import BSModel.Driver.Util
import BSModel.Driver.C03
import BSModel.Model.ParseOnly
/-! protocol: `fbuild <pre> <cont> <tags> <strings> <events>`
  tags    = `tags=ID.ID…` : the start tags (identified by the PFX slot of their start event) the filter allows; `tags=*` all, `tags=-` none
  strings = `strs=CPS;CPS…` : the strings the filter allows (`strs=*` all, `strs=-` none; an empty string is written `e`)
  events as in C03 -/
namespace BS.Drv.C16
open BS.Builder BS.ParseOnly BS.Drv BS

def handle : List String → String
  | ["fbuild", pre, cont, tags, strs, evs] =>
    let cfg := C03.mkCfg pre cont
    let tagS := (tags.drop 5).toString
    let ids := (splitNE "." tagS).map ofS
    let strS := (strs.drop 5).toString
    let ss := (splitNE ";" strS).map (fun s => if s == "e" then [] else cps s)
    let f : Filt :=
      { allowTag := fun _ p => tagS == "*" || (match p with | some q => ids.contains q | none => false),
        allowString := fun s => strS == "*" || ss.contains s }
    match (splitNE ";" evs).mapM C03.parseEv with
    | none => "bad-op"
    | some es => String.join ((fBuild cfg f es).map C03.showDoc)
  | _ => "bad-op"

end BS.Drv.C16
