import BSModel.Driver.Util
import BSModel.Driver.C03
import BSModel.Model.ParseOnly
import BSModel.Driver.C10
import BSModel.Model.StrainerParse
/-! protocol: `fbuild <pre> <cont> <tags> <strings> <events>`
  tags    = `tags=ID.ID…` : the start tags (identified by the PFX slot of their start event) the filter allows; `tags=*` all, `tags=-` none
  strings = `strs=CPS;CPS…` : the strings the filter allows (`strs=*` all, `strs=-` none; an empty string is written `e`)
  events as in C03
  `allow <name crit> <attrs arg> <string crit> <kwargs> <re> <fs> <pfx|~> <name> <k=v&k=v|->` : `SoupStrainer(...).allow_tag_creation(pfx, name, raw attrs)` → `1`/`0`
  `allowstr <name crit> <attrs arg> <string crit> <kwargs> <re> <fs> <cps|e>` : `allow_string_creation(string)` (criteria and tables as in C10) -/
namespace BS.Drv.C16
open BS.Builder BS.ParseOnly BS.Drv BS

def handle : List String → String
  | ["fbuild", pre, cont, tags, strs, evs] =>
    let cfg := C03.mkCfg pre cont
    let tagS := (tags.drop 5).toString
    let ids := (splitNE "." tagS).map ofS
    let strS := (strs.drop 5).toString
    let ss := (splitNE ";" strS).map (fun s => if s == "e" then [] else cps s)
    let f : Filt :=
      { allowTag := fun _ p => tagS == "*" || (match p with | some q => ids.contains q | none => false),
        allowString := fun s => strS == "*" || ss.contains s }
    match (splitNE ";" evs).mapM C03.parseEv with
    | none => "bad-op"
    | some es => String.join ((fBuild cfg f es).map C03.showDoc)
  | ["allow", nm, atA, st, kw, re, fs, pfx, name, raw] =>
    let q : BS.Search.Query := { name := C10.parseCrit nm, attrs := C10.parseAttrsArg atA, string := C10.parseCrit st, kwargs := C10.parsePairs kw }
    let O := C10.parseOracle re "-" fs
    let rawL : List (PStr × PStr) := (splitNE "&" raw).filterMap fun kv =>
      match kv.splitOn "=" with
      | [k, v] => some (cps k, if v == "e" then [] else cps v)
      | _ => none
    let r := BS.StrainerParse.allowTagCreation O (BS.Search.mkStrainer q) (if pfx == "~" then none else some (if pfx == "e" then [] else cps pfx)) (cps name) rawL
    if r then "1" else "0"
  | ["allowstr", nm, atA, st, kw, re, fs, str] =>
    let q : BS.Search.Query := { name := C10.parseCrit nm, attrs := C10.parseAttrsArg atA, string := C10.parseCrit st, kwargs := C10.parsePairs kw }
    let O := C10.parseOracle re "-" fs
    if BS.StrainerParse.allowStringCreation O (BS.Search.mkStrainer q) (if str == "e" then [] else cps str) then "1" else "0"
  | _ => "bad-op"

end BS.Drv.C16
