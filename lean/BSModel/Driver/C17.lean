import BSModel.Driver.Util
import BSModel.Model.Attrs
/-! line protocol for C17 (see harness/c17.py for the encoding of values, keys, dictionaries and maps) -/
namespace BS.Drv.C17
open BS.Attrs BS.Drv

def md : Nat := BS.Gen.c17IntMaxStrDigits

def ptok (s : String) : PStr := if s == "-" then [] else cps s
def stok (s : PStr) : String := showL s

def showToks (l : List PStr) : String := "/".intercalate (l.map stok)
def parseToks (s : String) : List PStr := if s.isEmpty then [] else (s.splitOn "/").map ptok

def parseVal (s : String) : PyVal :=
  match s.splitOn ":" with
  | ["s", t] => .str (ptok t)
  | ["b", b] => .bool (b == "1")
  | ["i", i] => .int i.toInt!
  | ["f", t, z] => .float (ptok t) (z == "1")
  | ["n"] => .none
  | ["l", c, l] => .list c.toNat! (parseToks l)
  | ["t", l] => .tuple (parseToks l)
  | ["o", i, e] => .other i.toNat! (e == "1")
  | _ => .none

def showVal : PyVal → String
  | .str s => s!"s:{stok s}"
  | .bool b => s!"b:{bit b}"
  | .int i => s!"i:{i}"
  | .float t z => s!"f:{stok t}:{bit z}"
  | .none => "n"
  | .list c l => s!"l:{c}:{showToks l}"
  | .tuple l => s!"t:{showToks l}"
  | .other i e => s!"o:{i}:{bit e}"

def parseOpt (s : String) : Option PStr := if s == "~" then none else some (ptok s)

def parseKey (s : String) : Key :=
  match s.splitOn ":" with
  | ["p", t] => .plain (ptok t)
  | ["q", p, n] => mkNs (parseOpt p) (parseOpt n)
  | _ => .plain []

def parseItems (s : String) : Items :=
  (splitNE "&" s).filterMap fun it =>
    match it.splitOn "=" with
    | [k, v] => some (ptok k, parseVal v)
    | _ => none

def showItems (d : Items) : String :=
  if d.isEmpty then "-" else "&".intercalate (d.map fun p => s!"{stok p.1}={showVal p.2}")

def parseSets (s : String) : List (Key × PyVal) :=
  (splitNE "&" s).filterMap fun it =>
    match it.splitOn "=" with
    | [k, v] => some (parseKey k, parseVal v)
    | _ => none

def parseMap (s : String) : Option CdataMap :=
  if s == "default" then some BS.Gen.c17DefaultCdataListAttributes
  else if s == "none" then none
  else
    let body := (s.drop 2).toString
    some ((splitNE "&" body).filterMap fun e =>
      match e.splitOn ">" with
      | [k, set] => some (ptok k, if set.isEmpty then [] else (set.splitOn ";").map ptok)
      | _ => none)

def parseCls (s : String) : DictClass :=
  if s == "html" then .html else if s == "xml" then .xml else .plain

def showCls : DictClass → String
  | .plain => "plain"
  | .html => "html"
  | .xml => "xml"

def showRendered : Rendered → String
  | .bare => "bare"
  | .text s => s!"t:{stok s}"
  | .opaque i => s!"o:{i}"
  | .valueError => "err"

def showRender (d : Items) : String :=
  if d.isEmpty then "-" else "&".intercalate (d.map fun p => s!"{stok p.1}={showRendered (renderVal md p.2)}")

def showTag : Res TagAttrs → String
  | .valueError => "valueError"
  | .ok t => s!"ok {showCls t.cls} {t.listCls} x{bit t.isXml} {showItems t.items} R {showRender t.items}"

def parseMva (s : String) : MvaArg :=
  if s == "default" then .useDefault
  else match parseMap s with
    | none => .none
    | some m => .map m

/-- builder options as given: map token (`default` = argument left out), dict class (`absent` = left out), list class
    token `<n>` or `<n>x` (`0` = left out; `x` = an XML-flavoured builder class: `is_xml = True`, base default table) -/
def mkCfg (m dcls lcls : String) : BuilderCfg :=
  let x := lcls.endsWith "x"
  let n := (if x then (lcls.dropEnd 1).toString else lcls).toNat!
  mkBuilder (if x then BS.Gen.c17BaseCdataListAttributes else BS.Gen.c17DefaultCdataListAttributes) x (parseMva m)
    (if dcls == "absent" then none else some (parseCls dcls)) (if n == 0 then none else some n)

def showRes : Res Items → String
  | .valueError => "valueError"
  | .ok d => s!"ok {showItems d}"

/-- the setting as given: `absent`, `None`, `cb:<name>` for the callables the harness can name, else the string itself -/
def parseOnDup (s : String) : OnDupArg :=
  if s == "absent" then .absent
  else if s == "None" then .pyNone
  else if s == "cb:accumulate" then .callable accumulate
  else if s == "cb:noop" then .callable (fun d _ _ => d)
  else if s == "cb:drop" then .callable (fun d k _ => dictDel d k)
  else if s == "cb:upper" then .callable (fun d k v => dictSet d k (.str (v ++ [33])))
  else .str (ofS s)

def parseRaw (s : String) : List (PStr × Option PStr) :=
  (splitNE "&" s).filterMap fun it =>
    match it.splitOn "=" with
    | [k, v] => some (ptok k, parseOpt v)
    | _ => none

def parseAttrsArg (s : String) : Option (DictClass × Items) :=
  if s == "~" then none
  else match s.splitOn "@" with
    | [c, items] => some (parseCls c, parseItems items)
    | _ => none

def parseListOp (op arg : String) : ListOp :=
  if op == "append" then .append (ptok arg)
  else if op == "remove" then .remove (ptok arg)
  else if op == "clear" then .clear
  else if op == "sort" then .sort
  else if op == "iadd" then .iadd (parseToks (if arg == "_" then "" else arg))
  else if op == "reverse" then .reverse
  else if op == "pop" then .pop
  else .insert0 (ptok arg)

def parseStep (s : String) : Option Step :=
  match s.splitOn "!" with
  | ["P", name, raw] => some (.parse (ptok name) (parseRaw raw))
  | ["N", name, items] => some (.newTag (ptok name) (parseItems items))
  | ["C", i] => some (.copy i.toNat!)
  | ["M", i, key, op, arg] => some (.mutate i.toNat! (ptok key) (parseListOp op arg))
  | ["T", i, x] => some (.ctor i.toNat! (x == "1"))
  | ["D", i, key] => some (.del i.toNat! (ptok key))
  | ["S", i, kv] =>
    match kv.splitOn "=" with
    | [k, v] => some (.set i.toNat! (parseKey k) (parseVal v))
    | _ => none
  | _ => none

def showHist : Res Hist → String
  | .valueError => "valueError"
  | .ok st =>
    if st.isEmpty then "-"
    else " ## ".intercalate (st.map fun p => s!"{stok p.1} {showTag (.ok p.2)}")

def showAttrList : AttrList → String
  | .strs c l => s!"l:{c}:{showToks l}"
  | .single c v => s!"L:{c}:{showVal v}"

/-- `str(obj)` of an object known by number only: one private-use code point, replaced by the harness -/
def otherPlaceholder (i : Nat) : PStr := [0xE000 + i]

def showProbe (t : TagAttrs) (k : PStr) : String :=
  let gi := match tagGetItem t k with | some v => showVal v | none => "KeyError"
  s!"{stok k} h{bit (hasAttr t k)} g={showVal (tagGet t k .none)} gd={showVal (tagGet t k (.str [100]))} " ++
  s!"a={showAttrList (getAttributeList t k .none)} ad={showAttrList (getAttributeList t k (.list 0 [[100]]))} i={gi}"

def handle : List String → String
  | ["split", s] => let r := splitWs (ptok s); if r.isEmpty then "-" else showToks r
  | ["findall", s] => let r := findallNonWs (ptok s); if r.isEmpty then "-" else showToks r
  | ["join", l] => stok (joinSp (parseToks (if l == "-" then "" else l)))
  | ["lower", s] => stok (pyLower (ptok s))
  | ["multi", m, tag, attr] =>
    match parseMap m with
    | none => "0"
    | some m => bit (isMulti m pyLower (ptok tag) (ptok attr))
  | ["dict", cls, sets] => showRes (setMany md (parseCls cls) [] (parseSets sets))
  | ["dictold", sets] =>
    showRes ((parseSets sets).foldl (fun r kv => r.bind fun d => htmlSetOld md d kv.1 kv.2) (.ok []))
  | ["tag", b, m, dcls, lcls, isxml, name, attrs, sets] =>
    let cfg : Option BuilderCfg := if b == "b" then some (mkCfg m dcls lcls) else none
    showTag ((tagInit md pyLower cfg (isxml == "1") (ptok name) (parseAttrsArg attrs)).bind
      fun t => tagSetMany md t (parseSets sets))
  | ["newtag", m, dcls, lcls, name, kw, attrs, sets] =>
    let a : Option Items := if attrs == "~" then none else some (parseItems attrs)
    showTag ((newTag md pyLower (mkCfg m dcls lcls) (ptok name) (parseItems kw) a).bind
      fun t => tagSetMany md t (parseSets sets))
  | ["pkshare", m, dcls, lcls, pk, kws, name, attrs] =>
    -- one caller-owned parser_kwargs dictionary (`pk`, `-` = no entry) handed to several builders with keywords `kws`
    let o (s : String) : Option OnDupArg := if s == "-" then none else some (parseOnDup s)
    let pols := buildersSharing (o pk) ((kws.splitOn ";").map o)
    " ## ".intercalate (pols.map fun a =>
      match parseStartTagArg md pyLower (mkCfg m dcls lcls) a (ptok name) (parseRaw attrs) with
      | some r => showTag r
      | none => "raised TypeError")
  | ["fmtsel", items] =>
    match attributeStringSel md ⟨false, id, otherPlaceholder⟩ (parseItems items) with
    | .ok s => "ok " ++ stok s
    | .valueError => "valueError"
  | ["parse2", m, dcls, lcls, kw, pk, name, attrs] =>
    -- the two routes of on_duplicate_attribute: `-` = not given
    let o (s : String) : Option OnDupArg := if s == "-" then none else some (parseOnDup s)
    match parseStartTagArg md pyLower (mkCfg m dcls lcls) (effectiveOnDup (o kw) (o pk)) (ptok name) (parseRaw attrs) with
    | some r => showTag r
    | none => "raised TypeError"
  | ["parse", m, dcls, lcls, ondup, name, attrs] =>
    match parseStartTagArg md pyLower (mkCfg m dcls lcls) (parseOnDup ondup) (ptok name) (parseRaw attrs) with
    | some r => showTag r
    | none => "raised TypeError"
  | ["fmt", e, items] =>
    match attributeString md ⟨e == "1", id, otherPlaceholder⟩ (parseItems items) with
    | .ok s => "ok " ++ stok s
    | .valueError => "valueError"
  | ["acc", cls, lcls, items, probes, dels] =>
    let t : TagAttrs := ⟨parseCls cls, lcls.toNat!, parseItems items, false⟩
    let ps := (splitNE ";" probes).map ptok
    let t' := ((splitNE ";" dels).map ptok).foldl tagDel t
    " | ".intercalate (ps.map (showProbe t)) ++ " || " ++ showItems t'.items ++ " || " ++
      " | ".intercalate (ps.map (showProbe t'))
  | ["copy", cls, lcls, isxml, name, items, sets] =>
    showTag ((copyTag md pyLower (ptok name) ⟨parseCls cls, lcls.toNat!, parseItems items, isxml == "1"⟩).bind
      fun t => tagSetMany md t (parseSets sets))
  | ["hist", m, dcls, lcls, steps] =>
    showHist (runHist md pyLower (mkCfg m dcls lcls) [] ((splitNE "|" steps).filterMap parseStep))
  | _ => "bad-op"

end BS.Drv.C17
