import BSModel.Driver.Util
import BSModel.Model.SourcePos
/-! protocol: `linecol <text cps> <offsets , sep>` → `l.c,l.c,…`;  `posafter <chunk;chunk;…>` → `l.c` -/
namespace BS.Drv.C18
open BS.SourcePos BS.Drv

def handle : List String → String
  | ["linecol", text, offs] =>
    let t := cps text
    ",".intercalate ((natList "," offs).map fun o => let p := lineCol t o; s!"{p.1}.{p.2}")
  | ["posafter", chunks] =>
    let p := posAfter ((splitNE ";" chunks).map cps)
    s!"{p.1}.{p.2}"
  | _ => "bad-op"

end BS.Drv.C18
