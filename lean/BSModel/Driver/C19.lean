import BSModel.Driver.Util
import BSModel.Proofs.Detwingle
namespace BS.Drv.C19
open BS.Detwingle BS.Drv

def parseMode : String → Option Mode
  | "none" => some .none
  | "xml" => some .xml
  | "html" => some .html
  | "ascii" => some .ascii
  | _ => none

def showOpt : Option (List Nat) → String
  | none => "none"
  | some l => s!"some {showL l}"

def parsePiece (s : String) : Option Piece :=
  if s.startsWith "c" then (s.drop 1).toNat?.map .ch
  else if s.startsWith "b" then (s.drop 1).toNat?.map .emb
  else none

def pieceText : Piece → Nat
  | .ch c => c
  | .emb b => (cp1252At b).getD 0xFFFD

def pieceOk : Piece → Bool
  | .ch c => decide (IsScalar c)
  | .emb b => decide (liveCfg.Convertible b)

def handle : List String → String
  | ["sub", m, b] =>
    match parseMode m, b.toNat? with
    | some mode, some b => showL (subMsChar mode b)
    | _, _ => "bad-op"
  | ["convert", enc, m, bs] =>
    match parseMode m with
    | some mode => showOpt (convertFrom (cps enc) mode (cps bs))
    | none => "bad-op"
  | ["dammit", known, declared, m, bs] =>
    match parseMode m with
    | some mode =>
      let ks := (splitNE ";" known).map cps
      let d := if declared == "-" then none else some (cps declared)
      let listed := (ks ++ d.toList).all namesListed
      let o := match unicodeDammit ks d mode (cps bs) with
        | .ok u repl enc => s!"ok {showL u} repl={bit repl} enc={match enc with | some e => showL e | none => "none"}"
        | .failed => "failed"
        | .beyond => "beyond"
      s!"{o} listed={bit listed}"
    | none => "bad-op"
  | ["dammitf", known, override, user, declared, m, bs] =>
    match parseMode m with
    | some mode =>
      let ks := (splitNE ";" known).map cps
      let os := (splitNE ";" override).map cps
      let us := (splitNE ";" user).map cps
      let d := if declared == "-" then none else some (cps declared)
      let listed := (ks ++ os ++ us ++ d.toList).all namesListed
      let o := match unicodeDammitFull ks os us d mode (cps bs) with
        | .ok u repl enc => s!"ok {showL u} repl={bit repl} enc={match enc with | some e => showL e | none => "none"}"
        | .failed => "failed"
        | .beyond => "beyond"
      s!"{o} listed={bit listed}"
    | none => "bad-op"
  | ["findcodec", name] =>
    s!"{showOpt (findCodec (cps name))} listed={bit (namesListed (cps name))} carrier={bit ((findCodec (cps name)).any isCarrier)}"
  | ["stripbom", bs] =>
    let r := stripBom (cps bs)
    s!"{showL r.1} {showOpt r.2}"
  | ["unescape", s] =>
    match unescapeRef (cps s) with
    | some c => s!"some {c}"
    | none => "none"
  | ["unescapeall", s] => showL (unescapeAll (cps s))
  | ["cp1252", b] =>
    match b.toNat?.bind cp1252At with
    | some c => s!"some {c}"
    | none => "none"
  | ["detwingle", bs] =>
    s!"impl={showOpt (detwingleImpl (cps bs))} spec={showOpt (detwingle (cps bs))}"
  | ["detcall", bs, mainEnc, embEnc] =>
    match detwingleCall (cps bs) (cps mainEnc) (cps embEnc) with
    | .ok out => s!"ok {showL out}"
    | .notImplemented => "NotImplementedError"
    | .hangs => "hangs"
  | ["utf8dec", bs] => showOpt (decodeUtf8 (cps bs))
  | ["utf8enc", s] => showL (utf8 (cps s))
  | ["convertible", b] =>
    match b.toNat? with
    | some b => s!"{bit (decide (liveCfg.Convertible b))} marker={bit (liveCfg.isMarker b)}"
    | none => "bad-op"
  | ["pieces", ps] =>
    -- the two sides of theorem `detwingle_embedded` for a piece list
    let l := (splitNE "," ps).filterMap parsePiece
    s!"ok={bit (l.all pieceOk)} src={showL (l.flatMap Piece.src)} out={showL (utf8 (l.map pieceText))}"
  | _ => "bad-op"

end BS.Drv.C19
