import BSModel.Driver.Util
import BSModel.Model.Registry
namespace BS.Drv.C20
open BS.Registry BS.Drv

def parseRegs (s : String) : List Builder :=
  (splitNE ";" s).filterMap fun item =>
    match item.splitOn ":" with
    | [i, fs] => i.toNat?.map fun n => ⟨n, natList "." fs⟩
    | _ => none

def parseBuilderArg (s : String) : BuilderArg :=
  match s.splitOn ":" with
  | ["cls", i] => .cls i.toNat!
  | ["inst", i] => .inst i.toNat!
  | _ => .none

def parseFeaturesArg (s : String) : FeaturesArg :=
  match s.splitOn ":" with
  | ["str", f] => .str f.toNat!
  | ["list", fs] => .list (cps fs)
  | _ => .none

def handle : List String → String
  | ["lookup", regs, req] =>
    match lookup (registerAll (parseRegs regs)) (cps req) with
    | none => "none"
    | some b => s!"some {b.id}"
  | ["lookupspec", regs, req] =>
    match lookupSpec (parseRegs regs).reverse (cps req) with
    | none => "none"
    | some b => s!"some {b.id}"
  | ["construct", regs, dflt, b, fa, kw] =>
    match construct (registerAll (parseRegs regs)) (cps dflt) (parseBuilderArg b) (parseFeaturesArg fa) (kw == "1") with
    | .featureNotFound => "fnf"
    | .ok d => s!"ok {d.builder} inst={bit d.instantiated} fwd={bit d.kwargsForwarded} warn={bit d.kwargsIgnoredWarning} reg={bit d.registryConsulted}"
  | _ => "bad-op"

end BS.Drv.C20
