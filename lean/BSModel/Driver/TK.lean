import BSModel.Driver.Util
import BSModel.Model.Tokenizer
import BSModel.Model.WriterText
import BSModel.Driver.C04
import BSModel.Proofs.TokenizerExact
/-! protocol (tokenizer model, `Model/Tokenizer.lean`); strings are comma code point lists, `-` empty, `~` None:
  `needs <text>`            → `;`-separated queries the model will put to its parameters on this text:
                               `u:<raw attribute value>` (html.unescape), `l:<ASCII-lowered name>` (str.lower), `e:<entity name>`
  `tokens <text> <table>`   → the callback stream in the recorder's form (`ST|name|line|col|k=v&k=v;ET|name;D|cps;…`), `-` when
                               empty, `error` where the parser raises AssertionError, `stuck` (never: proved unreachable)
  `spans <text> <table>`    → `KIND:lo:hi;…|rest=<unconsumed length>|cd=<cdata_elem or ->|flag`   (KIND `SK` = consumed without callback)
  `write <void> <doc> <choices>` → `<Writable 0/1>|<writeText>|<derivedPos of the elements in document order, l.c,l.c,…>`
                               (void/doc/choices as for `c04 emit`)
  `exact <kind> <body>`     → `<predicate 0/1>|<payload of the model's parse_* on writer(body) ++ "<i>">|<returned index>` for the exact
                               round-trip theorems of Props/TK: kind `cm` (`<!--body-->`, `CommentBodyOK`), `pi` (`<?body>`, `NoGt`),
                               `dt` (`<!DOCTYPEbody>`, `NoGt`), `cd` (`<![CDATA[body]]>`, `CdataBodyOK`), `tx` (`body`, `TextOK`; payload and
                               length of the first data chunk of one loop turn, `~` if the turn starts without data)
  `ws`                      → the model's `\s` set;   `ci <p>` → code points matching pattern letter `p` under re.I (below 0x3000)
  table = `;`-separated `u:<k>=<v>`, `l:<k>=<v>`, `e:<k>=<v|~>`; absent `u`/`l` keys map to themselves -/
namespace BS.Drv.TK
open BS.Tokenizer BS.Drv BS

structure Tab where
  u : List (PStr × PStr)
  l : List (PStr × PStr)
  e : List (PStr × Option PStr)

def fld (s : String) : PStr := if s == "~" then [] else cps s

def parseTab (s : String) : Tab :=
  (splitNE ";" s).foldl (fun t ent =>
    match ent.splitOn "=" with
    | [k, v] =>
      let kind := (k.take 2).toString
      let key := cps (k.drop 2).toString
      if kind == "u:" then { t with u := (key, fld v) :: t.u }
      else if kind == "l:" then { t with l := (key, fld v) :: t.l }
      else if kind == "e:" then { t with e := (key, if v == "~" then none else some (fld v)) :: t.e }
      else t
    | _ => t) ⟨[], [], []⟩

def look {α} (t : List (PStr × α)) (k : PStr) : Option α := (t.find? (fun e => e.1 == k)).map (·.2)

def params (t : Tab) : Params :=
  { unescape := fun v => (look t.u v).getD v,
    lower := fun n => let a := asciiLower n; (look t.l a).getD a }

/-- the needs pass: `unescape = id`, `lower = asciiLower` -/
def params0 : Params := { unescape := id, lower := asciiLower }

def showAttrs (a : List (PStr × Option PStr)) : String :=
  if a.isEmpty then "-" else
  "&".intercalate (a.map fun kv => s!"{showL kv.1}={match kv.2 with | none => "~" | some v => showL v}")

def showEv (t : Tab) (e : Ev) : Option String :=
  match e.tok with
  | .st n a => some s!"ST|{showL n}|{e.pos.1}|{e.pos.2}|{showAttrs a}"
  | .se n a => some s!"SE|{showL n}|{e.pos.1}|{e.pos.2}|{showAttrs a}"
  | .et n => some s!"ET|{showL n}"
  | .data s => some s!"D|{showL s}"
  | .cr s => some s!"CR|{showL s}"
  | .er s => some s!"ER|{showL s}|{match (look t.e s).getD none with | none => "~" | some v => showL v}"
  | .cm s => some s!"CM|{showL s}"
  | .dl s => some s!"DL|{showL s}"
  | .ud s => some s!"UD|{showL s}"
  | .pi s => some s!"PI|{showL s}"
  | .skip => none

def kind : Tok → String
  | .st .. => "ST" | .se .. => "SE" | .et .. => "ET" | .data .. => "D" | .cr .. => "CR" | .er .. => "ER"
  | .cm .. => "CM" | .dl .. => "DL" | .ud .. => "UD" | .pi .. => "PI" | .skip => "SK"

def showFlag : Flag → String
  | .ok => "ok" | .err => "error" | .stuck => "stuck"

def needsOf (e : Ev) : List String :=
  let attrs (a : List (PStr × Option PStr)) : List String :=
    a.flatMap fun kv => s!"l:{showL kv.1}" :: (match kv.2 with | some v => if v.isEmpty then [] else [s!"u:{showL v}"] | none => [])
  match e.tok with
  | .st n a => s!"l:{showL n}" :: attrs a
  | .se n a => s!"l:{showL n}" :: attrs a
  | .et n => [s!"l:{showL n}"]
  | .er n => [s!"e:{showL n}"]
  | _ => []

def handle : List String → String
  | ["needs", text] =>
    let r := run params0 (cps text)
    let q := (r.evs.flatMap needsOf).eraseDups
    if q.isEmpty then "-" else ";".intercalate q
  | ["tokens", text, tab] =>
    let t := parseTab tab
    let r := run (params t) (cps text)
    match r.flag with
    | .err => "error"
    | .stuck => "stuck"
    | .ok =>
      let l := r.evs.filterMap (showEv t)
      if l.isEmpty then "-" else ";".intercalate l
  | ["spans", text, tab] =>
    let t := parseTab tab
    let r := run (params t) (cps text)
    let sp := (spans 0 r.evs).map fun x => s!"{kind x.1.tok}:{x.2.1}:{x.2.2}"
    let body := if sp.isEmpty then "-" else ";".intercalate sp
    s!"{body}|rest={r.st.s.length}|cd={match r.st.cd with | none => "-" | some c => showL c}|{showFlag r.flag}"
  | ["write", void, doc, choices] =>
    let voidS := (void.drop 5).toString
    let voids := (splitNE "." voidS).map ofS
    let iv : BS.Builder.Name → Bool := fun n => voidS == "*" || voids.contains n
    let toks := splitNE ";" doc
    let (ds, pos, _) := C04.parseForest [] 0 toks.length toks
    let c := C04.mkChoices ds pos choices
    let w := decide (BS.WriterText.Writable iv c ds)
    let ps := pos.map fun e => let q := BS.WriterText.derivedPos iv c ds e.1; s!"{q.1}.{q.2}"
    s!"{bit w}|{showL (BS.WriterText.writeText iv c ds)}|{if ps.isEmpty then "-" else ",".intercalate ps}"
  | ["exact", kind, body] =>
    let b := cps body
    let rest : PStr := [60, 105, 62]
    let showPR (ok : Bool) (r : PR) : String :=
      match r with
      | .ok (.cm x) n _ | .ok (.pi x) n _ | .ok (.dl x) n _ | .ok (.ud x) n _ => s!"{bit ok}|{showL x}|{n}"
      | _ => s!"{bit ok}|~|0"
    if kind == "cm" then showPR (decide (CommentBodyOK b)) (parseComment none (writeComment b ++ rest))
    else if kind == "pi" then showPR (decide (NoGt b)) (parsePi none (writePi b ++ rest))
    else if kind == "dt" then showPR (decide (NoGt b)) (parseHtmlDeclaration none (writeDoctype [68, 79, 67, 84, 89, 80, 69] b ++ rest))
    else if kind == "cd" then showPR (decide (CdataBodyOK b)) (parseMarkedSection none (writeCdata b ++ rest))
    else if kind == "tx" then
      match (b.head?.map isPlain).getD false, (step params0 false ⟨b ++ rest, (1, 0), none⟩).1.head? with
      | true, some ⟨.data x, src, _⟩ => s!"{bit (decide (TextOK b))}|{showL x}|{src.length}"
      | _, _ => s!"{bit (decide (TextOK b))}|~|0"
    else "bad-op"
  | ["ws"] => showL ((List.range 0x3100).filter isWs)
  | ["ci", p] =>
    match p.toNat? with
    | some p => showL ((List.range 0x3000).filter (ciEq p))
    | none => "bad-op"
  | _ => "bad-op"

end BS.Drv.TK
