import BSModel.Base.PStr
/-! parsing helpers shared by the line-protocol handlers (core only) -/
namespace BS.Drv

def natList (sep : String) (s : String) : List Nat :=
  if s == "-" || s.isEmpty then [] else (s.splitOn sep).filterMap String.toNat?

def cps (s : String) : List Nat := natList "," s

def showL (l : List Nat) : String := if l.isEmpty then "-" else ",".intercalate (l.map toString)

def bit (b : Bool) : String := if b then "1" else "0"

def splitNE (sep : String) (s : String) : List String :=
  if s == "-" || s.isEmpty then [] else s.splitOn sep

end BS.Drv
