import BSModel.Model.Builder
/-! # The html.parser adapter (C04): `BeautifulSoupHTMLParser` as a function from the standard-library
    parser's callback stream to builder events

Mirrors `bs4/builder/_htmlparser.py`: `handle_startendtag` (127-140), `handle_starttag` (142-206, incl. the
duplicate-attribute policy and `getpos()`), `handle_endtag` (208-225), `handle_data`, `handle_charref` (226-264),
`handle_entityref` (266-283), `handle_comment/decl/unknown_decl/pi` (285-327). CPython's tokenizer is NOT modelled:
its callback stream is the input here (recorded by the harness for every text). Core Lean only. -/
namespace BS.Adapter
open BS.Builder

/-- the callbacks of `html.parser.HTMLParser` (convert_charrefs=False) -/
inductive SEv where
  | starttag (name : Name) (attrs : List (PStr × Option PStr)) (line col : Nat)
  | startendtag (name : Name) (attrs : List (PStr × Option PStr)) (line col : Nat)
  | endtag (name : Name)
  | data (s : PStr)
  | charref (name : PStr)            -- the text between `&#` and `;`
  | entityref (name : PStr)
  | comment (s : PStr)
  | decl (s : PStr)
  | unknownDecl (s : PStr)
  | pi (s : PStr)
deriving Repr

inductive DupPolicy where
  | replace | ignore | accumulate      -- `accumulate`: the callable of the documentation example (collect into a list)
deriving DecidableEq, Repr

/-- an attribute value after the duplicate policy -/
inductive AVal where
  | one (s : PStr)
  | many (l : List PStr)
deriving Repr, BEq

structure ACfg where
  isVoid : Name → Bool                      -- `builder.can_be_empty_element(name)`
  dup : DupPolicy
  storeLines : Bool                          -- `builder.store_line_numbers`
  entity : PStr → Option PStr                -- `EntitySubstitution.HTML_ENTITY_TO_CHARACTER.get`
  cp1252 : Nat → Option Nat                  -- `bytearray([n]).decode("windows-1252")` for n < 256 (none = UnicodeDecodeError)
  origDecode : Nat → Option PStr             -- the same under `soup.original_encoding` (none when there is none / it fails)
  maxDigits : Nat                            -- `sys.int_max_str_digits` (4300)

/-- what `handle_starttag` hands to `Tag.__init__` besides the name -/
structure StartInfo where
  attrs : List (PStr × AVal)
  pos : Option (Nat × Nat)
deriving Repr, BEq

/-- class ids (shared with the harness): Comment, CData, ProcessingInstruction, Declaration, Doctype -/
def clsComment : Cls := 1
def clsCData : Cls := 2
def clsPI : Cls := 3
def clsDecl : Cls := 4
def clsDoctype : Cls := 5

/-! ### attributes (element.py-independent part of handle_starttag, 155-174) -/
def setAttr (d : List (PStr × AVal)) (k : PStr) (v : AVal) : List (PStr × AVal) :=
  match d with
  | [] => [(k, v)]
  | e :: es => if e.1 == k then (k, v) :: es else e :: setAttr es k v

def getAttr (d : List (PStr × AVal)) (k : PStr) : Option AVal := (d.find? (fun e => e.1 == k)).map (·.2)

def addAttr (pol : DupPolicy) (d : List (PStr × AVal)) (k : PStr) (v : Option PStr) : List (PStr × AVal) :=
  let v := v.getD []                                  -- `None` -> ""
  match getAttr d k with
  | none => setAttr d k (.one v)
  | some old =>
    match pol with
    | .ignore => d
    | .replace => setAttr d k (.one v)
    | .accumulate =>
      match old with
      | .one o => setAttr d k (.many [o, v])
      | .many l => setAttr d k (.many (l ++ [v]))

def attrDict (pol : DupPolicy) (attrs : List (PStr × Option PStr)) : List (PStr × AVal) :=
  attrs.foldl (fun d kv => addAttr pol d kv.1 kv.2) []

/-! ### numeric character references (226-264) -/
def hexVal (c : Nat) : Option Nat :=
  if 48 ≤ c ∧ c ≤ 57 then some (c - 48)
  else if 97 ≤ c ∧ c ≤ 102 then some (c - 87)
  else if 65 ≤ c ∧ c ≤ 70 then some (c - 55)
  else none

def decVal (c : Nat) : Option Nat := if 48 ≤ c ∧ c ≤ 57 then some (c - 48) else none

def parseDigits (base : Nat) (dv : Nat → Option Nat) (s : PStr) : Option Nat :=
  if s.isEmpty then none
  else s.foldl (fun acc c => match acc, dv c with | some a, some d => some (a * base + d) | _, _ => none) (some 0)

def lstrip (c : Nat) : PStr → PStr
  | [] => []
  | d :: ds => if d = c then lstrip c ds else d :: ds

/-- `int(name.lstrip("x"), 16)` / `int(name)`, as far as the tokenizer's names go (digits only after the marker);
    `none` = `ValueError` (empty digit string, or a decimal string beyond `sys.int_max_str_digits`) -/
def charrefNumber (cfg : ACfg) (name : PStr) : Option Nat :=
  if name.head? = some 120 then parseDigits 16 hexVal (lstrip 120 name)
  else if name.head? = some 88 then parseDigits 16 hexVal (lstrip 88 name)
  else if name.length > cfg.maxDigits then none else parseDigits 10 decVal name

/-- is `chr(n)` defined? -/
def chrOK (n : Nat) : Bool := n ≤ 0x10FFFF

/-- `handle_charref` with the conversion failure caught (→ U+FFFD) -/
def handleCharref (cfg : ACfg) (name : PStr) : PStr :=
  match charrefNumber cfg name with
  | none => [0xFFFD]
  | some n =>
    let data : Option PStr :=
      if n < 256 then
        -- `for encoding in (original_encoding, "windows-1252")`: the last successful decoding wins
        match cfg.cp1252 n with
        | some c => some [c]
        | none => cfg.origDecode n
      else none
    match data with
    | some d => if d.isEmpty then (if chrOK n then [n] else [0xFFFD]) else d
    | none => if chrOK n then [n] else [0xFFFD]

/-- `handle_entityref` (266-283): unknown names stay literal `&name` -/
def handleEntityref (cfg : ACfg) (name : PStr) : PStr :=
  match cfg.entity name with
  | some c => c
  | none => 38 :: name

/-! ### declarations (285-327) -/
def toUpperAscii (c : Nat) : Nat := if 97 ≤ c ∧ c ≤ 122 then c - 32 else c

def startsWithUpper (pfx s : PStr) : Bool := (s.take pfx.length).map toUpperAscii == pfx

def cdataPrefix : PStr := [67, 68, 65, 84, 65, 91]          -- "CDATA["

/-! ### the adapter: one callback → builder events (+ the start info of the tag it creates, if any) -/
structure ASt where
  alreadyClosed : List Name
deriving Repr

def removeFirst (n : Name) : List Name → List Name
  | [] => []
  | m :: ms => if m == n then ms else m :: removeFirst n ms

def special (s : PStr) (cls : Cls) : List Ev := [.endData none, .data s, .endData (some cls)]

def mkInfo (cfg : ACfg) (attrs : List (PStr × Option PStr)) (line col : Nat) : StartInfo :=
  ⟨attrDict cfg.dup attrs, if cfg.storeLines then some (line, col) else none⟩

def astep (cfg : ACfg) (st : ASt) : SEv → ASt × List Ev × List StartInfo
  | .starttag name attrs line col =>
    if cfg.isVoid name then
      ({ alreadyClosed := st.alreadyClosed ++ [name] }, [.start name none, .stop name none], [mkInfo cfg attrs line col])
    else (st, [.start name none], [mkInfo cfg attrs line col])
  | .startendtag name attrs line col =>
    -- `handle_starttag(..., handle_empty_element=False)` then `handle_endtag(name, check_already_closed=False)`
    (st, [.start name none, .stop name none], [mkInfo cfg attrs line col])
  | .endtag name =>
    if st.alreadyClosed.contains name then ({ alreadyClosed := removeFirst name st.alreadyClosed }, [], [])
    else (st, [.stop name none], [])
  | .data s => (st, [.data s], [])
  | .charref name => (st, [.data (handleCharref cfg name)], [])
  | .entityref name => (st, [.data (handleEntityref cfg name)], [])
  | .comment s => (st, special s clsComment, [])
  | .decl s => (st, special (s.drop 8) clsDoctype, [])                    -- `data[len("DOCTYPE "):]`
  | .unknownDecl s =>
    if startsWithUpper cdataPrefix s then (st, special (s.drop 6) clsCData, [])
    else (st, special s clsDecl, [])
  | .pi s => (st, special s clsPI, [])

/-- the same with the end-tag handling BEFORE the repair (`handle_startendtag` called `handle_endtag(name)` with
    `check_already_closed=True`); kept only for the witness theorem in Props/C04.lean -/
def astepOld (cfg : ACfg) (st : ASt) : SEv → ASt × List Ev × List StartInfo
  | .startendtag name attrs line col =>
    if st.alreadyClosed.contains name then
      ({ alreadyClosed := removeFirst name st.alreadyClosed }, [.start name none], [mkInfo cfg attrs line col])
    else (st, [.start name none, .stop name none], [mkInfo cfg attrs line col])
  | e => astep cfg st e

def arun (stepf : ASt → SEv → ASt × List Ev × List StartInfo) : ASt → List SEv → List Ev × List StartInfo
  | _, [] => ([], [])
  | st, e :: es =>
    let (st1, evs, infos) := stepf st e
    let (evs', infos') := arun stepf st1 es
    (evs ++ evs', infos ++ infos')

def toEvents (cfg : ACfg) (sevs : List SEv) : List Ev × List StartInfo := arun (astep cfg) ⟨[]⟩ sevs
def toEventsOld (cfg : ACfg) (sevs : List SEv) : List Ev × List StartInfo := arun (astepOld cfg) ⟨[]⟩ sevs

/-- the tree the markup describes: the builder's fold of the adapter's events -/
def adapterBuild (bcfg : Cfg) (cfg : ACfg) (sevs : List SEv) : List Doc × List StartInfo :=
  let r := toEvents cfg sevs
  (build bcfg r.1, r.2)

-- elements in document order (the order their start tags arrived in)
mutual
def elemsOf : Doc → List (Name × List Doc)
  | .elem n _ ks => (n, ks) :: elemsOfL ks
  | .text _ _ => []
def elemsOfL : List Doc → List (Name × List Doc)
  | [] => []
  | d :: ds => elemsOf d ++ elemsOfL ds
end

-- a flat code of a forest (injective), so that concrete trees can be compared by `decide`
mutual
def code : Doc → List Nat
  | .elem n _ ks => 1 :: n.length :: (n ++ codeL ks ++ [2])
  | .text c s => 3 :: c :: s.length :: s
def codeL : List Doc → List Nat
  | [] => []
  | d :: ds => code d ++ codeL ds
end

end BS.Adapter
