import BSModel.Base.PStr
import BSModel.Gen.AttrsTables
import BSModel.Gen.AttrsLower
/-! C17 — attribute values: multi-valued split/join, coercions of the attribute containers, duplicate policy.

Code-mirror of
* `nonwhitespace_re.findall` (bs4/element.py:98) as used by `TreeBuilder._replace_cdata_list_attribute_values`
  (bs4/builder/__init__.py:388-442) over the generated whitespace class,
* `XMLAttributeDict.__setitem__` / `HTMLAttributeDict.__setitem__` (bs4/element.py:238-305),
* the attribute part of `Tag.__init__` (bs4/element.py:1661-1690),
* `BeautifulSoupHTMLParser.handle_starttag` (bs4/builder/_htmlparser.py:155-174),
* the list join of `Tag._format_tag` (bs4/element.py:2552-2560).

`HTMLAttributeDict.__setitem__` is modelled in its *documented* (repaired) form — `False`/`None` remove the attribute,
every number becomes its `str` — and `htmlSetOld` mirrors the unrepaired membership test `value in (False, None)`
(element.py:280), which also removes `0`, `0.0`, `-0.0` and anything else equal to `False`. -/
namespace BS.Attrs

/-! ### Python values an attribute can be given -/

/-- A Python value assigned to / stored in an attribute dictionary. `int`/`float`/`str`/`list`/`tuple` stand for
    *instances* (`isinstance`) of these types, proper subclasses included (an `IntEnum` member, a unit class `Px(int)`,
    a `float` subclass, a `str` subclass; `bool` is its own constructor), with their inherited `__str__`.
* `float text isZero`: a float, carried with its `str()` (CPython's shortest-repr algorithm is not modelled; the text is
  data of the value) and whether it compares equal to `0`/`False`;
* `list cls l`: a list of strings, `cls` names the list class (0 = `list`, 1 = `AttributeValueList`, ≥2 = a subclass given
  as `attribute_value_list_class`);
* `other id eqFalse`: any other object (kept by identity), with the outcome of `obj == False` (e.g. `0j`, `Decimal(0)`). -/
inductive PyVal where
  | str (s : PStr)
  | bool (b : Bool)
  | int (i : Int)
  | float (text : PStr) (isZero : Bool)
  | none
  | list (cls : Nat) (l : List PStr)
  | tuple (l : List PStr)              -- a tuple of strings: joined on output like a list, but not a list elsewhere
  | other (id : Nat) (eqFalse : Bool)
deriving DecidableEq, Repr

/-- result of an operation that may raise `ValueError` (`str()` of an int beyond `sys.get_int_max_str_digits()`) -/
inductive Res (α : Type) where
  | ok (a : α)
  | valueError
deriving DecidableEq, Repr

def Res.bind {α β : Type} (r : Res α) (f : α → Res β) : Res β :=
  match r with
  | .ok a => f a
  | .valueError => .valueError

/-! ### `\S+` -/

/-- a code point the pattern `\S+` does not accept (generated from the code's own compiled pattern) -/
def isWs (c : Nat) : Bool := BS.Gen.c17NotTokenChars.contains c

/-- `nonwhitespace_re.findall(s)`: leftmost, greedy, non-overlapping matches of `\S+`.
    `cur` = the match in progress. -/
def splitGo : PStr → PStr → List PStr
  | [], cur => if cur.isEmpty then [] else [cur]
  | c :: cs, cur =>
    if isWs c then (if cur.isEmpty then splitGo cs [] else cur :: splitGo cs [])
    else splitGo cs (cur ++ [c])

def splitWs (s : PStr) : List PStr := splitGo s []

/-- `" ".join(val)` (element.py:2558) -/
def joinSp : List PStr → PStr
  | [] => []
  | [t] => t
  | t :: ts => t ++ 32 :: joinSp ts

/-! ### decimal `str()` of an int -/

/-- decimal digits, most significant first, in front of `acc` (`fuel` bounds the number of digits; `n + 1` always
    suffices) -/
def natDigits : Nat → Nat → PStr → PStr
  | 0, _, acc => acc
  | fuel + 1, n, acc => if n < 10 then (48 + n) :: acc else natDigits fuel (n / 10) ((48 + n % 10) :: acc)

def natStr (n : Nat) : PStr := natDigits (n + 1) n []

def intStr : Int → PStr
  | .ofNat n => natStr n
  | .negSucc n => 45 :: natStr (n + 1)

/-- `str(i)` under CPython's digit limit (`maxDigits = 0`: no limit) -/
def pyStrInt (maxDigits : Nat) (i : Int) : Res PStr :=
  if maxDigits ≠ 0 ∧ maxDigits < (natStr i.natAbs).length then .valueError else .ok (intStr i)

/-! ### `str.lower()` (per code point, from the generated table; the context rule of U+03A3 is left out) -/

/-- lookup in a table sorted by key (stops at the first larger key) -/
def lookupSorted : List (Nat × List Nat) → Nat → Option (List Nat)
  | [], _ => Option.none
  | (k, v) :: rest, c => if k == c then some v else if c < k then Option.none else lookupSorted rest c

def sortedKeys : List (Nat × List Nat) → Bool
  | [] => true
  | [_] => true
  | a :: b :: rest => decide (a.1 < b.1) && sortedKeys (b :: rest)

def lowerCp (c : Nat) : List Nat :=
  match lookupSorted BS.Gen.c17LowerMap c with
  | some l => l
  | Option.none => [c]

def pyLower (s : PStr) : PStr := s.flatMap lowerCp

/-! ### keys -/

/-- An attribute key: a plain `str` or a `NamespacedAttribute` (element.py:131-162; a `str` subclass that remembers
    `prefix` and `name`; an empty name is stored as `None`). -/
inductive Key where
  | plain (s : PStr)
  | ns (pfx : Option PStr) (name : Option PStr)
deriving DecidableEq, Repr

def noneStr : PStr := [78, 111, 110, 101]  -- "None"

/-- `NamespacedAttribute.__new__(prefix, name)` (element.py:147-162) -/
def mkNs (pfx name : Option PStr) : Key :=
  let name := match name with | some [] => Option.none | n => n
  .ns pfx name

/-- the `str` value of the key (what the dictionary hashes and compares) -/
def Key.str : Key → PStr
  | .plain s => s
  | .ns pfx name =>
    match name with
    | Option.none | some [] => (match pfx with | some p => p | Option.none => noneStr)   -- `str.__new__(cls, prefix)`
    | some n =>
      match pfx with
      | Option.none | some [] => n
      | some p => p ++ 58 :: n

/-- the value `True` is turned into by `HTMLAttributeDict` (element.py:297-300): `key.name` for a
    `NamespacedAttribute` (which is `None` for a default-namespace key), the key itself otherwise -/
def ownName : Key → PyVal
  | .plain s => .str s
  | .ns _ (some (c :: cs)) => .str (c :: cs)
  | .ns _ _ => .none

/-! ### the dictionary (insertion ordered, keyed by the `str` value) -/

abbrev Items := List (PStr × PyVal)

def dictHas (d : Items) (k : PStr) : Bool := d.any (fun p => p.1 == k)

def dictGet (d : Items) (k : PStr) : Option PyVal := d.lookup k

/-- `dict.__setitem__`: an existing key keeps its position, a new key goes last -/
def dictSet : Items → PStr → PyVal → Items
  | [], k, v => [(k, v)]
  | (k', v') :: rest, k, v => if k' == k then (k', v) :: rest else (k', v') :: dictSet rest k v

/-- `if key in self: del self[key]` -/
def dictDel (d : Items) (k : PStr) : Items := d.filter (fun p => !(p.1 == k))

inductive DictClass where
  | plain   -- AttributeDict
  | html    -- HTMLAttributeDict
  | xml     -- XMLAttributeDict
deriving DecidableEq, Repr

/-- `XMLAttributeDict.__setitem__` (element.py:238-262) -/
def xmlSet (maxDigits : Nat) (d : Items) (k : Key) (v : PyVal) : Res Items :=
  let v : PyVal := match v with | .none => .str [] | v => v      -- if value is None: value = ""
  match v with
  | .bool b => .ok (dictSet d k.str (.bool b))            -- isinstance(value, bool): pass
  | .int i => (pyStrInt maxDigits i).bind fun s => .ok (dictSet d k.str (.str s))
  | .float t _ => .ok (dictSet d k.str (.str t))
  | v => .ok (dictSet d k.str v)

/-- `HTMLAttributeDict.__setitem__` with the identity test `value is False or value is None` (documented behaviour;
    element.py:276-305 with line 280 repaired) -/
def htmlSet (maxDigits : Nat) (d : Items) (k : Key) (v : PyVal) : Res Items :=
  match v with
  | .bool false | .none => .ok (dictDel d k.str)
  | .bool true => .ok (dictSet d k.str (ownName k))
  | .int i => (pyStrInt maxDigits i).bind fun s => .ok (dictSet d k.str (.str s))
  | .float t _ => .ok (dictSet d k.str (.str t))
  | v => .ok (dictSet d k.str v)

/-- `value == False` for the membership test `value in (False, None)` -/
def eqFalse : PyVal → Bool
  | .bool b => !b
  | .int i => i == 0
  | .float _ z => z
  | .other _ e => e
  | _ => false

/-- the unrepaired `HTMLAttributeDict.__setitem__` (element.py:280 `if value in (False, None)`) -/
def htmlSetOld (maxDigits : Nat) (d : Items) (k : Key) (v : PyVal) : Res Items :=
  if eqFalse v || v == .none then .ok (dictDel d k.str) else htmlSet maxDigits d k v

/-! documented meaning: what an assigned value is stored as (`none` = the attribute is absent afterwards) -/

/-- HTML: numbers (zero included) become their `str`, `True` the attribute's own (unqualified) name, `False`/`None`
    remove the attribute, everything else is kept -/
def htmlStored (k : Key) : PyVal → Option PyVal
  | .bool false | .none => Option.none
  | .bool true => some (ownName k)
  | .int i => some (.str (intStr i))
  | .float t _ => some (.str t)
  | v => some v

/-- XML: numbers become their `str`, `None` the empty string, booleans and everything else are kept -/
def xmlStored : PyVal → PyVal
  | .none => .str []
  | .int i => .str (intStr i)
  | .float t _ => .str t
  | v => v

/-- `str(i)` would exceed the interpreter's digit limit -/
def tooBig (maxDigits : Nat) : PyVal → Prop
  | .int i => maxDigits ≠ 0 ∧ maxDigits < (natStr i.natAbs).length
  | _ => False

def setItem (maxDigits : Nat) : DictClass → Items → Key → PyVal → Res Items
  | .plain, d, k, v => .ok (dictSet d k.str v)
  | .html, d, k, v => htmlSet maxDigits d k v
  | .xml, d, k, v => xmlSet maxDigits d k v

/-- a sequence of assignments `d[k] = v` -/
def setMany (maxDigits : Nat) (cls : DictClass) : Items → List (Key × PyVal) → Res Items
  | d, [] => .ok d
  | d, (k, v) :: rest => (setItem maxDigits cls d k v).bind fun d' => setMany maxDigits cls d' rest

/-! ### the multi-valued table -/

/-- `multi_valued_attributes`: element name (or `*`) ↦ set of attribute names -/
abbrev CdataMap := List (PStr × List PStr)

def star : PStr := [42]

/-- `attr in universal or (tag_specific and attr in tag_specific)` (builder/__init__.py:415-419);
    `lower` = `str.lower` -/
def isMulti (m : CdataMap) (lower : PStr → PStr) (tag attr : PStr) : Bool :=
  let universal := match m.lookup star with | some s => s | Option.none => []
  let tagSpecific := m.lookup (lower tag)
  universal.contains attr ||
    (match tagSpecific with | some s => s.contains attr | Option.none => false)

/-- the value stored for a covered attribute (builder/__init__.py:424-441): a string is split into an instance of
    the builder's list class, anything else is left alone -/
def splitVal (listCls : Nat) : PyVal → PyVal
  | .str s => .list listCls (splitWs s)
  | v => v

/-- the loop `for attr in list(modified_attrs.keys())`, assigning through the dictionary's own `__setitem__` -/
def replaceLoop (maxDigits : Nat) (m : CdataMap) (lower : PStr → PStr) (listCls : Nat) (cls : DictClass)
    (tag : PStr) : List PStr → Items → Res Items
  | [], d => .ok d
  | attr :: rest, d =>
    if isMulti m lower tag attr then
      match dictGet d attr with
      | some v => (setItem maxDigits cls d (.plain attr) (splitVal listCls v)).bind
                    fun d' => replaceLoop maxDigits m lower listCls cls tag rest d'
      | Option.none => replaceLoop maxDigits m lower listCls cls tag rest d   -- (KeyError in Python; unreachable for plain dicts)
    else replaceLoop maxDigits m lower listCls cls tag rest d

/-- `_replace_cdata_list_attribute_values(tag_name, attrs)`; `m = none` is `multi_valued_attributes=None` -/
def replaceCdataList (maxDigits : Nat) (m : Option CdataMap) (lower : PStr → PStr) (listCls : Nat) (cls : DictClass)
    (tag : PStr) (d : Items) : Res Items :=
  match m with
  | Option.none => .ok d
  | some m =>
    if d.isEmpty || m.isEmpty then .ok d
    else replaceLoop maxDigits m lower listCls cls tag (d.map (·.1)) d

/-- documented meaning over a plain dictionary: exactly the covered string values are replaced by their token lists -/
def replaceSpec (m : Option CdataMap) (lower : PStr → PStr) (listCls : Nat) (tag : PStr) (d : Items) : Items :=
  match m with
  | Option.none => d
  | some m => d.map fun p => if isMulti m lower tag p.1 then (p.1, splitVal listCls p.2) else p

/-! ### `Tag.__init__`, attribute part (element.py:1661-1690) -/

structure BuilderCfg where
  cdata : Option CdataMap      -- builder.cdata_list_attributes
  dictCls : DictClass          -- builder.attribute_dict_class
  listCls : Nat                -- builder.attribute_value_list_class
  isXml : Bool                 -- builder.is_xml (stored as tag.known_xml; decides the container class of copies)
deriving Repr

structure TagAttrs where
  cls : DictClass
  listCls : Nat                -- tag.attribute_value_list_class
  items : Items
  isXml : Bool                 -- tag.known_xml (`builder.is_xml`, or the `is_xml` argument without a builder)
deriving DecidableEq, Repr

def truthyMap : Option CdataMap → Bool
  | some m => !m.isEmpty
  | Option.none => false

/-- the copy loop `for k, v in attrs.items(): if isinstance(v, list): v = v.__class__(v); self.attrs[k] = v` -/
def copyInto (maxDigits : Nat) (cls : DictClass) : Items → Items → Res Items
  | [], d => .ok d
  | (k, v) :: rest, d => (setItem maxDigits cls d (.plain k) v).bind fun d' => copyInto maxDigits cls rest d'

/-- `attrs` = the dictionary handed to the constructor together with its class (`none`: no attrs argument) -/
def tagInit (maxDigits : Nat) (lower : PStr → PStr) (b : Option BuilderCfg) (isXml : Bool) (name : PStr)
    (attrs : Option (DictClass × Items)) : Res TagAttrs :=
  let cls := match b with
    | Option.none => if isXml then DictClass.xml else DictClass.html
    | some b => b.dictCls
  let listCls := match b with | Option.none => 1 | some b => b.listCls
  let x := match b with | Option.none => isXml | some b => b.isXml      -- element.py:1693-1696
  match attrs with
  | Option.none => .ok ⟨cls, listCls, [], x⟩
  | some (acls, d) =>
    match b with
    | some b =>
      if truthyMap b.cdata then
        -- the very dictionary passed in is kept (and modified in place)
        (replaceCdataList maxDigits b.cdata lower b.listCls acls name d).bind fun d' => .ok ⟨acls, listCls, d', x⟩
      else (copyInto maxDigits cls d []).bind fun d' => .ok ⟨cls, listCls, d', x⟩
    | Option.none => (copyInto maxDigits cls d []).bind fun d' => .ok ⟨cls, listCls, d', x⟩

/-- `dict(**kw)` then `.update(attrs)`: neither goes through `__setitem__` of the subclass, so nothing is coerced -/
def rawUpdate : Items → Items → Items
  | d, [] => d
  | d, (k, v) :: rest => rawUpdate (dictSet d k v) rest

/-- `BeautifulSoup.new_tag(name, attrs=…, **kwattrs)` (bs4/__init__.py:709-727): the builder's dictionary class is
    instantiated from the keyword attributes, updated with `attrs`, and handed to `Tag.__init__` with the builder -/
def newTag (maxDigits : Nat) (lower : PStr → PStr) (b : BuilderCfg) (name : PStr) (kw : Items) (attrs : Option Items) :
    Res TagAttrs :=
  let container := match attrs with
    | some a => rawUpdate (rawUpdate [] kw) a
    | Option.none => rawUpdate [] kw
  tagInit maxDigits lower (some b) false name (some (b.dictCls, container))

/-- `tag[key] = value` (element.py:2223-2226) -/
def tagSet (maxDigits : Nat) (t : TagAttrs) (k : Key) (v : PyVal) : Res TagAttrs :=
  (setItem maxDigits t.cls t.items k v).bind fun d => .ok { t with items := d }

def tagSetMany (maxDigits : Nat) : TagAttrs → List (Key × PyVal) → Res TagAttrs
  | t, [] => .ok t
  | t, (k, v) :: rest => (tagSet maxDigits t k v).bind fun t' => tagSetMany maxDigits t' rest

/-! ### `BeautifulSoupHTMLParser.handle_starttag` (builder/_htmlparser.py:155-174) -/

inductive OnDup where
  | replace                                           -- "replace" (default) or None
  | ignore                                            -- "ignore"
  | callable (f : Items → PStr → PStr → Items)       -- on_dupe(attr_dict, key, value)

/-- the documented example handler: collect every value of a repeated attribute in a list -/
def accumulate (d : Items) (k : PStr) (v : PStr) : Items :=
  match dictGet d k with
  | some (.list c l) => dictSet d k (.list c (l ++ [v]))
  | some (.str s) => dictSet d k (.list 0 [s, v])
  | _ => d

/-- `key in attr_dict` already: what happens depends on `on_duplicate_attribute` (_htmlparser.py:165-172) -/
def onDuplicate (maxDigits : Nat) (cls : DictClass) (onDup : OnDup) (d : Items) (k value : PStr) : Res Items :=
  match onDup with
  | .ignore => .ok d                                                   -- pass
  | .replace => setItem maxDigits cls d (.plain k) (.str value)        -- attr_dict[key] = value
  | .callable f => .ok (f d k value)                                   -- on_dupe(attr_dict, key, value)

/-- `if value is None: value = ""` -/
def rawVal : Option PStr → PStr
  | some s => s
  | Option.none => []

def startTagLoop (maxDigits : Nat) (cls : DictClass) (onDup : OnDup) : List (PStr × Option PStr) → Items → Res Items
  | [], d => .ok d
  | (k, v) :: rest, d =>
    (if dictHas d k then onDuplicate maxDigits cls onDup d k (rawVal v)
     else setItem maxDigits cls d (.plain k) (.str (rawVal v))).bind
      fun d' => startTagLoop maxDigits cls onDup rest d'

/-- a start tag seen by html.parser: `attr_dict = attribute_dict_class()`, filled under the duplicate policy, then
    handed to `Tag.__init__` through `BeautifulSoup.handle_starttag` -/
def parseStartTag (maxDigits : Nat) (lower : PStr → PStr) (b : BuilderCfg) (onDup : OnDup) (name : PStr)
    (attrs : List (PStr × Option PStr)) : Res TagAttrs :=
  (startTagLoop maxDigits b.dictCls onDup attrs []).bind fun d =>
    tagInit maxDigits lower (some b) false name (some (b.dictCls, d))

/-! ### output (element.py:2552-2560, before entity substitution and quoting) -/

inductive Rendered where
  | bare                       -- `val is None`: the key alone
  | text (s : PStr)            -- the string handed to `formatter.attribute_value`
  | opaque (id : Nat)          -- `str(obj)` of an object the model knows nothing about
  | valueError
deriving DecidableEq, Repr

def trueStr : PStr := [84, 114, 117, 101]
def falseStr : PStr := [70, 97, 108, 115, 101]

def renderVal (maxDigits : Nat) : PyVal → Rendered
  | .none => .bare
  | .list _ l => .text (joinSp l)
  | .tuple l => .text (joinSp l)          -- `isinstance(val, list) or isinstance(val, tuple)`
  | .str s => .text s
  | .bool b => .text (if b then trueStr else falseStr)
  | .int i => match pyStrInt maxDigits i with | .ok s => .text s | .valueError => .valueError
  | .float t _ => .text t
  | .other id _ => .opaque id

/-! ### histories: several tags made under one builder, lists changed in place

In Python the value of a multi-valued attribute is a *mutable* list object. The documented meaning is that every
attribute owns its list: the builder creates a fresh `attribute_value_list_class(...)` for each attribute it splits
(builder/__init__.py:429-431) and `Tag.__init__` copies lists (`v.__class__(v)`, element.py:1686-1688). The model states
this as a store without sharing: the state is the list of tags made so far, each with its own `Items`. -/

/-- in-place operations on a list value (`tag["class"].append("x")`, …) -/
inductive ListOp where
  | append (t : PStr)
  | remove (t : PStr)        -- first occurrence (absent: the harness does not generate it; Python raises ValueError)
  | clear
  | sort
  | iadd (l : List PStr)     -- `+=` / extend
  | reverse
  | pop                      -- last element
  | insert0 (t : PStr)
deriving DecidableEq, Repr

/-- `a <= b` for Python str comparison (by code point) -/
def lexLe : PStr → PStr → Bool
  | [], _ => true
  | _ :: _, [] => false
  | a :: as, b :: bs => if a < b then true else if b < a then false else lexLe as bs

def insertSorted (x : PStr) : List PStr → List PStr
  | [] => [x]
  | y :: ys => if lexLe x y then x :: y :: ys else y :: insertSorted x ys

def sortStrs : List PStr → List PStr
  | [] => []
  | x :: xs => insertSorted x (sortStrs xs)

def applyListOp : ListOp → List PStr → List PStr
  | .append t, l => l ++ [t]
  | .remove t, l => l.erase t
  | .clear, _ => []
  | .sort, l => sortStrs l
  | .iadd m, l => l ++ m
  | .reverse, l => l.reverse
  | .pop, l => l.dropLast
  | .insert0 t, l => t :: l

/-- the change reaches the dictionary without going through `__setitem__` -/
def mutateValue (op : ListOp) : PyVal → PyVal
  | .list c l => .list c (applyListOp op l)
  | v => v

def mutateTag (t : TagAttrs) (k : PStr) (op : ListOp) : TagAttrs :=
  match dictGet t.items k with
  | some v => { t with items := dictSet t.items k (mutateValue op v) }
  | Option.none => t

def modifyAt {α : Type} : List α → Nat → (α → α) → List α
  | [], _, _ => []
  | a :: l, 0, f => f a :: l
  | a :: l, i + 1, f => a :: modifyAt l i f

inductive Step where
  | parse (name : PStr) (attrs : List (PStr × Option PStr))   -- a start tag of a document fed to the builder
  | newTag (name : PStr) (items : Items)                       -- soup.new_tag(name, attrs=items)
  | copy (i : Nat)                                             -- copy.copy(tag i)
  | mutate (i : Nat) (k : PStr) (op : ListOp)                  -- tag_i[k].<op>(…)
  | set (i : Nat) (k : Key) (v : PyVal)                        -- tag_i[k] = v
  | del (i : Nat) (k : PStr)                                   -- del tag_i[k]
  | ctor (i : Nat) (isXml : Bool)                              -- Tag(name=tag_i.name, attrs=tag_i.attrs, is_xml=…)

/-- `copy.copy(tag)` = `Tag.copy_self` (element.py:1800-1836): a builder-less `Tag(None, None, name, …, None,
    is_xml=self._is_xml)` (no attributes handed to the constructor), then `clone.attrs = self.attrs.__class__()` is
    filled with the original's values (lists in new lists), assigned through that class's own `__setitem__`. -/
def copyTag (maxDigits : Nat) (lower : PStr → PStr) (name : PStr) (t : TagAttrs) : Res TagAttrs :=
  (tagInit maxDigits lower Option.none t.isXml name Option.none).bind fun t0 =>
    (copyInto maxDigits t.cls t.items []).bind fun d => .ok { t0 with cls := t.cls, items := d }

/-- `copy_self` as it was before fixes/C17-copy-no-constructor-pass.diff: the constructor was handed `self.attrs`, so
    its builder-less attribute pass (an HTML/XML container) ran first and its result was thrown away — unless it
    raised. -/
def copyTagOld (maxDigits : Nat) (lower : PStr → PStr) (name : PStr) (t : TagAttrs) : Res TagAttrs :=
  (tagInit maxDigits lower Option.none t.isXml name (some (t.cls, t.items))).bind fun t0 =>
    (copyInto maxDigits t.cls t.items []).bind fun d => .ok { t0 with cls := t.cls, items := d }

/-- the tags made so far (name, attributes), oldest first -/
abbrev Hist := List (PStr × TagAttrs)

def histStep (maxDigits : Nat) (lower : PStr → PStr) (b : BuilderCfg) (st : Hist) : Step → Res Hist
  | .parse name attrs =>
    (parseStartTag maxDigits lower b .replace name attrs).bind fun t => .ok (st ++ [(name, t)])
  | .newTag name items =>
    (tagInit maxDigits lower (some b) false name (some (b.dictCls, items))).bind fun t => .ok (st ++ [(name, t)])
  | .copy i =>
    match st[i]? with
    | some (n, t) => (copyTag maxDigits lower n t).bind fun t' => .ok (st ++ [(n, t')])
    | Option.none => .ok st
  | .mutate i k op => .ok (modifyAt st i (fun p => (p.1, mutateTag p.2 k op)))
  | .set i k v =>
    match st[i]? with
    | some (_, t) => (tagSet maxDigits t k v).bind fun t' => .ok (modifyAt st i (fun p => (p.1, t')))
    | Option.none => .ok st
  | .ctor i isXml =>
    match st[i]? with
    | some (n, t) =>
      (tagInit maxDigits lower Option.none isXml n (some (t.cls, t.items))).bind fun t' => .ok (st ++ [(n, t')])
    | Option.none => .ok st
  | .del i k => .ok (modifyAt st i (fun p => (p.1, { p.2 with items := dictDel p.2.items k })))

def runHist (maxDigits : Nat) (lower : PStr → PStr) (b : BuilderCfg) : Hist → List Step → Res Hist
  | st, [] => .ok st
  | st, s :: rest => (histStep maxDigits lower b st s).bind fun st' => runHist maxDigits lower b st' rest

/-- the value of attribute `k` of tag `j` -/
def attrAt (st : Hist) (j : Nat) (k : PStr) : Option PyVal :=
  match st[j]? with
  | some p => dictGet p.2.items k
  | Option.none => Option.none

/-! ### reading and deleting attributes (element.py:2190-2231) -/

/-- `tag.get(key, default)` (`default` is `None` unless given) -/
def tagGet (t : TagAttrs) (k : PStr) (dflt : PyVal) : PyVal :=
  match dictGet t.items k with
  | some v => v
  | Option.none => dflt

/-- `tag[key]`: the value, or `KeyError` -/
def tagGetItem (t : TagAttrs) (k : PStr) : Option PyVal := dictGet t.items k

/-- `tag.has_attr(key)` -/
def hasAttr (t : TagAttrs) (k : PStr) : Bool := dictHas t.items k

/-- `del tag[key]` = `self.attrs.pop(key, None)`: no error when absent -/
def tagDel (t : TagAttrs) (k : PStr) : TagAttrs := { t with items := dictDel t.items k }

/-- what `get_attribute_list` returns: a list of strings, or (for a value that is neither `None`, a list nor a string)
    a one-element list holding that value -/
inductive AttrList where
  | strs (cls : Nat) (l : List PStr)
  | single (cls : Nat) (v : PyVal)
deriving DecidableEq, Repr

/-- `tag.get_attribute_list(key, default)` (element.py:2203-2224): `None` → an empty list of the tag's list class; a
    list → that list itself; anything else → a one-element list of the tag's list class -/
def getAttributeList (t : TagAttrs) (k : PStr) (dflt : PyVal) : AttrList :=
  match tagGet t k dflt with
  | .none => .strs t.listCls []
  | .list c l => .strs c l
  | .str s => .strs t.listCls [s]
  | v => .single t.listCls v

/-! ### output: the attribute part of `Tag._format_tag` (element.py:2578-2601), `Formatter.attributes`
    (formatter.py:170-190) and `EntitySubstitution.quoted_attribute_value` (dammit.py:316-353) -/

def insertItem (p : PStr × PyVal) : Items → Items
  | [] => [p]
  | q :: qs => if lexLe p.1 q.1 then p :: q :: qs else q :: insertItem p qs

/-- `sorted(...)` of `(key, value)` pairs with distinct keys: by key, by code point -/
def sortItems : Items → Items
  | [] => []
  | p :: ps => insertItem p (sortItems ps)

/-- `Formatter.attributes(tag)`: with `empty_attributes_are_booleans` a value equal to `""` becomes `None` -/
def fmtAttributes (emptyBool : Bool) (items : Items) : Items :=
  sortItems (items.map fun p => (p.1, if emptyBool && p.2 == PyVal.str [] then PyVal.none else p.2))

def quotEntity : PStr := [38, 113, 117, 111, 116, 59]   -- "&quot;"

/-- `quoted_attribute_value`: double quotes, unless the value has a `"` and no `'` (then single quotes); with both
    kinds the `"` are written `&quot;` -/
def quotedAttributeValue (v : PStr) : PStr :=
  if v.contains 34 then
    if v.contains 39 then 34 :: v.flatMap (fun c => if c == 34 then quotEntity else [c]) ++ [34]
    else 39 :: v ++ [39]
  else 34 :: v ++ [34]

/-- the formatter as far as attributes are concerned; `subst` is `formatter.attribute_value` (entity substitution, the
    subject of another property — a parameter here), `otherStr` is `str()` of objects the model knows by number only -/
structure FmtCfg where
  emptyBool : Bool
  subst : PStr → PStr
  otherStr : Nat → PStr

/-- one `decoded` entry of `_format_tag` -/
def formatAttr (maxDigits : Nat) (f : FmtCfg) (p : PStr × PyVal) : Res PStr :=
  match renderVal maxDigits p.2 with
  | .bare => .ok p.1
  | .text s => .ok (p.1 ++ 61 :: quotedAttributeValue (f.subst s))
  | .opaque i => .ok (p.1 ++ 61 :: quotedAttributeValue (f.subst (f.otherStr i)))
  | .valueError => .valueError

def formatAttrs (maxDigits : Nat) (f : FmtCfg) : Items → Res (List PStr)
  | [] => .ok []
  | p :: ps => (formatAttr maxDigits f p).bind fun a => (formatAttrs maxDigits f ps).bind fun as => .ok (a :: as)

/-- `attribute_string`: empty without attributes, else a blank and the entries joined by single blanks -/
def attributeString (maxDigits : Nat) (f : FmtCfg) (items : Items) : Res PStr :=
  (formatAttrs maxDigits f (fmtAttributes f.emptyBool items)).bind fun l =>
    .ok (if l.isEmpty then [] else 32 :: joinSp l)

/-- the attribute string when a formatter's own `attributes()` (the documented extension point, e.g. the
    documentation's `UnsortedAttributes`) hands back the pairs `sel` — any order, any selection: `_format_tag` still
    renders each pair itself, so list and tuple values are joined there -/
def attributeStringSel (maxDigits : Nat) (f : FmtCfg) (sel : Items) : Res PStr :=
  (formatAttrs maxDigits f sel).bind fun l => .ok (if l.isEmpty then [] else 32 :: joinSp l)

/-! ### ASCII lower-casing (what `str.lower` does on ASCII names; proved equal to `pyLower` there) -/

def asciiLowerCp (c : Nat) : Nat := if 65 ≤ c ∧ c ≤ 90 then c + 32 else c
def asciiLower (s : PStr) : PStr := s.map asciiLowerCp

/-! ### builder options (`TreeBuilder.__init__`, builder/__init__.py:209-241; `HTMLParserTreeBuilder.__init__`,
    `BeautifulSoupHTMLParser.__init__`, _htmlparser.py:84-93, 357-377) -/

/-- the `multi_valued_attributes` argument: left out (the `USE_DEFAULT` sentinel, compared with `is`), `None`, or a map -/
inductive MvaArg where
  | useDefault
  | none
  | map (m : CdataMap)
deriving DecidableEq, Repr

/-- the `on_duplicate_attribute` argument -/
inductive OnDupArg where
  | absent                                            -- not given: `REPLACE`
  | pyNone                                            -- `None`
  | str (s : PStr)                                    -- a string
  | callable (f : Items → PStr → PStr → Items)

def replaceStr : PStr := [114, 101, 112, 108, 97, 99, 101]   -- "replace"
def ignoreStr : PStr := [105, 103, 110, 111, 114, 101]        -- "ignore"

/-- how `handle_starttag` reads the setting (`== IGNORE`, `in (None, REPLACE)`, else call it): `none` = a string that
    is neither — Python then fails with `TypeError: 'str' object is not callable` at the first repeated attribute -/
def resolveOnDup : OnDupArg → Option OnDup
  | .absent | .pyNone => some .replace
  | .str s => if s == ignoreStr then some .ignore else if s == replaceStr then some .replace else Option.none
  | .callable f => some (.callable f)

/-- `classDefault` = the builder class's `DEFAULT_CDATA_LIST_ATTRIBUTES`; the dictionary and list classes default to
    `AttributeDict` and `AttributeValueList` -/
def mkBuilder (classDefault : CdataMap) (isXml : Bool) (mva : MvaArg) (dictCls : Option DictClass)
    (listCls : Option Nat) : BuilderCfg :=
  { cdata := match mva with
      | .useDefault => some classDefault
      | .none => Option.none
      | .map m => some m
    dictCls := match dictCls with | some c => c | Option.none => .plain
    listCls := match listCls with | some c => c | Option.none => 1
    isXml := isXml }

/-- the two routes of the option (`HTMLParserTreeBuilder.__init__`, _htmlparser.py:376-386): the builder keyword
    `on_duplicate_attribute=` (`kw`, `none` = keyword not passed) and `parser_kwargs={"on_duplicate_attribute": …}` (`pk`).
    `parser_kwargs.update(extra_parser_kwargs)`: a keyword that was passed — even `None` — wins; otherwise the entry of
    `parser_kwargs` reaches `BeautifulSoupHTMLParser.__init__`, whose own default is `REPLACE`. -/
def effectiveOnDup (kw pk : Option OnDupArg) : OnDupArg :=
  match kw with
  | some a => a
  | Option.none => match pk with
    | some a => a
    | Option.none => .absent

/-- Several builders constructed one after the other, all handed ONE caller-owned `parser_kwargs` dictionary (`pk` =
    its `on_duplicate_attribute` entry, if any) and each its own keyword (`kws`). The constructor works on a copy
    (`parser_kwargs = dict(parser_kwargs or {})`, _htmlparser.py:383 as repaired by
    fixes/C17-parser-kwargs-dict-shared.diff), so every builder's setting is what ITS arguments say. -/
def buildersSharing (pk : Option OnDupArg) (kws : List (Option OnDupArg)) : List OnDupArg :=
  kws.map fun kw => effectiveOnDup kw pk

/-- the unrepaired constructor (`parser_kwargs = parser_kwargs or {}` followed by `parser_kwargs.update(…)`) wrote a
    passed keyword into the caller's dictionary, where the next builder found it -/
def buildersSharingOld : Option OnDupArg → List (Option OnDupArg) → List OnDupArg
  | _, [] => []
  | pk, kw :: rest =>
    effectiveOnDup kw pk :: buildersSharingOld (match kw with | some a => some a | Option.none => pk) rest

def hasDupKey : List PStr → Bool
  | [] => false
  | k :: ks => ks.contains k || hasDupKey ks

/-- a start tag under the raw `on_duplicate_attribute` setting; `none` = Python's `TypeError` (a string that is no
    policy is "called" at the first repeated attribute; without a repeated attribute the setting is never looked at) -/
def parseStartTagArg (maxDigits : Nat) (lower : PStr → PStr) (b : BuilderCfg) (a : OnDupArg) (name : PStr)
    (attrs : List (PStr × Option PStr)) : Option (Res TagAttrs) :=
  match resolveOnDup a with
  | some p => some (parseStartTag maxDigits lower b p name attrs)
  | Option.none =>
    if hasDupKey (attrs.map (·.1)) then Option.none
    else some (parseStartTag maxDigits lower b .replace name attrs)

/-! ### `re.findall(r"\S+", s)` as the regex engine proceeds: at each position try to match there (greedily), else
    move one character on. `splitWs` is proved equal to it. -/

def findallGo : Nat → PStr → List PStr
  | 0, _ => []
  | _ + 1, [] => []
  | fuel + 1, c :: cs =>
    if isWs c then findallGo fuel cs
    else (c :: cs).takeWhile (fun x => !isWs x) :: findallGo fuel ((c :: cs).dropWhile (fun x => !isWs x))

def findallNonWs (s : PStr) : List PStr := findallGo (s.length + 1) s

end BS.Attrs
