import BSModel.Base.PStr
/-! # The tree-construction state machine of `BeautifulSoup` (C03) — code-mirror and documented fold

Mirrors `bs4/__init__.py`: `reset` (667-684), `pushTag` (809-824), `popTag` (786-807), `_popToTag` (950-985),
`endData` (826-865), `string_container` (732-755), `handle_starttag` (987-1051), `handle_endtag` (1053-1063),
`handle_data` (1065-1071), `_feed`'s closing loop (650-664).

The tree being built is kept functionally: every open element is a *frame* holding the children it has got
so far; closing a frame appends the finished element to the frame below (the Python appends the `Tag` to its
parent's `contents` when it is opened and nothing can get between it and its later siblings while it is open,
so this is the same list). The pointer linkage of the same construction is `Model/ParseLink.lean`.
Core Lean only. -/
namespace BS.Builder

abbrev Name := PStr

/-- a string class: 0 = NavigableString; everything else is an id the configuration gives meaning to
    (Comment, CData, Doctype, …; Script, Stylesheet, TemplateString, RubyTextString, …) -/
abbrev Cls := Nat

inductive Doc where
  | elem (name : Name) (pfx : Option Name) (kids : List Doc)
  | text (cls : Cls) (s : PStr)
deriving Repr, BEq

/-- what the builder object contributes (bs4/builder/__init__.py) -/
structure Cfg where
  preserve : Name → Bool            -- `name in builder.preserve_whitespace_tags`
  container : Name → Option Cls     -- `builder.string_containers.get(name)`
  asciiSpaces : List Nat            -- `BeautifulSoup.ASCII_SPACES`
  rootName : Name                   -- `ROOT_TAG_NAME`

/-- the four event kinds of the builder-facing interface -/
inductive Ev where
  | start (name : Name) (pfx : Option Name)     -- handle_starttag
  | stop (name : Name) (pfx : Option Name)      -- handle_endtag
  | data (s : PStr)                             -- handle_data
  | endData (cls : Option Cls)                  -- endData(containerClass)
deriving Repr

structure Frame where
  name : Name
  pfx : Option Name
  kids : List Doc
deriving Repr

structure St where
  stack : List Frame                 -- tagStack, innermost first; the last frame is the BeautifulSoup object
  counter : List (Name × Nat)        -- open_tag_counter (a Counter: association list, missing = absent)
  pws : List Nat                     -- preserve_whitespace_tag_stack, as depths (length of tagStack when pushed)
  scs : List (Nat × Name)            -- string_container_stack, as (depth, tag name)
  buf : List PStr                    -- current_data
deriving Repr

/-! ### Counter -/
def cget (c : List (Name × Nat)) (n : Name) : Option Nat := (c.find? (fun e => e.1 == n)).map (·.2)

def cset (c : List (Name × Nat)) (n : Name) (v : Nat) : List (Name × Nat) :=
  match c with
  | [] => [(n, v)]
  | e :: es => if e.1 == n then (n, v) :: es else e :: cset es n v

/-- `counter[name] += 1` -/
def cinc (c : List (Name × Nat)) (n : Name) : List (Name × Nat) := cset c n ((cget c n).getD 0 + 1)

/-- `if name in counter: counter[name] -= 1` (never below zero in reachable states; see `counter_inv`) -/
def cdec (c : List (Name × Nat)) (n : Name) : List (Name × Nat) :=
  match cget c n with
  | none => c
  | some v => cset c n (v - 1)

/-! ### the code-mirror -/

def St.init (cfg : Cfg) : St := { stack := [⟨cfg.rootName, none, []⟩], counter := [], pws := [], scs := [], buf := [] }

/-- `pushTag` (809-824); the frame's depth is the length of the stack after the push -/
def pushTag (cfg : Cfg) (st : St) (name : Name) (pfx : Option Name) : St :=
  let d := st.stack.length + 1
  { st with
    stack := ⟨name, pfx, []⟩ :: st.stack,
    counter := if name == cfg.rootName then st.counter else cinc st.counter name,
    pws := if cfg.preserve name then d :: st.pws else st.pws,
    scs := if (cfg.container name).isSome then (d, name) :: st.scs else st.scs }

/-- `popTag` (786-807): the finished element goes to the frame below -/
def popTag (st : St) : St :=
  match st.stack with
  | [] => st
  | [_root] => { st with stack := [] }          -- popping the BeautifulSoup object itself (never done by the machine)
  | top :: below :: rest =>
    let d := st.stack.length
    { st with
      stack := { below with kids := below.kids ++ [Doc.elem top.name top.pfx top.kids] } :: rest,
      counter := cdec st.counter top.name,
      pws := match st.pws with | p :: ps => if p = d then ps else st.pws | [] => [],
      scs := match st.scs with | (p, _) :: ss => if p = d then ss else st.scs | [] => [] }

/-- `string_container(base_class)` (732-755), without `element_classes` -/
def stringContainer (cfg : Cfg) (st : St) (base : Option Cls) : Cls :=
  let c := base.getD 0
  match st.scs with
  | (_, n) :: _ => if c = 0 then (cfg.container n).getD c else c
  | [] => c

/-- `endData(containerClass)` (826-865), without `parse_only` (that is C16's machine) -/
def endData (cfg : Cfg) (st : St) (cls : Option Cls) : St :=
  if st.buf.isEmpty then st
  else
    let s := st.buf.flatten
    let s :=
      if st.pws.isEmpty then
        if s.all (fun c => cfg.asciiSpaces.contains c) then (if s.contains 10 then [10] else [32]) else s
      else s
    let c := stringContainer cfg st cls
    match st.stack with
    | [] => { st with buf := [] }
    | top :: rest => { st with stack := { top with kids := top.kids ++ [Doc.text c s] } :: rest, buf := [] }

/-- the loop of `_popToTag` (971-983): `fuel` = `stack_size - 1` iterations at most -/
def popLoop (st : St) (name : Name) (pfx : Option Name) : Nat → St
  | 0 => st
  | fuel + 1 =>
    match cget st.counter name with
    | none => st
    | some 0 => st
    | some _ =>
      match st.stack with
      | [] => st
      | top :: _ =>
        if top.name == name && top.pfx == pfx then popTag st
        else popLoop (popTag st) name pfx fuel

def popToTag (cfg : Cfg) (st : St) (name : Name) (pfx : Option Name) : St :=
  if name == cfg.rootName then st else popLoop st name pfx (st.stack.length - 1)

def step (cfg : Cfg) (st : St) : Ev → St
  | .start name pfx => pushTag cfg (endData cfg st none) name pfx
  | .stop name pfx => popToTag cfg (endData cfg st none) name pfx
  | .data s => { st with buf := st.buf ++ [s] }
  | .endData cls => endData cfg st cls

def run (cfg : Cfg) (st : St) (evs : List Ev) : St := evs.foldl (step cfg) st

/-- `_feed`'s tail: `endData()` then `while currentTag.name != ROOT_TAG_NAME: popTag()` -/
def closeAll : St → Nat → St
  | st, 0 => st
  | st, fuel + 1 =>
    match st.stack with
    | _ :: _ :: _ => closeAll (popTag st) fuel
    | _ => st

def finish (cfg : Cfg) (st : St) : St :=
  let st := endData cfg st none
  closeAll st st.stack.length

/-- the finished document: the children of the BeautifulSoup object -/
def result (st : St) : List Doc :=
  match st.stack with
  | [root] => root.kids
  | _ => []

def build (cfg : Cfg) (evs : List Ev) : List Doc := result (finish cfg (run cfg (St.init cfg) evs))

/-! ### the documented fold (spec)

State: the open elements only (innermost first), each with the children gathered so far, and the pending text.
No counter, no context stacks: everything is read off the open elements. -/

structure SSt where
  stack : List Frame
  buf : List PStr

/-- is a whitespace-preserving element open? -/
def preserving (cfg : Cfg) (stack : List Frame) : Bool := stack.any (fun f => cfg.preserve f.name)

/-- string class given by the nearest enclosing special container, if the text has no class of its own -/
def classFor (cfg : Cfg) (stack : List Frame) (base : Option Cls) : Cls :=
  match base with
  | some c => if c = 0 then ((stack.find? (fun f => (cfg.container f.name).isSome)).bind (fun f => cfg.container f.name)).getD 0 else c
  | none => ((stack.find? (fun f => (cfg.container f.name).isSome)).bind (fun f => cfg.container f.name)).getD 0

/-- text gathered until the next non-text event becomes one string: whitespace-only text outside
    whitespace-preserving elements collapses to one newline or space -/
def sFlush (cfg : Cfg) (st : SSt) (cls : Option Cls) : SSt :=
  match st.buf, st.stack with
  | [], _ => st
  | _ :: _, [] => { st with buf := [] }
  | b, top :: rest =>
    let s := b.flatten
    let s := if !(preserving cfg st.stack) && s.all (fun c => cfg.asciiSpaces.contains c)
             then (if s.contains 10 then [10] else [32]) else s
    { stack := { top with kids := top.kids ++ [Doc.text (classFor cfg st.stack cls) s] } :: rest, buf := [] }

/-- close the innermost element (it becomes the last child of the one below) -/
def sClose1 : List Frame → List Frame
  | top :: below :: rest => { below with kids := below.kids ++ [Doc.elem top.name top.pfx top.kids] } :: rest
  | s => s

/-- close `k` elements -/
def sCloseN : Nat → List Frame → List Frame
  | 0, s => s
  | k + 1, s => sCloseN k (sClose1 s)

/-- number of elements to close for an end tag: up to and including the most recent open element with that
    name and prefix; if the name is open only under other prefixes, up to and including the OUTERMOST open
    element of that name; nothing if the name is not open (the BeautifulSoup object is never closed) -/
def closeCount (name : Name) (pfx : Option Name) (open_ : List Frame) : Nat :=
  match open_.findIdx? (fun f => f.name == name && f.pfx == pfx) with
  | some i => i + 1
  | none =>
    -- index of the outermost open element of that name, counted from the innermost
    match (open_.reverse.findIdx? (fun f => f.name == name)) with
    | some j => open_.length - j
    | none => 0

def sStep (cfg : Cfg) (st : SSt) : Ev → SSt
  | .start name pfx => let st := sFlush cfg st none; { st with stack := ⟨name, pfx, []⟩ :: st.stack }
  | .stop name pfx =>
    let st := sFlush cfg st none
    if name == cfg.rootName then st
    else { st with stack := sCloseN (closeCount name pfx st.stack.dropLast) st.stack }
  | .data s => { st with buf := st.buf ++ [s] }
  | .endData cls => sFlush cfg st cls

def sRun (cfg : Cfg) (st : SSt) (evs : List Ev) : SSt := evs.foldl (sStep cfg) st

def buildSpec (cfg : Cfg) (evs : List Ev) : List Doc :=
  let st := sFlush cfg (sRun cfg ⟨[⟨cfg.rootName, none, []⟩], []⟩ evs) none
  match sCloseN (st.stack.length - 1) st.stack with
  | [root] => root.kids
  | _ => []

/-! ## parsing strategies (`BeautifulSoup.__init__`, bs4/__init__.py:468-486) and the empty-element rule -/

/-- one parsing strategy offered by `builder.prepare_markup`: the events the builder sent while being fed, and whether it then gave up
    with `ParserRejectedMarkup` (what the lxml builders do per candidate encoding) -/
structure Attempt where
  evs : List Ev
  rejected : Bool

/-- `for (…) in self.builder.prepare_markup(…): self.reset(); self.builder.initialize_soup(self); try: self._feed(); success = True; break
    except ParserRejectedMarkup: pass` — the state `st` left behind by the previous iteration is carried into the next one exactly as
    the object's fields are; `none` = every strategy was rejected (ParserRejectedMarkup is raised to the caller) -/
def parseLoop (cfg : Cfg) (st : St) : List Attempt → Option (List Doc)
  | [] => none
  | a :: rest =>
    let _ := st
    let st0 := St.init cfg                         -- self.reset(): whatever `st` held is dropped
    let st1 := run cfg st0 a.evs
    if a.rejected then parseLoop cfg st1 rest
    else some (result (finish cfg st1))

/-- `TreeBuilder.can_be_empty_element` (bs4/builder/__init__.py:283-296): `if self.empty_element_tags is None: return True` —
    `none` (no rule configured) makes every tag a potential void element, a configured collection, the EMPTY one included,
    exactly its members -/
def canBeEmptyElement (emptyTags : Option (List Name)) (name : Name) : Bool :=
  match emptyTags with
  | none => true
  | some l => l.contains name

end BS.Builder
