import BSModel.Base.PStr
import BSModel.Gen.ConstructTab
/-! C06 — construction: what `BeautifulSoup(markup, "html.parser", from_encoding=…, exclude_encodings=…)` can
    end in. Python exceptions are explicit (`Err`, `Except Err α`); nothing is silently totalised.

    Code mirrored (file:line of /repo):
    * `BeautifulSoup.__init__` markup checks and guard of the beginner heuristics (bs4/__init__.py:439-454),
      `_markup_is_url` (:551-581), `_markup_resembles_filename` (:583-648);
    * the retry loop over `builder.prepare_markup(...)` (:460-490) with `reset()` (:666-680) and `_feed` (:650-664);
    * `HTMLParserTreeBuilder.prepare_markup` (bs4/builder/_htmlparser.py:378-443), `feed` (:445-474),
      `BeautifulSoupHTMLParser.handle_charref` (:226-264), `handle_entityref` (:266-284);
    * `UnicodeDammit.__init__` two passes and `_convert_from` (bs4/dammit.py:806-845, 930-967).

    `…Old` definitions mirror the code as it was before the three C06 repairs (fixes/C06-*.diff); the un-suffixed
    ones mirror the repaired code. CPython's tokenizer (`html.parser.HTMLParser.goahead`) and codecs are parameters. -/
namespace BS.Construct

/-- Python exception classes: the built-in ones that the layers under the constructor raise, catch or let through,
    bs4's own, and two open families for everything else. A raised exception is identified with its exact class; `sup`
    is its method resolution order (`Gen/C06Exc.lean` holds the `__mro__` of the live classes, `mro_table` compares). -/
inductive Err where
  | baseException | exception
  | keyboardInterrupt | systemExit | generatorExit
  | arithmeticError | overflowError | zeroDivisionError
  | assertionError | attributeError
  | lookupError | indexError | keyError
  | valueError | unicodeError | unicodeDecodeError | unicodeEncodeError | unicodeTranslateError
  | typeError | runtimeError | recursionError | notImplementedError | memoryError | stopIteration | osError
  | importError | nameError
  | parserRejectedMarkup        -- bs4.exceptions.ParserRejectedMarkup(Exception)
  | featureNotFound             -- bs4.exceptions.FeatureNotFound(ValueError)
  | stopParsing                 -- bs4.exceptions.StopParsing(Exception)
  | warningClass                -- Warning and its subclasses (a warning turned into an error by the user's filters)
  | other (k : Nat)             -- any further direct subclass of Exception (user-defined, third party)
  | otherBase (k : Nat)         -- any further direct subclass of BaseException
deriving DecidableEq, Repr

/-- the class itself followed by its base classes (`cls.__mro__` without `object`) -/
def Err.sup : Err → List Err
  | .baseException => [.baseException]
  | .exception => [.exception, .baseException]
  | .keyboardInterrupt => [.keyboardInterrupt, .baseException]
  | .systemExit => [.systemExit, .baseException]
  | .generatorExit => [.generatorExit, .baseException]
  | .arithmeticError => [.arithmeticError, .exception, .baseException]
  | .overflowError => [.overflowError, .arithmeticError, .exception, .baseException]
  | .zeroDivisionError => [.zeroDivisionError, .arithmeticError, .exception, .baseException]
  | .assertionError => [.assertionError, .exception, .baseException]
  | .attributeError => [.attributeError, .exception, .baseException]
  | .lookupError => [.lookupError, .exception, .baseException]
  | .indexError => [.indexError, .lookupError, .exception, .baseException]
  | .keyError => [.keyError, .lookupError, .exception, .baseException]
  | .valueError => [.valueError, .exception, .baseException]
  | .unicodeError => [.unicodeError, .valueError, .exception, .baseException]
  | .unicodeDecodeError => [.unicodeDecodeError, .unicodeError, .valueError, .exception, .baseException]
  | .unicodeEncodeError => [.unicodeEncodeError, .unicodeError, .valueError, .exception, .baseException]
  | .unicodeTranslateError => [.unicodeTranslateError, .unicodeError, .valueError, .exception, .baseException]
  | .typeError => [.typeError, .exception, .baseException]
  | .runtimeError => [.runtimeError, .exception, .baseException]
  | .recursionError => [.recursionError, .runtimeError, .exception, .baseException]
  | .notImplementedError => [.notImplementedError, .runtimeError, .exception, .baseException]
  | .memoryError => [.memoryError, .exception, .baseException]
  | .stopIteration => [.stopIteration, .exception, .baseException]
  | .osError => [.osError, .exception, .baseException]
  | .importError => [.importError, .exception, .baseException]
  | .nameError => [.nameError, .exception, .baseException]
  | .parserRejectedMarkup => [.parserRejectedMarkup, .exception, .baseException]
  | .featureNotFound => [.featureNotFound, .valueError, .exception, .baseException]
  | .stopParsing => [.stopParsing, .exception, .baseException]
  | .warningClass => [.warningClass, .exception, .baseException]
  | .other k => [.other k, .exception, .baseException]
  | .otherBase k => [.otherBase k, .baseException]

/-- the classes the model knows by name -/
def Err.named : List Err :=
  [.baseException, .exception, .keyboardInterrupt, .systemExit, .generatorExit, .arithmeticError, .overflowError,
   .zeroDivisionError, .assertionError, .attributeError, .lookupError, .indexError, .keyError, .valueError, .unicodeError,
   .unicodeDecodeError, .unicodeEncodeError, .unicodeTranslateError, .typeError, .runtimeError, .recursionError,
   .notImplementedError, .memoryError, .stopIteration, .osError, .importError, .nameError, .parserRejectedMarkup,
   .featureNotFound, .stopParsing, .warningClass]

/-- `issubclass(e, c)` -/
def Err.isSub (e c : Err) : Bool := e.sup.contains c

/-- does `except (c₁, c₂, …)` catch an exception of class `e`? -/
def catches (clause : List Err) (e : Err) : Bool := clause.any e.isSub

deriving instance DecidableEq for Except

/-! ## (ii) the beginner heuristics on short markup -/

inductive Markup where
  | str (s : PStr)
  | bytes (b : Bytes)
deriving DecidableEq, Repr

/-- code points of a `str`, byte values of a `bytes`: every test of the heuristics is on ASCII units -/
def Markup.units : Markup → List Nat
  | .str s => s
  | .bytes b => b

/-- `len(markup) <= 256 and ("<" not in markup and "\n" not in markup)` (bs4/__init__.py:445-448), same for bytes -/
def heuristicsGuard (m : Markup) : Bool :=
  decide (m.units.length ≤ Gen.C06.heuristicsMaxLen) && !(m.units.contains 60) && !(m.units.contains 10)

/-- `sub in s` for a non-empty pattern -/
def hasInfix (p : List Nat) : List Nat → Bool
  | [] => p.isEmpty
  | c :: t => p.isPrefixOf (c :: t) || hasInfix p t

/-- `_markup_is_url` (bs4/__init__.py:561-575): starts with `http:`/`https:` and holds no space -/
def markupIsUrl (m : Markup) : Bool :=
  Gen.C06.urlPrefixes.any (fun p => p.isPrefixOf m.units) && !(m.units.contains 32)

def isSurrogate (c : Nat) : Bool := decide (0xD800 ≤ c) && decide (c ≤ 0xDFFF)

/-- UTF-8 bytes of one code point (what CPython's encoder emits for a non-surrogate) -/
def utf8Bytes (c : Nat) : List Nat :=
  if c < 0x80 then [c]
  else if c < 0x800 then [0xC0 + c / 64, 0x80 + c % 64]
  else if c < 0x10000 then [0xE0 + c / 4096, 0x80 + c / 64 % 64, 0x80 + c % 64]
  else [0xF0 + c / 262144 % 8, 0x80 + c / 4096 % 64, 0x80 + c / 64 % 64, 0x80 + c % 64]

/-- `s.encode("utf8")`: raises `UnicodeEncodeError` on the first lone surrogate -/
def encodeUtf8Strict : PStr → Except Err Bytes
  | [] => .ok []
  | c :: cs =>
    if isSurrogate c then .error .unicodeEncodeError
    else match encodeUtf8Strict cs with
      | .ok bs => .ok (utf8Bytes c ++ bs)
      | .error e => .error e

/-- `s.encode("utf8", "replace")`: a lone surrogate becomes `?` -/
def encodeUtf8Replace (s : PStr) : Bytes :=
  s.flatMap fun c => if isSurrogate c then [63] else utf8Bytes c

def lowerAscii (b : Nat) : Nat := if 65 ≤ b ∧ b ≤ 90 then b + 32 else b

def rfindAux (x : Nat) : List Nat → Nat → Option Nat → Option Nat
  | [], _, acc => acc
  | y :: ys, i, acc => rfindAux x ys (i + 1) (if y == x then some i else acc)

/-- `bytes.rfind(single byte)`; `none` = -1 -/
def rfind (x : Nat) (l : List Nat) : Option Nat := rfindAux x l 0 none

/-- `_markup_resembles_filename` after the conversion to bytes (bs4/__init__.py:602-648) -/
def resemblesFilename (b : Bytes) : Bool :=
  let lower := b.map lowerAscii
  if !(Gen.C06.fileExtensions.any fun ext => ext.isSuffixOf lower) then false      -- :606-609
  else if b.any (fun byte => Gen.C06.shellChars.contains byte) then false          -- :619-621
  else if hasInfix [47, 47] b then false                                       -- :628
  else if hasInfix [32, 32] b then false                                       -- :630
  else if [58].isPrefixOf b then false                                         -- :635
  else match rfind 58 b with                                                   -- :637-639
    | none => true
    | some i => i == 1

/-- which `MarkupResemblesLocatorWarning` the constructor emits -/
inductive Warning where
  | none | url | filename
deriving DecidableEq, Repr

/-- bs4/__init__.py:445-454 with the repaired `markup.encode("utf8", "replace")` -/
def heuristics (m : Markup) : Except Err Warning :=
  if !heuristicsGuard m then .ok .none
  else if markupIsUrl m then .ok .url
  else
    let b := match m with
      | .str s => encodeUtf8Replace s
      | .bytes b => b
    .ok (if resemblesFilename b then .filename else .none)

/-- the same before the repair: `markup.encode("utf8")` (bs4/__init__.py:598) -/
def heuristicsOld (m : Markup) : Except Err Warning :=
  if !heuristicsGuard m then .ok .none
  else if markupIsUrl m then .ok .url
  else
    match m with
    | .str s =>
      match encodeUtf8Strict s with
      | .error e => .error e
      | .ok b => .ok (if resemblesFilename b then .filename else .none)
    | .bytes b => .ok (if resemblesFilename b then .filename else .none)

/-! ## (iii) numeric character references -/

def isDigit (c : Nat) : Bool := decide (48 ≤ c) && decide (c ≤ 57)

def hexVal (c : Nat) : Option Nat :=
  if 48 ≤ c ∧ c ≤ 57 then some (c - 48)
  else if 97 ≤ c ∧ c ≤ 102 then some (c - 87)
  else if 65 ≤ c ∧ c ≤ 70 then some (c - 55)
  else none

def digitsToNat (base : Nat) (ds : List Nat) : Nat := ds.foldl (fun a d => a * base + d) 0

/-- `int(s)` for `s` over the alphabet `[0-9a-fA-FxX]` (all the tokenizer's regex
    `&#(?:[0-9]+|[xX][0-9a-fA-F]+)` lets through): decimal digits only, non-empty, and CPython refuses more than
    `sys.int_max_str_digits` digits (leading zeros count) with `ValueError`. -/
def pyIntDec (s : PStr) : Except Err Nat :=
  if s.isEmpty || !s.all isDigit then .error .valueError
  else if Gen.C06.intMaxStrDigitsC06 ≠ 0 ∧ s.length > Gen.C06.intMaxStrDigitsC06 then .error .valueError
  else .ok (digitsToNat 10 (s.map (· - 48)))

/-- `int(s, 16)` over the same alphabet: an optional `0x`/`0X` prefix, then at least one hex digit; no digit limit
    for a power-of-two base -/
def pyIntHex (s : PStr) : Except Err Nat :=
  let body := match s with
    | 48 :: x :: r => if x == 120 || x == 88 then r else s
    | _ => s
  match body.mapM hexVal with
  | some ds => if ds.isEmpty then .error .valueError else .ok (digitsToNat 16 ds)
  | none => .error .valueError

/-- bs4/builder/_htmlparser.py:237-242 — note `lstrip`, not `[1:]` -/
def charrefNumber (name : PStr) : Except Err Nat :=
  match name with
  | 120 :: _ => pyIntHex (name.dropWhile (· == 120))
  | 88 :: _ => pyIntHex (name.dropWhile (· == 88))
  | _ => pyIntDec name

/-- `bytearray([n]).decode(encoding)` -/
inductive Dec1 where
  | ok (s : PStr)
  | decodeError           -- UnicodeDecodeError
  | otherError            -- another exception class (CPython 3.12 `punycode`: plain `UnicodeError`)
deriving DecidableEq, Repr

def cp1252 (n : Nat) : Dec1 :=
  match Gen.C06.cp1252Decode[n]? with
  | some (some c) => .ok [c]
  | _ => .decodeError

/-- Python truthiness of `data` (`None` and `""` are false) -/
def truthy : Option PStr → Bool
  | some (_ :: _) => true
  | _ => false

/-- one round of the `for encoding in (self.soup.original_encoding, "windows-1252")` loop (:250-256); `catchAll` =
    the repaired `except UnicodeError` (a superclass of what every text codec may raise from `decode`) -/
def tryDecode (catchAll : Bool) (d : Option (Nat → Dec1)) (n : Nat) (data : Option PStr) : Except Err (Option PStr) :=
  match d with
  | none => .ok data                    -- `if not encoding: continue`
  | some f =>
    match f n with
    | .ok s => .ok (some s)
    | .decodeError => .ok data
    | .otherError => if catchAll then .ok data else .error .unicodeError

/-- :257-263 — `chr` (ValueError/OverflowError swallowed), then the U+FFFD default -/
def charrefFinish (n : Nat) (data : Option PStr) : PStr :=
  let data := if truthy data then data else if n ≤ Gen.C06.maxUnicode then some [n] else data
  if truthy data then data.getD [] else [0xFFFD]

def charrefFrom (catchAll : Bool) (orig : Option (Nat → Dec1)) (n : Nat) : Except Err PStr :=
  if n < 256 then
    match tryDecode catchAll orig n none with
    | .error e => .error e
    | .ok d1 =>
      match tryDecode catchAll (some cp1252) n d1 with
      | .error e => .error e
      | .ok d2 => .ok (charrefFinish n d2)
  else .ok (charrefFinish n none)

/-- `handle_charref` as repaired: a name `int()` refuses counts as an out-of-range number; `orig` = the one-byte
    decoder of `soup.original_encoding` (`none` for `str` input). Returns the text handed to `handle_data`. -/
def handleCharref (orig : Option (Nat → Dec1)) (name : PStr) : Except Err PStr :=
  let n := match charrefNumber name with
    | .ok n => n
    | .error _ => Gen.C06.maxUnicode + 1
  charrefFrom true orig n

/-- `handle_charref` before the repairs: `int()`'s `ValueError` and a codec's non-`UnicodeDecodeError` escape -/
def handleCharrefOld (orig : Option (Nat → Dec1)) (name : PStr) : Except Err PStr :=
  match charrefNumber name with
  | .error e => .error e
  | .ok n => charrefFrom false orig n

/-- the documented meaning for `str` input: the code point itself, except that 128–159 are read as Windows-1252
    and anything that is not a code point becomes U+FFFD -/
def charrefSpec (n : Nat) : PStr :=
  if n < 256 then
    match Gen.C06.cp1252Decode[n]? with
    | some (some c) => [c]
    | _ => [n]
  else if n ≤ Gen.C06.maxUnicode then [n]
  else [0xFFFD]

/-- `handle_entityref` (:266-284): table hit or the literal `&name` — total whatever the table -/
def handleEntityref (table : PStr → Option PStr) (name : PStr) : PStr :=
  match table name with
  | some ch => ch
  | none => 38 :: name

/-! ## (iv) `UnicodeDammit`: strict pass, `replace` pass, text or `None` -/

structure DammitEnv where
  /-- `find_codec` (dammit.py:988-1003): the codec name tried for an encoding name; `none` only for an empty name -/
  codecOf : Nat → Option Nat
  /-- `str(markup, codec, errors)`; `none` = any `Exception` (dammit.py:956-965), incl. `LookupError` for unknown and
      non-text codecs -/
  decode : Nat → Bool → Option PStr
  /-- `encoding != "ascii"` is tested on the *name* the detector yields (dammit.py:822) -/
  isAscii : Nat → Bool

structure DammitState where
  tried : List (Nat × Bool) := []
  unicodeMarkup : Option PStr := none
  originalEncoding : Option Nat := none
deriving Repr

/-- `_convert_from(proposed, errors)` (dammit.py:930-967) -/
def convertFrom (env : DammitEnv) (st : DammitState) (proposed : Nat) (replace : Bool) : Option PStr × DammitState :=
  match env.codecOf proposed with
  | none => (none, st)
  | some c =>
    if st.tried.contains (c, replace) then (none, st)
    else
      let st := { st with tried := st.tried ++ [(c, replace)] }
      match env.decode c replace with
      | none => (none, st)
      | some u => (some u, { st with unicodeMarkup := some u, originalEncoding := some c })

/-- dammit.py:810-815 -/
def pass1 (env : DammitEnv) : List Nat → DammitState → Option PStr × DammitState
  | [], st => (none, st)
  | e :: es, st =>
    match convertFrom env st e false with
    | (some u, st') => (some u, st')
    | (none, st') => pass1 env es st'

/-- dammit.py:821-831; `u` is threaded because an `ascii` candidate leaves the previous value in place -/
def pass2 (env : DammitEnv) : List Nat → Option PStr → DammitState → Option PStr × Bool × DammitState
  | [], u, st => (u, false, st)
  | e :: es, u, st =>
    let r := if env.isAscii e then (u, st) else convertFrom env st e true
    if r.1.isSome then (r.1, true, r.2) else pass2 env es r.1 r.2

structure DammitResult where
  unicodeMarkup : Option PStr
  originalEncoding : Option Nat
  containsReplacement : Bool
deriving Repr, DecidableEq

/-- the guard of the second pass negated: `if not u:` (dammit.py:817) — or `if u is None:` once C07's repair is in;
    which one the live source has is read by the translator -/
def firstPassEnough (u : Option PStr) : Bool := if Gen.C06.dammitRetriesOnEmpty then truthy u else u.isSome

/-- `UnicodeDammit.__init__` for non-empty bytes, given the candidate list `detector.encodings` yields (the same both
    times: C07 models the generator) -/
def dammit (env : DammitEnv) (encs : List Nat) : DammitResult :=
  let p1 := pass1 env encs {}
  let p2 := if firstPassEnough p1.1 then (p1.1, false, p1.2) else pass2 env encs p1.1 p1.2
  match p2.1 with
  | none => ⟨none, none, p2.2.1⟩                                                       -- :841-843
  | some t => ⟨some t, p2.2.2.originalEncoding, p2.2.1⟩

/-- one element of what `prepare_markup` yields -/
structure Strategy where
  markup : PStr
  originalEncoding : Option Nat := none
  declaredEncoding : Option Nat := none
  containsReplacement : Bool := false
deriving Repr, DecidableEq

/-- `HTMLParserTreeBuilder.prepare_markup` (bs4/builder/_htmlparser.py:378-443): `str` → itself; bytes → one strategy
    from UnicodeDammit, or `ParserRejectedMarkup` raised from inside the generator when nothing decodes -/
def prepareMarkup (dammitOf : Bytes → DammitResult) (declared : Bytes → Option Nat) : Markup → Except Err (List Strategy)
  | .str s => .ok [{ markup := s }]
  | .bytes b =>
    let d := dammitOf b
    match d.unicodeMarkup with
    | none => .error .parserRejectedMarkup
    | some u => .ok [⟨u, d.originalEncoding, declared b, d.containsReplacement⟩]

/-! ## (i) the retry loop, at the level of object fields -/

abbrev Field := String
/-- the attributes of the `BeautifulSoup` object and (prefixed `builder.`) of its builder -/
abbrev Obj (V : Type) := Field → V

def Obj.set {V : Type} (o : Obj V) (f : Field) (v : V) : Obj V := fun g => if g = f then v else o g

/-- a sequence of attribute assignments, in order -/
def assignAll {V : Type} (fs : List (Field × V)) (o : Obj V) : Obj V :=
  fs.foldl (fun o p => o.set p.1 p.2) o

inductive Outcome where
  | accept
  | reject                -- `except ParserRejectedMarkup` (bs4/__init__.py:476)
  | raise (e : Err)       -- anything else propagates out of the constructor
deriving DecidableEq, Repr

structure Machine (V : Type) where
  /-- the for-loop targets (bs4/__init__.py:463-466) -/
  header : Strategy → List (Field × V)
  /-- what `reset()` (:666-680, incl. `Tag.__init__`) and `builder.initialize_soup` assign; may read the object -/
  fresh : Obj V → List (Field × V)
  /-- `_feed()` inside the `try` (:472-478): the object afterwards (half-built when not accepted) and how it ended -/
  feed : Obj V → Obj V × Outcome
  /-- `self.markup = None; self.builder.soup = None` (:489-490) -/
  finish : List (Field × V)

/-- one iteration of the loop body from object `o` -/
def attempt {V : Type} (m : Machine V) (o : Obj V) (s : Strategy) : Obj V × Outcome :=
  let o1 := assignAll (m.header s) o
  m.feed (assignAll (m.fresh o1) o1)

/-- bs4/__init__.py:460-490 -/
def retry {V : Type} (m : Machine V) : Obj V → List Strategy → Obj V × Except Err Unit
  | o, [] => (o, .error .parserRejectedMarkup)
  | o, s :: rest =>
    match attempt m o s with
    | (o', .accept) => (assignAll m.finish o', .ok ())
    | (o', .reject) => retry m o' rest
    | (o', .raise e) => (o', .error e)

/-- two objects agree on every field outside `X` -/
def AgreeOff {V : Type} (X : List Field) (a b : Obj V) : Prop := ∀ f, f ∉ X → a f = b f

/-- the assumptions that make a `Machine` a model of the code (checked against the live object: `Gen.C06.resetAssigns`,
    `Gen.C06.headerAssigns`, `Gen.C06.feedTouches`; measured per case by the fault-injection stream) -/
structure Machine.WF {V : Type} (m : Machine V) (R H : List Field) : Prop where
  headerKeys : ∀ s, (m.header s).map Prod.fst = H
  freshKeys : ∀ o, (m.fresh o).map Prod.fst = R
  /-- the values `reset()` computes do not depend on anything `reset()` itself assigns -/
  freshFrame : ∀ o o', AgreeOff R o o' → m.fresh o = m.fresh o'
  /-- a feed — accepted, rejected or crashed — writes only fields that are re-assigned before the next attempt -/
  feedFrame : ∀ o, AgreeOff (R ++ H) (m.feed o).1 o

/-! ## (v) `feed`: tokenizer events through the handlers, `AssertionError` wrapped -/

inductive Event where
  | charref (name : PStr)
  | other (k : Nat)
deriving Repr

structure Parser (V : Type) where
  /-- CPython's tokenizer on a text: the events delivered, then possibly an exception of its own -/
  tokenize : PStr → List Event × Option Err
  /-- `soup.handle_data` -/
  applyData : PStr → Obj V → Obj V
  /-- every other handler (start/end tag, comment, decl, pi, entityref, data): C04's models; here a parameter that
      may fail -/
  applyOther : Nat → Obj V → Obj V × Option Err
  /-- `endData()` and the `popTag` loop of `_feed` (:660-664) -/
  endOfInput : Obj V → Obj V
  markupOf : Obj V → PStr
  origOf : Obj V → Option (Nat → Dec1)

def handleEvents {V : Type} (p : Parser V) (orig : Option (Nat → Dec1)) : List Event → Obj V → Obj V × Option Err
  | [], o => (o, none)
  | .charref n :: es, o =>
    match handleCharref orig n with
    | .ok d => handleEvents p orig es (p.applyData d o)
    | .error e => (o, some e)
  | .other k :: es, o =>
    match p.applyOther k o with
    | (o', none) => handleEvents p orig es o'
    | (o', some e) => (o', some e)

/-- `parser.feed(markup); parser.close()`: handler exceptions pass through the tokenizer -/
def parserFeed {V : Type} (p : Parser V) (o : Obj V) : Obj V × Option Err :=
  let t := p.tokenize (p.markupOf o)
  match handleEvents p (p.origOf o) t.1 o with
  | (o', some e) => (o', some e)
  | (o', none) => (o', t.2)

/-- Python's `ValueError` and its subclasses (`UnicodeError` ⊂ `ValueError`, …) -/
def Err.isValueError (e : Err) : Bool := e.isSub .valueError

/-- `HTMLParserTreeBuilder.feed` (bs4/builder/_htmlparser.py:466-474) as repaired:
    `except (AssertionError, ValueError) as e: raise ParserRejectedMarkup(e)` — CPython's tokenizer raises
    `ValueError` from `html.unescape` for an attribute value holding a decimal reference beyond the digit limit -/
def builderFeed {V : Type} (p : Parser V) (o : Obj V) : Obj V × Option Err :=
  match parserFeed p o with
  | (o', some e) => if e = .assertionError ∨ e.isValueError = true then (o', some .parserRejectedMarkup) else (o', some e)
  | r => r

/-- the same before the repair: only `AssertionError` is wrapped -/
def builderFeedOld {V : Type} (p : Parser V) (o : Obj V) : Obj V × Option Err :=
  match parserFeed p o with
  | (o', some .assertionError) => (o', some .parserRejectedMarkup)
  | r => r

def feedOutcome {V : Type} (p : Parser V) : Obj V × Option Err → Obj V × Outcome
  | (o', none) => (p.endOfInput o', .accept)
  | (o', some .parserRejectedMarkup) => (o', .reject)
  | (o', some e) => (o', .raise e)

/-- `_feed` under the constructor's `try … except ParserRejectedMarkup` -/
def soupFeed {V : Type} (p : Parser V) (o : Obj V) : Obj V × Outcome := feedOutcome p (builderFeed p o)

def soupFeedOld {V : Type} (p : Parser V) (o : Obj V) : Obj V × Outcome := feedOutcome p (builderFeedOld p o)

/-- the constructor from the markup checks on (bs4/__init__.py:439-490) for `str`/`bytes` markup -/
def construct {V : Type} (m : Machine V) (heur : Markup → Except Err Warning)
    (prep : Markup → Except Err (List Strategy)) (o0 : Obj V) (mk : Markup) : Obj V × Except Err Unit :=
  match heur mk with
  | .error e => (o0, .error e)
  | .ok _ =>
    match prep mk with
    | .error e => (o0, .error e)
    | .ok ss => retry m o0 ss

/-- the executable core of `retry` for the driver: index of the first attempt that does not reject -/
def retryIndex : List Outcome → Nat → Option (Nat × Outcome)
  | [], _ => none
  | .reject :: r, i => retryIndex r (i + 1)
  | o :: _, i => some (i, o)

/-- the constructor's end for the first non-rejecting attempt (none: every strategy rejected) -/
def retryResult : Option (Nat × Outcome) → Except Err Unit
  | some (_, .raise e) => .error e
  | some (_, .accept) => .ok ()
  | _ => .error .parserRejectedMarkup

end BS.Construct
